#!/bin/sh
# Builds the checker offline from /verif/checker (x/tools v0.29.0 from the module cache).
set -e
V=$(cd "$(dirname "$0")" && pwd)
cd "$V/checker"
mkdir -p "$V/bin" "$V/evidence"
GOFLAGS=-mod=mod GOWORK=off GOPROXY=off GOSUMDB=off GOTOOLCHAIN=local go build -o "$V/bin/bpmnlint" .
