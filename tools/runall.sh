#!/bin/sh
# runall.sh [quick|thorough]: regenerate MANIFEST.json, run every claimed check, validate evidence.
cd /verif
./setup.sh || exit 2
./bin/bpmnlint -emit-manifest MANIFEST.json
TIER=${1:-quick}
PROPS=$(python3 -c "import json;print(' '.join(c['property_id'] for c in json.load(open('MANIFEST.json'))['checks']))")
mkdir -p /tmp/runall; rm -f /tmp/runall/*
# quick: all at once (3 s each); thorough: four at a time (each runs six sub-processes of ~1 GB)
PAR=20; [ "$TIER" = thorough ] && PAR=4
echo $PROPS | tr ' ' '\n' | xargs -P $PAR -I{} sh -c "./run.sh {} $TIER > /tmp/runall/{}.out 2> /tmp/runall/{}.err; echo \$? > /tmp/runall/{}.rc"
for p in $PROPS; do
  rc=$(cat /tmp/runall/$p.rc); k=$(grep -c '^KNOWN-FINDING' /tmp/runall/$p.out); v=$(grep -c '^VIOLATION' /tmp/runall/$p.out)
  echo "$p rc=$rc known=$k violations=$v"
  [ "$rc" != "0" ] && head -20 /tmp/runall/$p.err
done
python3-vt - <<'PY'
import json,jsonschema,glob
s=json.load(open('/root/.vp/EVIDENCE.schema.json'))
m=json.load(open('/verif/MANIFEST.json'))
jsonschema.validate(m,json.load(open('/root/.vp/MANIFEST.schema.json')))
for c in m['checks']:
    e=json.load(open(c['evidence_file'])); jsonschema.validate(e,s)
print('manifest + %d evidence files valid; not_applicable=%d'%(len(m['checks']),len(m['not_applicable'])))
PY
