#!/usr/bin/env python3
"""benigncheck.py [dir]: false-alarm measurement. Every patch under /verif/benign (behaviour-preserving refactorings
written by sub-agents that knew nothing of the checks; each confirmed to build and pass the suite) is applied to a
scratch worktree of /repo; all rules are run; an obligation that fails there and not on the unpatched tree, and a
rule whose instance count drops below its minimum, is a FALSE ALARM of the checker. Prints them; exit 1 if any."""
import json, os, sys, glob, subprocess
from concurrent.futures import ThreadPoolExecutor
ENV = dict(os.environ, GOPROXY="off", GOSUMDB="off", GOTOOLCHAIN="local")
ENV.pop("GOFLAGS", None); ENV.pop("GOWORK", None)
LINT = "/verif/bin/bpmnlint"
D = sys.argv[1] if len(sys.argv) > 1 else "/verif/benign"
rules = subprocess.run(LINT + " -inventory rules 2>/dev/null | awk '{print $1}' | tr '\\n' ','", shell=True, capture_output=True, text=True, env=ENV).stdout.strip(",")
def failing(tree):
    o = subprocess.run([LINT, "-json", "-no-known", "-repo", tree, "-rules", rules], capture_output=True, text=True, env=ENV).stdout
    return {json.loads(l)["key"]: json.loads(l) for l in o.splitlines() if l.startswith("{")}
base = failing("/repo")
def one(patch):
    name = os.path.basename(patch)[:-5]
    wt = "/tmp/wt/bn_" + name
    subprocess.run(f"git -C /repo worktree remove --force {wt}", shell=True, capture_output=True)
    subprocess.run(f"git -C /repo worktree add --detach {wt} HEAD", shell=True, capture_output=True)
    r = subprocess.run(f"git apply {patch}", shell=True, cwd=wt, capture_output=True, text=True)
    if r.returncode != 0:
        subprocess.run(f"git -C /repo worktree remove --force {wt}", shell=True, capture_output=True)
        return name, None
    after = failing(wt)
    subprocess.run(f"git -C /repo worktree remove --force {wt}", shell=True, capture_output=True)
    return name, {k: v for k, v in after.items() if k not in base}
with ThreadPoolExecutor(max_workers=6) as ex:
    res = list(ex.map(one, sorted(glob.glob(D + "/*.diff"))))
bad = 0
for name, new in res:
    if new is None:
        print(name, "does not apply to HEAD (stale)")
    elif new:
        bad += 1
        print(name, "FALSE ALARM:")
        for k, v in sorted(new.items()):
            print("    ", k, "|", (v.get("witness") or "")[:200])
print(f"{len(res)} refactorings, {bad} with alarms, {len([r for r in res if r[1] is None])} stale")
sys.exit(1 if bad else 0)
