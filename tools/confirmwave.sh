#!/bin/sh
# confirmwave.sh <frozen-bpmnlint> <letters...>: confirm every delivered fault /tmp/mut/Cnn/<letter> that has a
# meta.json and no confirm.json yet (sequentially: the demonstrations are timing-sensitive under load).
LINT=$1; shift
for l in "$@"; do
  for d in /tmp/mut/C*/$l; do
    [ -f "$d/meta.json" ] && [ -f "$d/patch.diff" ] && [ -f "$d/demo_test.go" ] || continue
    [ -f "$d/confirm.json" ] && continue
    BPMNLINT=$LINT python3 /verif/tools/mutconfirm.py "$d" 2>&1 | tail -1
  done
done
