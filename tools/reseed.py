#!/usr/bin/env python3
"""reseed.py [import <wave-number> <letters>] : maintain /verif/seeded.

  reseed.py import 3 ef   -- copy the confirmed faults /tmp/mut/Cnn/{e,f} (confirm.json written by
                             mutconfirm.py) into /verif/seeded/Cnn{e,f}; the verdict of that confirmation
                             run is stored as `first_sight` (it was obtained before any rule was changed)
  reseed.py               -- re-evaluate every seeded/<id>/patch.diff with the CURRENT checker (scratch
                             worktree of /repo outside /repo and /verif, all rules, failing obligations
                             that the unpatched tree does not have = detection), update each meta.json
                             and regenerate seeded/INDEX.md from the meta files

Nothing of /repo is executed here; the demonstrations were run once by mutconfirm.py."""
import json, os, sys, glob, shutil, subprocess, time
from concurrent.futures import ThreadPoolExecutor

ENV = dict(os.environ, GOPROXY="off", GOSUMDB="off", GOTOOLCHAIN="local")
ENV.pop("GOFLAGS", None); ENV.pop("GOWORK", None)
ROOT = "/verif/seeded"
LINT = "/verif/bin/bpmnlint"


def sh(cmd, cwd="/"):
    p = subprocess.run(cmd, cwd=cwd, env=ENV, shell=True, capture_output=True, text=True)
    return p.returncode, p.stdout + p.stderr


def prop_rules():
    pr = {}
    for line in subprocess.run(LINT + " -inventory props 2>/dev/null", shell=True, capture_output=True, text=True, env=ENV).stdout.splitlines():
        if line.startswith("C"):
            pid, rl = line.split(" ", 1)
            # "R14[Do,ConsumeEvent]" -> ("R14", ["Do", "ConsumeEvent"]); the rule list itself is comma separated
            import re as _re
            pr[pid] = [(mm.group(1), [a for a in (mm.group(2) or "").split(",") if a]) for mm in _re.finditer(r"(R[A-Za-z0-9]+)(?:\[([^\]]*)\])?", rl)]
    assert len(pr) == 20, pr
    return pr


def all_rules():
    return subprocess.run(LINT + " -inventory rules 2>/dev/null | awk '{print $1}' | tr '\\n' ','", shell=True, capture_output=True, text=True, env=ENV).stdout.strip(",")


def failing(tree, rules):
    o = subprocess.run([LINT, "-json", "-no-known", "-repo", tree, "-rules", rules], capture_output=True, text=True, env=ENV).stdout
    d = {}
    for line in o.splitlines():
        if line.startswith("{"):
            ob = json.loads(line)
            d[ob["key"]] = ob
    return d


def do_import(wave, letters):
    n = 0
    for cj in sorted(glob.glob("/tmp/mut/C*/*/confirm.json")):
        d = os.path.dirname(cj)
        letter = os.path.basename(d)
        if letter not in letters:
            continue
        prop = os.path.basename(os.path.dirname(d))
        name = prop + letter
        r = json.load(open(cj))
        try:
            m = json.load(open(os.path.join(d, "meta.json")))
        except Exception:
            m = {}
        ok = r.get("applies") and r.get("builds") and r.get("demo_fails_with_patch") and r.get("demo_passes_without_patch") and r.get("suite_passes_with_patch")
        if not ok:
            print(name, "NOT KEPT:", {k: r.get(k) for k in ("applies", "builds", "demo_fails_with_patch", "demo_passes_without_patch", "suite_passes_with_patch")})
            continue
        out = os.path.join(ROOT, name)
        os.makedirs(out, exist_ok=True)
        shutil.copy(os.path.join(d, "patch.diff"), os.path.join(out, "patch.diff"))
        shutil.copy(os.path.join(d, "demo_test.go"), os.path.join(out, "demo_test.go.txt"))
        keys = r.get("new_failing_keys", [])
        meta = {
            "id": name, "property": prop, "summary": m.get("summary", ""), "needs": m.get("needs", ""),
            "base": r.get("base", "current /repo HEAD at confirmation time"),
            "what_i_ran": [
                "git worktree add (scratch, outside /repo and /verif); git apply patch.diff",
                "go build ./... (root and schema)",
                r.get("demo_cmd", "") + "  -> must FAIL with the patch",
                "go test -vet=off -count=1 -timeout 60s ./... (root) and schema suite, up to 4 tries (known flaky tests tolerated)",
                "bpmnlint -json -no-known -rules <all> on the tree with and without the patch; new failing obligations = detection",
                "git checkout -- . ; the same demo -> must PASS; worktree removed",
            ],
            "demo_fails_with_patch": r.get("demo_fails_with_patch"), "demo_passes_without_patch": r.get("demo_passes_without_patch"),
            "suite_passes_with_patch": r.get("suite_passes_with_patch"), "suite_tries": r.get("suite_tries"),
            "wave": wave,
            "first_sight": {"reported_by": sorted(r.get("detected_by", {}).keys()), "obligations": keys, "note": "checks run on the confirmed fault before any rule was changed"},
            "demo_output_with_patch": (r.get("demo_with_patch_tail") or "")[-400:],
        }
        json.dump(meta, open(os.path.join(out, "meta.json"), "w"), indent=1)
        n += 1
        print(name, "kept; first sight:", sorted(r.get("detected_by", {}).keys()) or "missed")
    print(n, "imported")


def recheck():
    pr = prop_rules()
    rules = all_rules()
    base = failing("/repo", rules)
    dirs = sorted(d for d in glob.glob(ROOT + "/C*") if os.path.exists(d + "/patch.diff"))

    def one(d):
        name = os.path.basename(d)
        wt = "/tmp/wt/rs_" + name
        sh(f"git -C /repo worktree remove --force {wt}")
        sh(f"git -C /repo worktree add --detach {wt} HEAD")
        rc, out = sh(f"git apply {d}/patch.diff", wt)
        if rc != 0:
            sh(f"git -C /repo worktree remove --force {wt}")
            return name, None
        after = failing(wt, rules)
        sh(f"git -C /repo worktree remove --force {wt}")
        return name, {k: v for k, v in after.items() if k not in base}

    with ThreadPoolExecutor(max_workers=6) as ex:
        results = list(ex.map(one, dirs))
    for name, new in results:
        mp = os.path.join(ROOT, name, "meta.json")
        m = json.load(open(mp))
        if new is None:
            m["applies_to_head"] = False
            print(name, "does not apply to HEAD any more")
        else:
            m["applies_to_head"] = True
            rl = sorted({v["rule"] for v in new.values()})
            m["rules"] = rl
            m["new_failing_obligations"] = sorted(new)
            def claims(rules_of_prop):
                # a selector restricts a rule to obligations anchored in functions whose name contains one of its words
                for rid, args in rules_of_prop:
                    for v in new.values():
                        if v["rule"] == rid and (not args or any(a in (v.get("func") or "") for a in args)):
                            return True
                return False
            m["detected_by"] = sorted(pid for pid, r in pr.items() if claims(r))
            m["detected_by_own_property"] = m["property"] in m["detected_by"]
        json.dump(m, open(mp, "w"), indent=1)
    index()


def index():
    rows = []
    for mp in sorted(glob.glob(ROOT + "/C*/meta.json")):
        m = json.load(open(mp))
        fs = m.get("first_sight")
        wave = m.get("wave", 1)
        tag = ""
        if fs is not None:
            tag = " (wave %d; at first sight: %s)" % (wave, ",".join(fs.get("reported_by") or []) or "missed")
        det = m.get("detected_by") or []
        verdict = ("detected" if det else "MISSED") + tag
        if m.get("applies_to_head") is False:
            verdict = "stale (no longer applies to HEAD)" + tag
        rows.append((m["id"], m["property"], verdict, ",".join(det), ",".join(m.get("rules") or []), m.get("summary", ""), wave, fs))
    with open(os.path.join(ROOT, "INDEX.md"), "w") as f:
        f.write("# Seeded faults (confirmed in a scratch worktree) and the checks that report them\n\n")
        f.write("Generated by tools/reseed.py from seeded/*/meta.json (confirmation by tools/mutconfirm.py; verdicts re-evaluated with the current checker). Demonstrations are stored as demo_test.go.txt so that they are never compiled by accident. `first sight` = verdict of the checks as they stood when the fault was delivered, before any rule was changed.\n\n")
        f.write("| fault | target property | verdict | reported by properties | rules | what was changed |\n|---|---|---|---|---|---|\n")
        for name, prop, verdict, props, rules, summ, wave, fs in rows:
            f.write("| %s | %s | %s | %s | %s | %s |\n" % (name, prop, verdict, props, rules, str(summ).replace("|", "/").replace("\n", " ")[:220]))
        f.write("\n%d faults kept, %d reported by at least one check now, %d not reported.\n" % (len(rows), len([r for r in rows if r[2].startswith("detected")]), len([r for r in rows if r[2].startswith("MISSED")])))
        for w in sorted({r[6] for r in rows}):
            ws = [r for r in rows if r[6] == w]
            if w == 1:
                f.write("Wave 1 (used while the rules were written): %d faults, %d reported now.\n" % (len(ws), len([r for r in ws if r[2].startswith("detected")])))
            else:
                first = [r for r in ws if r[7] and r[7].get("reported_by")]
                f.write("Wave %d (held out): %d faults, %d reported at first sight, %d reported now.\n" % (w, len(ws), len(first), len([r for r in ws if r[2].startswith("detected")])))
    print(len(rows), "faults indexed")


if __name__ == "__main__":
    if len(sys.argv) > 1 and sys.argv[1] == "import":
        do_import(int(sys.argv[2]), sys.argv[3])
        index()
    elif len(sys.argv) > 1 and sys.argv[1] == "index":
        index()
    else:
        recheck()
