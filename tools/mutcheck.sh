#!/bin/sh
# mutcheck.sh <patch.diff> [props...] : apply a seeded fault to /repo, run the
# named property checks (default: every claimed property), print which of them
# report a VIOLATION, and undo the change.
P=$1; shift
cd /verif
[ -n "$(git -C /repo status --porcelain)" ] && { echo "/repo not clean"; exit 2; }
git -C /repo apply "$P" || { echo "patch does not apply"; exit 2; }
PROPS="$*"
[ -z "$PROPS" ] && PROPS=$(python3 -c "import json;print(' '.join(c['property_id'] for c in json.load(open('/verif/MANIFEST.json'))['checks']))")
TMPE=$(mktemp -d)
for p in $PROPS; do
  out=$(bin/bpmnlint -property $p -tier quick -evidence $TMPE 2>$TMPE/err.$p); rc=$?
  v=$(echo "$out" | grep -c '^VIOLATION')
  if [ $rc -ne 0 ]; then echo "  $p: exit=$rc violations=$v"; grep -A2 "^$p:" $TMPE/err.$p | head -12 | sed 's/^/      /'; fi
done
rm -rf $TMPE
git -C /repo checkout -- . 
