#!/bin/bash
# rulecheck.sh <patch> <rules>: apply the patch to a scratch worktree of /repo (outside /repo and /verif),
# run the given rules on it, print failing obligations, remove the worktree.
set -u
patch=$1; rules=$2
wt=/tmp/wt/rc_$$
git -C /repo worktree add --detach $wt HEAD >/dev/null 2>&1
( cd $wt && (git apply $patch 2>/dev/null || (git apply --3way $patch >/dev/null 2>&1 && git reset -q)) ) || echo "DOES NOT APPLY"
env -u GOFLAGS -u GOWORK GOPROXY=off GOSUMDB=off GOTOOLCHAIN=local /verif/bin/bpmnlint -rules $rules -no-known -repo $wt 2>&1 | grep -E "^(FAIL|MISSING)|obligations" -A1 | cut -c1-${COLS:-300}
git -C /repo worktree remove --force $wt
