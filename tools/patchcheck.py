#!/usr/bin/env python3
"""patchcheck.py <patch.diff>... : for each patch, apply it to a scratch worktree of /repo, run every
claimed quick check against that tree in parallel and print which checks report violations."""
import json, os, re, subprocess, sys, shutil, time
ENV = dict(os.environ, GOPROXY="off", GOSUMDB="off", GOTOOLCHAIN="local")
ENV.pop("GOFLAGS", None); ENV.pop("GOWORK", None)
props = [c["property_id"] for c in json.load(open("/verif/MANIFEST.json"))["checks"]]
for patch in sys.argv[1:]:
    name = re.sub(r"[^A-Za-z0-9]+", "_", patch)[-40:]
    wt = "/tmp/wt/pc_" + name
    subprocess.run(f"git -C /repo worktree remove --force {wt}", shell=True, capture_output=True)
    subprocess.run(f"git -C /repo worktree add --detach {wt} HEAD", shell=True, capture_output=True)
    r = subprocess.run(f"git apply {patch} || (git apply --3way {patch} && git reset -q)", shell=True, cwd=wt, capture_output=True, text=True)
    if r.returncode != 0:
        print(patch, "DOES NOT APPLY", r.stderr[:200]); subprocess.run(f"git -C /repo worktree remove --force {wt}", shell=True, capture_output=True); continue
    ev = "/tmp/pc_ev_" + name; os.makedirs(ev, exist_ok=True)
    procs = {}
    for p in props:
        procs[p] = subprocess.Popen(["/verif/bin/bpmnlint", "-property", p, "-repo", wt, "-verif", "/verif", "-evidence", ev], stdout=subprocess.PIPE, stderr=subprocess.PIPE, text=True, env=ENV)
        while len([q for q in procs.values() if q.poll() is None]) >= 8:
            time.sleep(0.3)
    bad = {}
    for p, pr in procs.items():
        o, e = pr.communicate()
        if pr.returncode != 0:
            v = [l for l in e.splitlines() if l.startswith(p + ":")]
            bad[p] = v
    shutil.rmtree(ev, ignore_errors=True)
    subprocess.run(f"git -C /repo worktree remove --force {wt}", shell=True, capture_output=True)
    if not bad:
        print(patch, "-> quiet")
    else:
        print(patch, "-> ALARMS in", sorted(bad))
        seen = set()
        for p, v in bad.items():
            for l in v:
                l2 = l.split(": ", 1)[1][:230]
                if l2 not in seen:
                    seen.add(l2); print("     ", l2)
