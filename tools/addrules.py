#!/usr/bin/env python3
"""addrules.py Cnn R1,R2 'text' [...]: append rule ids and a sentence to a property's entry in checker/props.go."""
import re, sys
s = open('/verif/checker/props.go').read()
args = sys.argv[1:]
for i in range(0, len(args), 3):
    pid, rules, text = args[i], args[i+1].split(','), args[i+2]
    m = re.search(r'(prop\("%s",[^\n]*\n\t\t\[\]string\{)([^}]*)(\}, nil,\n\t\t")((?:[^"\\]|\\.)*)(")' % pid, s)
    assert m, pid
    have = m.group(2)
    extra = "".join(', "%s"' % r for r in rules if '"%s"' % r not in have)
    s = s[:m.start()] + m.group(1) + have + extra + m.group(3) + m.group(4) + " " + text.replace('"', '\\"') + m.group(5) + s[m.end():]
open('/verif/checker/props.go', 'w').write(s)
