import json,subprocess,sys,os
ENV=dict(os.environ,GOPROXY="off",GOSUMDB="off",GOTOOLCHAIN="local"); ENV.pop("GOFLAGS",None); ENV.pop("GOWORK",None)
LINT=sys.argv[1]
rules=subprocess.run(LINT+" -inventory rules 2>/dev/null | awk '{print $1}' | tr '\\n' ','",shell=True,capture_output=True,text=True,env=ENV).stdout.strip(",")
def failing(tree):
    o=subprocess.run([LINT,"-json","-no-known","-repo",tree,"-rules",rules],capture_output=True,text=True,env=ENV).stdout
    return {json.loads(l)["key"] for l in o.splitlines() if l.startswith("{")}
base=failing("/repo")
for m in sys.argv[2:]:
    wt="/tmp/wt/fs8"
    subprocess.run(f"git -C /repo worktree remove --force {wt}",shell=True,capture_output=True)
    subprocess.run(f"git -C /repo worktree add --detach {wt} HEAD",shell=True,capture_output=True)
    r=subprocess.run(f"git apply /tmp/mut/{m}/patch.diff",shell=True,cwd=wt,capture_output=True,text=True)
    new=sorted(failing(wt)-base)
    print(m, "applies" if r.returncode==0 else "NOAPPLY", new)
    subprocess.run(f"git -C /repo worktree remove --force {wt}",shell=True,capture_output=True)
