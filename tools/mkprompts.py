#!/usr/bin/env python3
"""mkprompts.py <wave-letter-1> <wave-letter-2> [props...]: write one prompt per property for a fresh
sub-agent that is asked for held-out seeded faults. The agent is given the property text only (plus one-line
summaries of what earlier agents already delivered for that property, so that it produces something
different) and its own scratch worktree; nothing of /verif's checks."""
import json, os, sys, glob, subprocess
l1, l2 = sys.argv[1], sys.argv[2]
only = sys.argv[3:]
props = [json.loads(l) for l in open('/verif/properties.jsonl')]
os.makedirs('/tmp/agentprompts', exist_ok=True)
for p in props:
    pid = p['id']
    if only and pid not in only:
        continue
    prev = []
    for mj in sorted(glob.glob('/verif/seeded/%s?/meta.json' % pid)):
        m = json.load(open(mj))
        prev.append('- ' + m.get('summary', '')[:420].replace('\n', ' '))
    wt = '/tmp/wt/w_%s' % pid
    out1, out2 = '/tmp/mut/%s/%s' % (pid, l1), '/tmp/mut/%s/%s' % (pid, l2)
    txt = f"""You are helping to evaluate a verification effort for the Go library olive-io/bpmn (a lightweight BPMN 2.0 workflow engine: goroutine-per-node token flow, gateways, events, timers, sub-processes, XML schema model). Your job is to play the role of a developer who introduces a subtle regression.

Your private scratch copy of the repository is the git worktree {wt} (already created, clean, at the current HEAD). Work ONLY there (and in the output directories named below). Do not read or write /repo or /verif. Do not look anywhere outside your worktree for hints.

Environment (no network): in EVERY shell call first run
  export GOPROXY=off GOSUMDB=off GOTOOLCHAIN=local; unset GOFLAGS GOWORK
The repository has a go.work (modules `.` and `./schema`); build with `go build ./... && (cd schema && go build ./...)`; run the suite with `go test -vet=off -count=1 -timeout 120s ./...` in the root and in `schema/`. One existing test is known to be timing-sensitive on a loaded machine (anything that fails with AND without your change is not your concern). Other agents are using the machine at the same time, so avoid demonstrations that depend on tight wall-clock margins (use generous timeouts, several seconds).

THE PROPERTY (this is all you are told about what is being verified):

id: {pid}
title: {p['title']}
statement: {p['statement']}
quantifier: {p['quantifier']['text']}
why the existing tests cannot settle it: {p['why_tests_cant']}
where it lives (anchors): {json.dumps(p['anchors'], indent=1)}

YOUR TASK: produce TWO independent changes ("faults") to the library source (non-test .go files of the worktree), each of which
  1. breaks the property above (a user relying on the statement would observe wrong behaviour),
  2. still compiles, and the ENTIRE existing test suite (root module and schema module) still passes with it,
  3. looks like something a real developer could plausibly commit (an optimisation, a refactoring that loses a detail, a 'simplification', a wrong fix, a moved statement, a changed capacity/ordering/guard, a dropped case ...), and is small (a few lines to a few dozen lines),
  4. needs something SPECIFIC to manifest — a particular interleaving, a cancellation/fault at a particular point, a multi-step sequence of operations, an unusual but legal input or process shape, or two cooperating sites that each look fine alone. NOT something ordinary use would expose at once.
The two faults must be of clearly different nature and should sit in different functions (preferably different files among the anchors). Prefer faults in the hand-written engine code over generated schema code.

For each fault also write a DEMONSTRATION: one Go test file (package `bpmn_test` or the internal package of the directory it belongs to; it will be copied into the package directory of the worktree as zz_seeded_demo_test.go) with one test function `Test{pid}{l1}...`/`Test{pid}{l2}...` that FAILS (or reliably times out within 60 s through its own timeout, not by hanging forever) with your change and PASSES without it. If the fault is schedule-dependent, the demo may loop (e.g. many iterations / many instances) to make the failure reliable, or force the interleaving by the order in which it answers tasks / delivers events / cancels. The demo may use testdata/*.bpmn files that already exist in the worktree, or build the process in code or from an inline XML string. The demo must be deterministic enough to fail at least 9 times out of 10 with the fault and to pass 10 out of 10 without it — check this by running it several times.

Earlier developers already delivered these faults for this property — produce something of a DIFFERENT nature (different function, different mechanism), do not repeat them:
{chr(10).join(prev) if prev else '- (none)'}

DELIVERABLES — for the first fault in {out1}/ and for the second in {out2}/ (create the directories):
  patch.diff     — `git diff` of your worktree for this fault only (source change only, NOT the demo). Make sure `git apply` of it works on a clean checkout of HEAD.
  demo_test.go   — the demonstration test file.
  meta.json      — {{"summary": "<file, function, what was changed and why it looks innocent>", "needs": "<what exactly is needed for it to manifest>", "demo_cmd": "go test -vet=off -count=1 -run '<TestName>' <./pkgdir>", "suite": "<what you ran and the result>"}}
Work on one fault at a time: make the change, verify (build, demo fails, full suite passes), save patch.diff, then `git checkout -- .` (and remove your demo file) and verify the demo passes on the clean tree, then go on to the second fault. Leave the worktree clean (`git status` empty) when you finish.

Your final answer: for each fault three lines (what/where, what it needs to manifest, verification results). If you could not produce a second fault that meets all conditions, deliver one and say so — do not deliver a fault that you have not verified.
"""
    open('/tmp/agentprompts/%s.txt' % pid, 'w').write(txt)
    subprocess.run(f"git -C /repo worktree remove --force {wt}", shell=True, capture_output=True)
    subprocess.run(f"git -C /repo worktree add --detach {wt} HEAD", shell=True, capture_output=True)
    print(pid, len(prev), 'previous')
