#!/usr/bin/env python3
"""mutconfirm.py <mutant-dir> [<name>]: confirm a seeded fault in a scratch worktree of /repo
(outside /repo and /verif) and run every claimed check against it.

Steps: apply patch -> build -> demo must FAIL -> existing suite must pass (flaky
tests tolerated) -> revert -> demo must PASS -> run bpmnlint for all properties on
the patched tree. Writes <mutant-dir>/confirm.json.
"""
import json, os, re, subprocess, sys, shutil, time

ENV = dict(os.environ, GOPROXY="off", GOSUMDB="off", GOTOOLCHAIN="local")
ENV.pop("GOFLAGS", None); ENV.pop("GOWORK", None)
LINT = os.environ.get("BPMNLINT", "/verif/bin/bpmnlint")
FLAKY = ["TestNewProcessSetStartsDistinctExecutableProcesses"]
PKGDIR = {"bpmn": ".", "bpmn_test": ".", "schema": "schema", "schema_test": "schema", "tracing": "pkg/tracing",
          "tracing_test": "pkg/tracing", "timer": "pkg/timer", "timer_test": "pkg/timer", "id": "pkg/id", "id_test": "pkg/id",
          "data": "pkg/data", "data_test": "pkg/data", "clock": "pkg/clock", "clock_test": "pkg/clock", "logic": "pkg/logic",
          "logic_test": "pkg/logic", "event": "pkg/event", "event_test": "pkg/event", "model": "model", "model_test": "model",
          "expr": "pkg/expression/expr", "xpath": "pkg/expression/xpath", "main": "."}


def sh(cmd, cwd, timeout=600):
    try:
        p = subprocess.run(cmd, cwd=cwd, env=ENV, shell=True, capture_output=True, text=True, timeout=timeout)
        return p.returncode, (p.stdout + p.stderr)
    except subprocess.TimeoutExpired as e:
        return 124, "TIMEOUT " + str(e)


def main():
    mdir = sys.argv[1].rstrip("/")
    name = sys.argv[2] if len(sys.argv) > 2 else os.path.basename(os.path.dirname(mdir)) + os.path.basename(mdir)
    wt = "/tmp/wt/confirm_" + name
    res = {"name": name, "dir": mdir, "at": time.strftime("%F %T")}
    sh(f"git -C /repo worktree remove --force {wt}", "/")
    rc, out = sh(f"git -C /repo worktree add --detach {wt} HEAD", "/")
    if rc != 0:
        res["error"] = "worktree: " + out
        return finish(res, mdir, wt)
    patch = os.path.join(mdir, "patch.diff")
    if os.path.exists(os.path.join(mdir, "patch_head.diff")):
        # the agent's patch conflicts with a later fix: commit; this is my port of the same edit to the current tree
        patch = os.path.join(mdir, "patch_head.diff")
        res["ported"] = "patch.diff was written against an older tree; patch_head.diff is the same edit ported to the current /repo HEAD"
    rc, out = sh(f"git apply {patch}", wt)
    if rc != 0:
        rc, out = sh(f"git apply --3way {patch}", wt)
        if rc != 0:
            # the fault was written against the pinned commit; a later fix: commit touches the same lines.
            # Confirm it on the pinned commit instead (the checker is then run on that tree too).
            sh("git checkout -- . ; git reset -q --hard; git clean -fdq; git checkout -q --detach 0a08c93", wt)
            rc, out = sh(f"git apply {patch}", wt)
            if rc != 0:
                res["applies"] = False
                res["apply_output"] = out[-500:]
                return finish(res, mdir, wt)
            res["base"] = "pinned commit 0a08c93 (conflicts with a later fix: commit)"
        else:
            sh("git reset -q", wt)
    res["applies"] = True
    sh("git diff > /tmp/confirm_%s.diff" % name, wt)
    rc, out = sh("go build ./... && cd schema && go build ./...", wt)
    res["builds"] = rc == 0
    if rc != 0:
        res["build_output"] = out[-800:]
        return finish(res, mdir, wt)
    # demo
    demo_src = os.path.join(mdir, "demo_test.go")
    meta = {}
    try:
        meta = json.load(open(os.path.join(mdir, "meta.json")))
    except Exception:
        pass
    src = open(demo_src).read()
    m = re.search(r"^package\s+(\w+)", src, re.M)
    pkg = m.group(1) if m else "bpmn_test"
    tdir = PKGDIR.get(pkg, ".")
    cmdtxt = str(meta.get("demo_cmd", "")) + "\n" + src[:1500]
    m = re.search(r"-run[ =]+'?\"?([^\s'\"]+)", cmdtxt)
    runpat = m.group(1) if m else "."
    race = "-race " if re.search(r"go test[^\n]*-race", str(meta.get("demo_cmd", ""))) else ""
    demo_dst = os.path.join(wt, tdir, "zz_seeded_demo_test.go")
    if pkg == "main":
        res["demo_kind"] = "program (not run automatically)"
    cwd = os.path.join(wt, "schema") if tdir == "schema" else wt
    target = "." if tdir in (".", "schema") else "./" + tdir
    democmd = f"go test -vet=off -count=1 {race}-timeout 400s -run '{runpat}' {target}"
    res["demo_cmd"] = f"(cd {cwd} && {democmd})"
    shutil.copy(demo_src, demo_dst)
    rc, out = sh(democmd, cwd, timeout=460)
    res["demo_fails_with_patch"] = rc != 0
    res["demo_with_patch_tail"] = out[-700:]
    os.remove(demo_dst)
    # suite with the patch
    suite_ok, tries = False, []
    for attempt in range(4):
        rc1, o1 = sh("go test -vet=off -count=1 -timeout 60s ./... 2>&1 | grep -v 'no test files'", wt, timeout=500)
        rc2, o2 = sh("go test -vet=off -count=1 -timeout 100s ./... 2>&1", os.path.join(wt, "schema"), timeout=300)
        fails = re.findall(r"^--- FAIL: (\S+)", o1 + o2, re.M)
        hung = "test timed out" in (o1 + o2)
        bad = [f for f in fails if f.split("/")[0] not in FLAKY]
        tries.append({"fails": fails, "timed_out": hung})
        if not bad and not hung and "FAIL" not in o2:
            suite_ok = True
            break
        if not bad and not hung and all(f.split("/")[0] in FLAKY for f in fails) and "panic" not in o1:
            suite_ok = True
            break
    res["suite_passes_with_patch"] = suite_ok
    res["suite_tries"] = tries
    # checker on the patched tree: new failing obligations relative to the same tree without the patch
    def failing(tree):
        rules = subprocess.run(LINT + " -inventory rules 2>/dev/null | awk '{print $1}' | tr '\\n' ','", shell=True, capture_output=True, text=True, env=ENV).stdout.strip(",")
        o = subprocess.run([LINT, "-json", "-no-known", "-repo", tree, "-rules", rules], capture_output=True, text=True, env=ENV).stdout
        d = {}
        for line in o.splitlines():
            if line.startswith("{"):
                ob = json.loads(line)
                d[ob["key"]] = ob
        return d
    after = failing(wt)
    sh("git diff > /tmp/confirm_%s.diff && git checkout -- . && git clean -fdq" % name, wt)
    before = failing(wt)
    sh("git apply /tmp/confirm_%s.diff" % name, wt)
    newkeys = {k: v for k, v in after.items() if k not in before}
    prules = {}
    for line in subprocess.run(LINT + " -inventory props 2>/dev/null", shell=True, capture_output=True, text=True, env=ENV).stdout.splitlines():
        if line.startswith("C"):
            pid, rl = line.split(" ", 1)
            prules[pid] = [r.split("[")[0] for r in rl.split(",")]
    det = {}
    for k, ob in newkeys.items():
        for pid, rl in prules.items():
            if ob["rule"] in rl:
                det.setdefault(pid, {"rc": 1, "violations": []})["violations"].append(ob["rule"] + ": " + ob["what"][:150] + " [" + ob["pos"] + "]")
    res["detected_by"] = det
    res["new_failing_keys"] = sorted(newkeys)
    # revert and run demo on the clean tree
    sh("git checkout -- . && git clean -fdq", wt)
    shutil.copy(demo_src, demo_dst)
    rc, out = sh(democmd, cwd, timeout=460)
    res["demo_passes_without_patch"] = rc == 0
    res["demo_without_patch_tail"] = out[-400:]
    os.remove(demo_dst)
    return finish(res, mdir, wt)


def finish(res, mdir, wt):
    sh(f"git -C /repo worktree remove --force {wt}", "/")
    json.dump(res, open(os.path.join(mdir, "confirm.json"), "w"), indent=1)
    prop = os.path.basename(os.path.dirname(mdir))
    own = prop in res.get("detected_by", {})
    print(res["name"], "applies=%s builds=%s demo_fails=%s suite_ok=%s demo_clean_pass=%s detected_by=%s%s" % (
        res.get("applies"), res.get("builds"), res.get("demo_fails_with_patch"), res.get("suite_passes_with_patch"),
        res.get("demo_passes_without_patch"), sorted(res.get("detected_by", {}).keys()), "" if own else "   (NOT by its own property)"))


if __name__ == "__main__":
    main()
