#!/bin/sh
# run.sh <Cnn> <quick|thorough> : evaluates the static rules that decide one
# property against /repo's current working tree (nothing of /repo is executed).
set -u
V=$(cd "$(dirname "$0")" && pwd)
cd "$V" || exit 2
unset GOWORK
export GOPROXY=off GOSUMDB=off GOTOOLCHAIN=local
need_build=0
[ -x bin/bpmnlint ] || need_build=1
if [ $need_build -eq 0 ] && [ -n "$(find checker -name '*.go' -newer bin/bpmnlint 2>/dev/null | head -1)" ]; then need_build=1; fi
if [ $need_build -eq 1 ]; then
  ./setup.sh >&2 || { echo "UNDECIDED property=$1 reason=checker does not build"; exit 2; }
fi
exec bin/bpmnlint -property "$1" -tier "${2:-quick}" -repo "${REPO:-/repo}" -verif "$V"
