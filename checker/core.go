package main

// Obligations, rule registry, known findings, evidence and verdict protocol.

import (
	"encoding/json"
	"fmt"
	"go/ast"
	"os"
	"path/filepath"
	"sort"
	"strings"
	"time"
)

// Obligation is one instance of a rule at one construct.
type Obligation struct {
	Rule       string `json:"rule"`
	Key        string `json:"key"` // rule + function + construct descriptor; never a line number
	Pos        string `json:"pos"`
	Func       string `json:"func"`
	What       string `json:"what"`
	OK         bool   `json:"ok"`
	Witness    string `json:"witness,omitempty"`
	NonTrivial bool   `json:"nontrivial"`
	Vanished   bool   `json:"vanished,omitempty"`
}

// Rule is one static rule.
type Rule struct {
	ID    string
	Title string
	// Min is the number of instances confirmed by hand on the reference tree;
	// fewer instances than this is reported as a vanished obligation.
	Min int
	Run func(c *Ctx)
}

var rules = map[string]*Rule{}

func register(r *Rule) { rules[r.ID] = r }

// Ctx is handed to a rule.
type Ctx struct {
	P    *Prog
	Args []string // optional selector given as Rnn[a,b] in a property's rule list
	rule *Rule
	obs  *[]Obligation
	keys map[string]int
}

func (c *Ctx) add(o Obligation) {
	o.Rule = c.rule.ID
	base := o.Key
	n := c.keys[base]
	c.keys[base] = n + 1
	if n > 0 {
		o.Key = fmt.Sprintf("%s#%d", base, n+1)
	}
	*c.obs = append(*c.obs, o)
}

// Ok records a discharged obligation.
func (c *Ctx) Ok(fn *FuncInfo, at ast.Node, desc, what, witness string, nontrivial bool) {
	c.add(Obligation{Key: c.key(fn, desc), Pos: c.pos(at), Func: fname(fn), What: what, OK: true, Witness: witness, NonTrivial: nontrivial})
}

// Bad records a violated obligation.
func (c *Ctx) Bad(fn *FuncInfo, at ast.Node, desc, what, witness string) {
	c.add(Obligation{Key: c.key(fn, desc), Pos: c.pos(at), Func: fname(fn), What: what, OK: false, Witness: witness, NonTrivial: true})
}

// Check records OK or Bad depending on ok.
func (c *Ctx) Check(ok bool, fn *FuncInfo, at ast.Node, desc, what, witness string) {
	if ok {
		c.Ok(fn, at, desc, what, witness, true)
	} else {
		c.Bad(fn, at, desc, what, witness)
	}
}

// Missing records an anchor that could not be resolved.
func (c *Ctx) Missing(desc, what string) {
	c.add(Obligation{Key: c.rule.ID + ":" + desc, Pos: "-", Func: "-", What: what, OK: false, Witness: "anchor not found in the loaded program", NonTrivial: true, Vanished: true})
}

func fname(fn *FuncInfo) string {
	if fn == nil {
		return "-"
	}
	return fn.QName()
}

func (c *Ctx) key(fn *FuncInfo, desc string) string {
	// closures are keyed by their declared root function so that adding or
	// reordering literals does not change identities
	name := "-"
	if fn != nil {
		name = fn.Root().QName()
		if fn.Parent != nil {
			name += "$lit"
		}
	}
	return c.rule.ID + ":" + name + ":" + desc
}

func (c *Ctx) pos(n ast.Node) string {
	if n == nil {
		return "-"
	}
	return c.P.Pos(n.Pos())
}

// ---- known findings ----

type KnownFinding struct {
	Properties []string `json:"properties"`
	Rule       string   `json:"rule"`
	Key        string   `json:"key"`
	WhatFails  string   `json:"what_fails"`
	Status     string   `json:"status"` // "known" or "fixed"
	Commit     string   `json:"commit,omitempty"`
}

func loadKnown(path string) ([]KnownFinding, error) {
	b, err := os.ReadFile(path)
	if err != nil {
		if os.IsNotExist(err) {
			return nil, nil
		}
		return nil, err
	}
	var doc struct {
		Findings []KnownFinding `json:"findings"`
	}
	if err := json.Unmarshal(b, &doc); err != nil {
		return nil, err
	}
	return doc.Findings, nil
}

// ---- property run ----

type PropSpec struct {
	ID          string
	Title       string
	Quick       []string // rule ids
	Thorough    []string // additional rule ids in the thorough tier
	Explanation string   // what is decided
	NotDecided  string   // what is not
}

type RunResult struct {
	Obs        []Obligation
	Violations []Obligation
	Known      []struct {
		O Obligation
		K KnownFinding
	}
	RuleCounts map[string]int
}

func runRules(p *Prog, ids []string) *RunResult {
	theProg = p
	res := &RunResult{RuleCounts: map[string]int{}}
	for _, id := range ids {
		var args []string
		if i := strings.IndexByte(id, '['); i > 0 && strings.HasSuffix(id, "]") {
			args = strings.Split(id[i+1:len(id)-1], ",")
			id = id[:i]
		}
		r := rules[id]
		if r == nil {
			res.Obs = append(res.Obs, Obligation{Rule: id, Key: id + ":unimplemented", What: "rule not implemented", OK: false, Vanished: true})
			continue
		}
		var obs []Obligation
		c := &Ctx{P: p, Args: args, rule: r, obs: &obs, keys: map[string]int{}}
		func() {
			defer func() {
				if e := recover(); e != nil {
					obs = append(obs, Obligation{Rule: id, Key: id + ":panic", Pos: "-", What: "rule evaluation panicked (treated as undecided => failure)", OK: false, Witness: fmt.Sprint(e), Vanished: true})
				}
			}()
			r.Run(c)
		}()
		// a selector Rnn[a,b] on a rule that does not interpret selectors itself restricts the rule to the
		// obligations anchored in functions whose name contains one of the selector words
		if len(args) > 0 && id != "R0" && id != "R14" {
			var kept []Obligation
			for _, o := range obs {
				keep := o.Vanished
				for _, a := range args {
					if strings.Contains(o.Func, a) {
						keep = true
					}
				}
				if keep {
					kept = append(kept, o)
				}
			}
			obs = kept
		}
		n := 0
		for _, o := range obs {
			if !o.Vanished {
				n++
			}
		}
		res.RuleCounts[id] = n
		if n < r.Min && len(args) == 0 {
			obs = append(obs, Obligation{Rule: id, Key: id + ":instances", Pos: "-", Func: "-",
				What:    fmt.Sprintf("rule %s (%s) must have at least %d instances (confirmed on the reference tree)", id, r.Title, r.Min),
				OK:      false,
				Witness: fmt.Sprintf("only %d instances found: a construct this rule is anchored in has vanished", n), NonTrivial: true, Vanished: true})
		}
		res.Obs = append(res.Obs, obs...)
	}
	return res
}

type evidence struct {
	PropertyID  string         `json:"property_id"`
	Tier        string         `json:"tier"`
	Seed        int            `json:"seed"`
	Level       string         `json:"level"`
	Coverage    map[string]any `json:"coverage"`
	Assumptions []string       `json:"assumptions"`
	WallS       float64        `json:"wall_s"`
	Violations  int            `json:"violations"`
}

func classify(res *RunResult, known []KnownFinding) {
	byKey := map[string]KnownFinding{}
	for _, k := range known {
		if k.Status == "known" {
			byKey[k.Key] = k
		}
	}
	for _, o := range res.Obs {
		if o.OK {
			continue
		}
		if k, ok := byKey[o.Key]; ok && !o.Vanished {
			res.Known = append(res.Known, struct {
				O Obligation
				K KnownFinding
			}{o, k})
			continue
		}
		res.Violations = append(res.Violations, o)
	}
}

func writeJSON(path string, v any) error {
	if err := os.MkdirAll(filepath.Dir(path), 0o755); err != nil {
		return err
	}
	b, err := json.MarshalIndent(v, "", " ")
	if err != nil {
		return err
	}
	tmp := path + ".tmp"
	if err := os.WriteFile(tmp, append(b, '\n'), 0o644); err != nil {
		return err
	}
	return os.Rename(tmp, path)
}

func sampleObs(obs []Obligation, perRule int) []Obligation {
	cnt := map[string]int{}
	var out []Obligation
	// violated first
	for _, o := range obs {
		if !o.OK {
			out = append(out, o)
		}
	}
	for _, o := range obs {
		if o.OK && o.NonTrivial && cnt[o.Rule] < perRule {
			cnt[o.Rule]++
			out = append(out, o)
		}
	}
	for _, o := range obs {
		if o.OK && !o.NonTrivial && cnt[o.Rule] < perRule {
			cnt[o.Rule]++
			out = append(out, o)
		}
	}
	if len(out) > 60 {
		out = out[:60]
	}
	return out
}

func ruleTable(ids []string, res *RunResult) []map[string]any {
	var out []map[string]any
	for _, id := range ids {
		if i := strings.IndexByte(id, '['); i > 0 {
			id = id[:i]
		}
		r := rules[id]
		if r == nil {
			continue
		}
		bad := 0
		for _, o := range res.Obs {
			if o.Rule == id && !o.OK {
				bad++
			}
		}
		out = append(out, map[string]any{"rule": id, "title": r.Title, "instances": res.RuleCounts[id], "expected_min_instances": r.Min, "undischarged": bad})
	}
	return out
}

func distinctNonTrivial(obs []Obligation) int {
	s := map[string]bool{}
	for _, o := range obs {
		if o.NonTrivial {
			s[o.Key] = true
		}
	}
	return len(s)
}

// finish prints the verdict lines, writes evidence and returns the exit code.
func finish(spec *PropSpec, tier string, seed int, p *Prog, ids []string, res *RunResult, evidenceDir string, start time.Time, extra map[string]any) int {
	sort.SliceStable(res.Violations, func(i, j int) bool { return res.Violations[i].Key < res.Violations[j].Key })
	violDir := filepath.Join(evidenceDir, "violations")
	// remove stale replay files of this property
	if ents, err := os.ReadDir(violDir); err == nil {
		for _, e := range ents {
			if strings.HasPrefix(e.Name(), spec.ID+"-") {
				os.Remove(filepath.Join(violDir, e.Name()))
			}
		}
	}
	for _, k := range res.Known {
		fmt.Printf("KNOWN-FINDING: property=%s %s [%s at %s] %s\n", spec.ID, k.K.WhatFails, k.O.Key, k.O.Pos, "")
	}
	for i, v := range res.Violations {
		path := filepath.Join(violDir, fmt.Sprintf("%s-%d.json", spec.ID, i+1))
		writeJSON(path, map[string]any{"property": spec.ID, "obligation": v, "repo": p.Repo, "goos": p.GOOS})
		fmt.Fprintf(os.Stderr, "%s: %s: %s\n    at %s in %s\n    %s\n", spec.ID, v.Rule, v.What, v.Pos, v.Func, v.Witness)
		fmt.Printf("VIOLATION property=%s replay=%s\n", spec.ID, path)
	}
	discharged := 0
	for _, o := range res.Obs {
		if o.OK {
			discharged++
		}
	}
	nfuncs := len(p.Funcs)
	cov := map[string]any{
		"explanation":         spec.Explanation + " NOT DECIDED: " + spec.NotDecided,
		"obligations":         len(res.Obs),
		"discharged":          discharged,
		"evaluations":         len(res.Obs),
		"distinct_nontrivial": distinctNonTrivial(res.Obs),
		"rule":                "one obligation per (rule, construct) instance found in the loaded program; non-trivial = its verdict needed a path search, dominance, value-flow, lockset or call-graph argument rather than a presence test; distinct = distinct rule+function+construct keys",
		"samples":             sampleObs(res.Obs, 3),
		"rules":               ruleTable(ids, res),
		"packages_analysed":   len(p.Target),
		"function_bodies":     nfuncs,
		"known_findings_hit":  len(res.Known),
		"unlisted_violations": len(res.Violations),
		"exhaustive":          true,
		"checker_cmd":         "bin/bpmnlint -property " + spec.ID + " -tier " + tier,
		"trusted_base":        []string{"go/types", "golang.org/x/tools v0.29.0 go/packages", "vendored go/cfg with select modelling (checker/internal/xcfg)", "rule tables in checker/*.go"},
		"build":               map[string]string{"goos": goosName(p.GOOS), "tags": "none"},
	}
	for k, v := range extra {
		cov[k] = v
	}
	ev := evidence{PropertyID: spec.ID, Tier: tier, Seed: seed, Level: "other", Coverage: cov,
		Assumptions: []string{
			"the analysed build (default tags, GOOS as recorded) is the build that runs",
			"third-party modules (sno, expr, xsel, sonic) and the Go runtime behave as documented",
			"structural necessary conditions only: the behaviour stated by the property is not decided (see explanation)",
		},
		WallS: time.Since(start).Seconds(), Violations: len(res.Violations)}
	if err := writeJSON(filepath.Join(evidenceDir, spec.ID+".json"), ev); err != nil {
		fmt.Fprintf(os.Stderr, "cannot write evidence: %v\n", err)
		return 2
	}
	if len(res.Violations) > 0 {
		return 1
	}
	return 0
}

func goosName(s string) string {
	if s == "" {
		return "linux(host)"
	}
	return s
}
