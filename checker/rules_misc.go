package main

// Property-specific shape rules: R38 sent-slice freshness, R39
// order-preserving candidate list, R40 task answer path / error modes, R41
// boundary events, R42 event forwarding, R43 timers, R44 satisfiers, R45
// per-instance data, R46 process set.

import (
	"fmt"
	"go/ast"
	"go/token"
	"go/types"
	"strings"
)

func init() {
	register(&Rule{ID: "R38", Title: "sent-slice-freshness: a slice handed to a token inside an action is not reused and overwritten by a later decision", Min: 4, Run: ruleR38})
	register(&Rule{ID: "R39", Title: "order-preserving: the gateway's candidate flows are an order-preserving filter of its outgoing flows; pointer comparisons are not vacuous", Min: 3, Run: ruleR39})
	register(&Rule{ID: "R40", Title: "task answer path: done is closed on every path of the processor; retry steps its counter; exit returns; skip falls through", Min: 5, Run: ruleR40})
	register(&Rule{ID: "R41", Title: "boundary events: cancel only once, transformer iff cancelActivity, events forwarded only while active, listeners registered with the harness", Min: 6, Run: ruleR41})
	register(&Rule{ID: "R42", Title: "event forwarding: every consumer is visited, the list is copied under the lock and forwarded outside it, catch events match only while activated", Min: 4, Run: ruleR42})
	register(&Rule{ID: "R43", Title: "timers: callback only after the clock channel fired, one-shot fires once, cycle loop tests and decrements its counter, mock clock sorts and removes", Min: 6, Run: ruleR43})
	register(&Rule{ID: "R44", Title: "satisfiers: state changes only for matching events; Satisfy is called from one goroutine or under a lock", Min: 4, Run: ruleR44})
	register(&Rule{ID: "R45", Title: "per-instance data: no unguarded mutable package-level state in the value/data layers; a fresh locator per instance", Min: 5, Run: ruleR45})
	register(&Rule{ID: "R46", Title: "process set: one cease-process-set send followed by return; one instantiation per throw message", Min: 3, Run: ruleR46})
}

// enclosingIfWhere walks up from n and returns the innermost if-statement for
// which n lies in the given branch ("then"/"else"/"any") and cond satisfies pred.
func enclosingIfWhere(p *Prog, n ast.Node, stop ast.Node, pred func(cond ast.Expr, inThen bool) bool) *ast.IfStmt {
	var child ast.Node = n
	for cur := p.Parent(n); cur != nil; child, cur = cur, p.Parent(cur) {
		// guard clauses of the enclosing statement lists: `if !C { leave }` earlier in the list puts what
		// follows under C, `if C { leave }` under !C
		var list []ast.Stmt
		switch x := cur.(type) {
		case *ast.BlockStmt:
			list = x.List
		case *ast.CaseClause:
			list = x.Body
		case *ast.CommClause:
			list = x.Body
		}
		for _, st := range list {
			if st.End() > child.Pos() {
				break
			}
			gi, ok := st.(*ast.IfStmt)
			if !ok || gi.Else != nil || !leavesBlock(gi.Body) {
				continue
			}
			if u, ok := unparen(gi.Cond).(*ast.UnaryExpr); ok && u.Op == token.NOT {
				if pred(u.X, true) {
					return gi
				}
			} else if pred(gi.Cond, false) {
				return gi
			}
		}
		if cur == stop {
			return nil
		}
		ifs, ok := cur.(*ast.IfStmt)
		if !ok {
			if _, isFn := cur.(*ast.FuncLit); isFn {
				return nil
			}
			continue
		}
		inThen := n.Pos() >= ifs.Body.Pos() && n.End() <= ifs.Body.End()
		inElse := ifs.Else != nil && n.Pos() >= ifs.Else.Pos() && n.End() <= ifs.Else.End()
		if (inThen || inElse) && pred(ifs.Cond, inThen) {
			return ifs
		}
	}
	return nil
}

// enumBranch is one arm of a dispatch over an enum-typed value: a case clause of `switch x { case C: }` or
// one link of the chain `if x == C { } else if x == D { }` (both forms occur after routine refactorings).
type enumBranch struct {
	Name string     // name of the constant
	Node ast.Node   // the clause / the link's block (inspect this)
	Body []ast.Stmt // the statements of the arm
}

// enumDispatches returns the dispatches over values of the named enum type found in root (function literals not entered).
func enumDispatches(p *Prog, in *types.Info, root ast.Node, pkgPath, typeName string) [][]enumBranch {
	var out [][]enumBranch
	constName := func(e ast.Expr) string {
		if cst, ok := objOf(in, e).(*types.Const); ok {
			return cst.Name()
		}
		return ""
	}
	linkOf := func(cond ast.Expr) string {
		be, ok := unparen(cond).(*ast.BinaryExpr)
		if !ok || be.Op != token.EQL {
			return ""
		}
		if isNamed(in.TypeOf(be.X), pkgPath, typeName) {
			if n := constName(be.Y); n != "" {
				return n
			}
			return constName(be.X)
		}
		return ""
	}
	inspectNoLit(root, func(m ast.Node) bool {
		switch x := m.(type) {
		case *ast.SwitchStmt:
			if x.Tag == nil || !isNamed(in.TypeOf(x.Tag), pkgPath, typeName) {
				return true
			}
			var arms []enumBranch
			for _, s := range x.Body.List {
				cc := s.(*ast.CaseClause)
				for _, e := range cc.List {
					if n := constName(e); n != "" {
						arms = append(arms, enumBranch{n, cc, cc.Body})
					}
				}
			}
			out = append(out, arms)
		case *ast.IfStmt:
			if linkOf(x.Cond) == "" {
				return true
			}
			if par, ok := p.Parent(x).(*ast.IfStmt); ok && par.Else == ast.Stmt(x) && linkOf(par.Cond) != "" {
				return true // not the head of the chain
			}
			var arms []enumBranch
			for cur := x; cur != nil; {
				if n := linkOf(cur.Cond); n != "" {
					arms = append(arms, enumBranch{n, cur.Body, cur.Body.List})
				}
				next, _ := cur.Else.(*ast.IfStmt)
				cur = next
			}
			out = append(out, arms)
		}
		return true
	})
	return out
}

func exprMentions(e ast.Node, pred func(ast.Node) bool) bool {
	found := false
	inspectNoLit(e, func(m ast.Node) bool {
		if pred(m) {
			found = true
		}
		return !found
	})
	return found
}

// ---- R38 ----

func ruleR38(c *Ctx) {
	p := c.P
	for _, f := range p.Funcs {
		if f.Pkg.PkgPath != pathBpmn {
			continue
		}
		in := info(f)
		inspectNoLit(f.Body, func(m ast.Node) bool {
			cl, ok := m.(*ast.CompositeLit)
			if !ok {
				return true
			}
			n := namedOf(in.TypeOf(cl))
			if n == nil || !hasMethod(n, "action") {
				return true
			}
			for _, el := range cl.Elts {
				kv, ok := el.(*ast.KeyValueExpr)
				if !ok {
					continue
				}
				if _, isSlice := in.TypeOf(kv.Value).Underlying().(*types.Slice); !isSlice {
					continue
				}
				key := kv.Key.(*ast.Ident).Name
				desc := "slice in " + n.Obj().Name() + "." + key
				what := "a slice that is handed to a token inside an action must not be a buffer that a later decision overwrites while the token may still read it"
				switch v := unparen(kv.Value).(type) {
				case *ast.CompositeLit, *ast.CallExpr:
					c.Ok(f, kv, desc, what, "fresh value (literal or call result)", false)
				case *ast.SliceExpr:
					// slicing a parameter / local: the backing array must not be written after the send in this function
					id := rootIdent(v.X)
					ok2, why := sliceVarStable(p, f, id, cl)
					c.Check(ok2, f, kv, desc, what, why)
				case *ast.Ident:
					ok2, why := sliceVarStable(p, f, v, cl)
					c.Check(ok2, f, kv, desc, what, why)
				case *ast.SelectorExpr:
					fv := fieldOf(in, v)
					if fv == nil {
						c.Ok(f, kv, desc, what, "not a tracked variable", false)
						continue
					}
					// a receiver field: must only be written by constructors
					var writers []string
					for _, g := range p.Funcs {
						gin := info(g)
						inspectNoLit(g.Body, func(z ast.Node) bool {
							if sel, ok := z.(*ast.SelectorExpr); ok && fieldOf(gin, sel) == fv && isWriteAccess(p, gin, sel) {
								if !isConstructorLike(g) {
									writers = append(writers, g.QName())
								}
							}
							return true
						})
					}
					c.Check(len(writers) == 0, f, kv, desc, what, ifEmpty(strings.Join(writers, ","), "field "+fv.Name()+" is only written during construction")+ifNotEmpty(writers, " write the field after construction"))
				}
			}
			return true
		})
	}
}

func isConstructorLike(f *FuncInfo) bool {
	r := f.Root()
	return r.Obj != nil && strings.HasPrefix(r.Obj.Name(), "new")
}

// sliceVarStable: the local slice variable is declared inside the innermost
// loop iteration / clause that contains the use, or is never written (append,
// index store, re-slice assignment) inside a loop that it was declared outside of.
func sliceVarStable(p *Prog, f *FuncInfo, id *ast.Ident, use ast.Node) (bool, string) {
	if id == nil {
		return true, "not a variable"
	}
	in := info(f)
	v, ok := objOf(in, id).(*types.Var)
	if !ok || v.IsField() {
		return true, "not a local variable"
	}
	if isParam(f, v) {
		return true, "parameter " + v.Name() + ": the caller owns the backing array (checked at the call sites' own sends)"
	}
	// loops enclosing the use
	var loops []ast.Node
	for cur := p.Parent(use); cur != nil; cur = p.Parent(cur) {
		switch cur.(type) {
		case *ast.ForStmt, *ast.RangeStmt:
			loops = append(loops, cur)
		case *ast.FuncDecl, *ast.FuncLit:
			cur = nil
		}
		if cur == nil {
			break
		}
	}
	declPos := v.Pos()
	for _, lp := range loops {
		if declPos >= lp.Pos() && declPos < lp.End() {
			continue // declared inside this loop: fresh per iteration
		}
		// declared outside loop lp: any write to v inside lp?
		written := false
		inspectNoLit(lp, func(z ast.Node) bool {
			switch x := z.(type) {
			case *ast.AssignStmt:
				for _, l := range x.Lhs {
					if rid := rootIdent(l); rid != nil && objOf(in, rid) == types.Object(v) {
						written = true
					}
				}
			case *ast.IncDecStmt:
				if rid := rootIdent(x.X); rid != nil && objOf(in, rid) == types.Object(v) {
					written = true
				}
			}
			return true
		})
		if written {
			return false, fmt.Sprintf("%s is declared outside the loop at %s but written inside it: the action sent in one iteration aliases the buffer the next iteration overwrites", v.Name(), p.Pos(lp.Pos()))
		}
	}
	return true, v.Name() + " is declared per iteration / never rewritten in an enclosing loop"
}

// ---- R39 ----

func ruleR39(c *Ctx) {
	p := c.P
	// (a) filter functions: param *[]SequenceFlow (or []SequenceFlow) -> []*SequenceFlow
	var filters []*FuncInfo
	for _, f := range p.Funcs {
		if f.Obj == nil || f.Pkg.PkgPath != pathBpmn {
			continue
		}
		sig := f.Obj.Type().(*types.Signature)
		if sig.Results().Len() != 1 || sig.Params().Len() < 1 {
			continue
		}
		rs, ok := sig.Results().At(0).Type().(*types.Slice)
		if !ok {
			continue
		}
		rp, ok := rs.Elem().(*types.Pointer)
		if !ok || !isNamed(rp.Elem(), pathBpmn, "SequenceFlow") {
			continue
		}
		pt := sig.Params().At(0).Type()
		if pp, ok := pt.(*types.Pointer); ok {
			pt = pp.Elem()
		}
		ps, ok := pt.(*types.Slice)
		if !ok || !isNamed(ps.Elem(), pathBpmn, "SequenceFlow") {
			continue
		}
		filters = append(filters, f)
	}
	if len(filters) == 0 {
		c.Missing("sequence-flow filter", "no function of shape (*[]SequenceFlow, ...) []*SequenceFlow found")
	}
	for _, f := range filters {
		in := info(f)
		var problems []string
		nAppend := 0
		inspectNoLit(f.Body, func(m ast.Node) bool {
			switch x := m.(type) {
			case *ast.AssignStmt:
				for i, l := range x.Lhs {
					if ix, ok := unparen(l).(*ast.IndexExpr); ok {
						if _, isSlice := in.TypeOf(ix.X).Underlying().(*types.Slice); isSlice {
							problems = append(problems, "index store at "+p.Pos(x.Pos()))
						}
					}
					if i < len(x.Rhs) {
						if call, ok := unparen(x.Rhs[i]).(*ast.CallExpr); ok && isBuiltin(in, call, "append") {
							nAppend++
							// must append to the result being built (first arg same as lhs)
							if !sameRef(in, call.Args[0], l) {
								problems = append(problems, "append into a different slice at "+p.Pos(x.Pos()))
							}
						}
					}
				}
			case *ast.CallExpr:
				if fn := callee(in, x); fn != nil && fn.Pkg() != nil && (fn.Pkg().Path() == "sort" || fn.Pkg().Path() == "slices") {
					problems = append(problems, "reordering call "+fn.Name())
				}
			case *ast.ForStmt:
				// a counting loop must ascend
				if x.Post != nil {
					if inc, ok := x.Post.(*ast.IncDecStmt); ok && inc.Tok == token.DEC {
						problems = append(problems, "descending loop")
					}
				}
			}
			return true
		})
		c.Check(len(problems) == 0 && nAppend >= 1, f, f.Decl, "filter builds its result by forward append only", "the function that derives a gateway's candidate flows visits the outgoing flows in ascending order and only appends (no index store, swap-remove or sort), so the candidates keep the order in which the gateway lists its outgoing flows", ifEmpty(strings.Join(problems, "; "), fmt.Sprintf("%d append sites, no reordering construct", nAppend)))
	}
	// (b) fields holding candidate flows are assigned directly from the filter's result
	isFilter := func(in *types.Info, e ast.Expr) bool {
		call, ok := unparen(e).(*ast.CallExpr)
		if !ok {
			return false
		}
		fn := callee(in, call)
		for _, f := range filters {
			if f.Obj == fn {
				return true
			}
		}
		return false
	}
	for _, f := range p.Funcs {
		if f.Pkg.PkgPath != pathBpmn {
			continue
		}
		in := info(f)
		inspectNoLit(f.Body, func(m ast.Node) bool {
			cl, ok := m.(*ast.CompositeLit)
			if !ok {
				return true
			}
			n := namedOf(in.TypeOf(cl))
			if n == nil {
				return true
			}
			for _, el := range cl.Elts {
				kv, ok := el.(*ast.KeyValueExpr)
				if !ok {
					continue
				}
				key, _ := kv.Key.(*ast.Ident)
				if key == nil || !strings.Contains(key.Name, "SequenceFlows") {
					continue
				}
				if hasMethod(n, "action") {
					continue
				}
				okv, why := false, "value is neither the filter's result nor a local assigned once from it"
				if isFilter(in, kv.Value) {
					okv, why = true, "direct result of the filter"
				} else if id, isId := unparen(kv.Value).(*ast.Ident); isId {
					v, _ := objOf(in, id).(*types.Var)
					defs, fromFilter, mutated := 0, 0, false
					inspectNoLit(f.Body, func(z ast.Node) bool {
						if as, ok := z.(*ast.AssignStmt); ok {
							for i, l := range as.Lhs {
								if lid, ok := unparen(l).(*ast.Ident); ok && objOf(in, lid) == types.Object(v) && i < len(as.Rhs) {
									defs++
									if isFilter(in, as.Rhs[i]) {
										fromFilter++
									}
								}
								if ix, ok := unparen(l).(*ast.IndexExpr); ok {
									if rid := rootIdent(ix.X); rid != nil && objOf(in, rid) == types.Object(v) {
										mutated = true
									}
								}
							}
						}
						return true
					})
					if defs == 1 && fromFilter == 1 && !mutated {
						okv, why = true, id.Name+" is assigned once, from the filter, and not modified before it is stored"
					} else {
						why = fmt.Sprintf("%s: %d definitions, %d from the filter, element stores: %v", id.Name, defs, fromFilter, mutated)
					}
				}
				c.Check(okv, f, kv, "candidate list "+n.Obj().Name()+"."+key.Name, "a gateway's list of candidate flows is the unmodified result of the order-preserving filter", why)
			}
			return true
		})
	}
	// (c) vacuous pointer comparisons
	for _, f := range p.Funcs {
		if !inEngineScope(f) {
			continue
		}
		in := info(f)
		root := f.Root()
		rin := info(root)
		inspectNoLit(f.Body, func(m ast.Node) bool {
			be, ok := m.(*ast.BinaryExpr)
			if !ok || (be.Op != token.EQL && be.Op != token.NEQ) {
				return true
			}
			_, px := in.TypeOf(be.X).Underlying().(*types.Pointer)
			_, py := in.TypeOf(be.Y).Underlying().(*types.Pointer)
			if !px || !py {
				return true
			}
			if isNilIdent(be.X) || isNilIdent(be.Y) {
				return true
			}
			// is one side a variable whose every definition is a fresh allocation?
			fresh := func(e ast.Expr) bool {
				id, ok := unparen(e).(*ast.Ident)
				if !ok {
					return false
				}
				v, ok := objOf(in, id).(*types.Var)
				if !ok || v.IsField() || isParam(f, v) {
					return false
				}
				defs, fr := 0, 0
				inspectNoLit(root.Body, func(z ast.Node) bool {
					if as, ok := z.(*ast.AssignStmt); ok {
						for i, l := range as.Lhs {
							if lid, ok := unparen(l).(*ast.Ident); ok && objOf(rin, lid) == types.Object(v) && i < len(as.Rhs) {
								defs++
								r := unparen(as.Rhs[i])
								if call, ok := r.(*ast.CallExpr); ok && isBuiltin(rin, call, "new") {
									fr++
								}
								if u, ok := r.(*ast.UnaryExpr); ok && u.Op == token.AND {
									if _, ok := unparen(u.X).(*ast.CompositeLit); ok {
										fr++
									}
								}
							}
						}
					}
					return true
				})
				return defs > 0 && defs == fr
			}
			fx, fy := fresh(be.X), fresh(be.Y)
			vac := (fx || fy) && !sameRef(in, be.X, be.Y)
			c.Check(!vac, f, be, "pointer comparison "+typeString(in.TypeOf(be.X)), "a pointer that only ever holds a fresh allocation of this function can never be identical to an independently obtained pointer: such a comparison is constant and the code that depends on it is dead (compare the pointees)", fmt.Sprintf("one side is a fresh allocation: %v", fx || fy))
			return true
		})
	}
}

func isNilIdent(e ast.Expr) bool {
	id, ok := unparen(e).(*ast.Ident)
	return ok && id.Name == "nil"
}

// ---- R40 ----

func ruleR40(c *Ctx) {
	p := c.P
	ce := chanEngine(p)
	// (a) processor of a task answer: the function that sends on taskTrace.response
	for _, f := range p.Funcs {
		if f.Obj == nil || f.Pkg.PkgPath != pathBpmn || recvNamed(f.Obj) == nil || recvNamed(f.Obj).Obj().Name() != "taskTrace" {
			continue
		}
		in := info(f)
		g := p.Graph(f)
		sends := 0
		for _, op := range ce.Ops {
			if op.Func == f && op.Kind == OpSend && op.Ref.Field == "taskTrace.response" {
				sends++
			}
		}
		if sends == 0 {
			continue
		}
		// every exit passes a close(done) or a successful receive from done
		isCloseOrSeen := func(n ast.Node) bool {
			closed := false
			inspectNoLit(n, func(z ast.Node) bool {
				if call, ok := z.(*ast.CallExpr); ok && isBuiltin(in, call, "close") && fieldName(in, call.Args[0]) == "taskTrace.done" {
					closed = true
				}
				if u, ok := z.(*ast.UnaryExpr); ok && u.Op == token.ARROW && fieldName(in, u.X) == "taskTrace.done" {
					if _, isComm := p.Parent(p.Parent(u)).(*ast.CommClause); isComm {
						closed = true
					}
				}
				return true
			})
			return closed
		}
		bad := g.MustPassBeforeExit(g.Entry(), true, isCloseOrSeen)
		c.Check(len(bad) == 0, f, f.Decl, "processor closes done on every path", "every path through the answer processor either finds `done` already closed or closes it, so later Do calls and the timeout helper are released", ifEmpty(witnessLines(g, bad), "all exits pass close(done) or a receive from done"))
		// at most one response per path
		var sp []Point
		for _, op := range ce.Ops {
			if op.Func == f && op.Kind == OpSend && op.Ref.Field == "taskTrace.response" {
				pt, _ := g.PointOf(op.Node)
				sp = append(sp, pt)
			}
		}
		double := ""
		for _, a := range sp {
			if r, w := g.Reaches(a, func(n ast.Node) bool {
				for _, b := range sp {
					if b.Node() == n {
						return true
					}
				}
				return false
			}, nil); r {
				double = witnessLines(g, [][]Point{w})
			}
		}
		c.Check(double == "", f, f.Decl, "processor forwards at most one response", "no path of the processor sends two responses for one request", ifEmpty(double, fmt.Sprintf("%d response sends on exclusive paths", len(sp))))
	}
	// (a2) a task request carries the context of the instance: the builder's Context(...) argument is
	// the context parameter of the activity's loop (a request that races the cancellation then
	// carries an already-cancelled context), never a fresh background context
	nCtx := 0
	for _, f := range p.Funcs {
		if f.Pkg.PkgPath != pathBpmn {
			continue
		}
		in := info(f)
		inspectNoLit(f.Body, func(m ast.Node) bool {
			// the same fact without the builder: `trace.ctx = x` on a task trace
			if as, isAs := m.(*ast.AssignStmt); isAs && len(as.Lhs) == len(as.Rhs) {
				for i, l := range as.Lhs {
					fv := fieldOf(in, l)
					if fv == nil || !isNamed(fv.Type(), "context", "Context") {
						continue
					}
					sel := unparen(l).(*ast.SelectorExpr)
					if nt := namedOf(in.TypeOf(sel.X)); nt == nil || nt.Obj().Name() != "taskTrace" {
						continue
					}
					nCtx++
					okArg := false
					if id, isId := unparen(as.Rhs[i]).(*ast.Ident); isId {
						if v, isVar := objOf(in, id).(*types.Var); isVar && isNamed(v.Type(), "context", "Context") {
							for fi := f; fi != nil; fi = fi.Parent {
								if isParam(fi, v) {
									okArg = true
								}
							}
						}
					}
					// a context derived from the one already attached (WithValue on the same field) keeps its cancellation
					if cl, isCall := unparen(as.Rhs[i]).(*ast.CallExpr); isCall && len(cl.Args) > 0 {
						if g := callee(in, cl); g != nil && g.Pkg() != nil && g.Pkg().Path() == "context" && strings.HasPrefix(g.Name(), "With") && sameRef(in, cl.Args[0], l) {
							okArg = true
						}
					}
					c.Check(okArg, f, as, "task request context", "the context attached to a task request is the context parameter of the activity goroutine that issues it (so a request racing the cancellation is already cancelled), not a fresh or stored context", "assigned: "+exprStringShort(as.Rhs[i]))
				}
				return true
			}
			call, ok := m.(*ast.CallExpr)
			if !ok || len(call.Args) != 1 {
				return true
			}
			fn := callee(in, call)
			if fn == nil || fn.Name() != "Context" || recvNamed(fn) == nil || recvNamed(fn).Obj().Name() != "taskTraceBuilder" {
				return true
			}
			nCtx++
			okArg := false
			if id, isId := unparen(call.Args[0]).(*ast.Ident); isId {
				if v, isVar := objOf(in, id).(*types.Var); isVar && isNamed(v.Type(), "context", "Context") {
					for fi := f; fi != nil; fi = fi.Parent {
						if isParam(fi, v) {
							okArg = true
						}
					}
				}
			}
			c.Check(okArg, f, call, "task request context", "the context attached to a task request is the context parameter of the activity goroutine that issues it (so a request racing the cancellation is already cancelled), not a fresh or stored context", "argument: "+exprStringShort(call.Args[0]))
			return true
		})
	}
	if nCtx == 0 {
		c.Missing("task request context", "no taskTraceBuilder.Context(...) call found: task requests no longer carry a context")
	}
	// (b) error-mode switch in the token loop
	for _, root := range tokenRoots(p) {
		in := info(root)
		g := p.Graph(root)
		for _, arms := range enumDispatches(p, in, root.Body, pathBpmn, "ErrHandleMode") {
			for _, arm := range arms {
				cc := arm.Node
				ccBody := arm.Body
				name := arm.Name
				region := regionOfStmts(ccBody)
				switch name {
				case "RetryMode":
					// every goto (back to the select) in the clause is dominated by a Step() call and lies under IsContinue()
					nGoto := 0
					okAll := true
					why := ""
					inspectNoLit(cc, func(z ast.Node) bool {
						br, ok := z.(*ast.BranchStmt)
						if !ok || (br.Tok != token.GOTO && br.Tok != token.CONTINUE) {
							return true
						}
						if br.Tok == token.CONTINUE && innermostLoopWithin(p, br, nil) && innermostLoop(p, br) != nil && innermostLoop(p, br).Pos() > cc.Pos() {
							return true // a continue of a loop inside the clause is not the jump back to the request
						}
						nGoto++
						guard := enclosingIfWhere(p, br, cc, func(cond ast.Expr, inThen bool) bool {
							return inThen && exprMentions(cond, func(y ast.Node) bool {
								call, ok := y.(*ast.CallExpr)
								return ok && callee(in, call) != nil && callee(in, call).Name() == "IsContinue"
							})
						})
						stepBefore := false
						bpt, _ := g.PointOf(br)
						_ = bpt
						if guard != nil {
							for _, st := range guard.Body.List {
								if st.Pos() < br.Pos() && exprMentions(st, func(y ast.Node) bool {
									call, ok := y.(*ast.CallExpr)
									return ok && callee(in, call) != nil && callee(in, call).Name() == "Step"
								}) {
									stepBefore = true
								}
							}
						}
						if guard == nil || !stepBefore {
							okAll = false
							why = fmt.Sprintf("goto at %s: under IsContinue()=%v, preceded by Step()=%v", p.Pos(br.Pos()), guard != nil, stepBefore)
						}
						return true
					})
					c.Check(okAll && nGoto >= 1, root, cc, "retry branch steps its counter", "the only way from the retry branch back to the task request is under IsContinue() and after Step() (bounded retries need the counter to move on every retry)", ifEmpty(why, fmt.Sprintf("%d retry jump(s), each guarded by IsContinue() and preceded by Step()", nGoto)))
					// the clause cannot fall through to the flow handling: every way out is a
					// return or a backward jump (goto to the request select)
					entry, ok := g.EntryOfStmts(ccBody)
					if ok {
						found, w := g.Search(entry, true, func(pt Point, n ast.Node) Action {
							if n == nil {
								return Prune
							}
							if _, isRet := n.(*ast.ReturnStmt); isRet {
								return Prune
							}
							if !region.Contains(n) {
								if n.Pos() < region.Pos {
									return Prune // jumped back
								}
								return Found
							}
							return Continue
						})
						wit := "every path ends in a backward goto or a return"
						if found {
							wit = "falls through to the code after the switch: " + witnessLines(g, [][]Point{w})
						}
						c.Check(!found, root, cc, "retry branch never continues the flow", "after a failed attempt the retry branch either re-requests the task or stops the token; it never falls through to the sequence flows", wit)
					}
				case "ExitMode":
					entry, ok := g.EntryOfStmts(ccBody)
					okExit := false
					wit := "empty clause: falls through to the sequence flows"
					if ok {
						esc := g.RegionPaths(entry, region, func(n ast.Node) bool {
							_, isRet := n.(*ast.ReturnStmt)
							return isRet
						})
						okExit = len(esc) == 0
						wit = ifEmpty(witnessLines(g, esc), "every path returns")
					}
					c.Check(okExit, root, cc, "exit branch stops the token", "the ExitMode branch returns on every path (the token takes no sequence flow)", wit)
				case "SkipMode":
					stops := false
					inspectNoLit(cc, func(z ast.Node) bool {
						switch x := z.(type) {
						case *ast.ReturnStmt:
							stops = true
						case *ast.BranchStmt:
							if x.Tok == token.GOTO || (x.Tok == token.CONTINUE && (innermostLoop(p, x) == nil || innermostLoop(p, x).Pos() < cc.Pos())) {
								stops = true
							}
						}
						return true
					})
					c.Check(!stops, root, cc, "skip branch continues", "the SkipMode branch neither returns nor jumps back: the token continues with the activity's outgoing flows", fmt.Sprintf("contains return/goto: %v", stops))
				}
			}
		}
	}
}

// ---- R41 ----

func ruleR41(c *Ctx) {
	p := c.P
	var harnessCtor, harnessRun, harnessConsume *FuncInfo
	for _, f := range p.Funcs {
		if f.Pkg.PkgPath != pathBpmn {
			continue
		}
		switch f.Name {
		case "newHarness":
			harnessCtor = f
		case "(*harness).run":
			harnessRun = f
		case "(*harness).ConsumeEvent":
			harnessConsume = f
		}
	}
	if harnessCtor == nil || harnessRun == nil || harnessConsume == nil {
		c.Missing("harness anchors", "newHarness / harness.run / harness.ConsumeEvent not found")
		return
	}
	// (a) Cancel call sites only inside sync.Once.Do
	nCancel, under := 0, 0
	var firstCancel ast.Node
	var firstF *FuncInfo
	for _, f := range p.Funcs {
		in := info(f)
		inspectNoLit(f.Body, func(m ast.Node) bool {
			call, ok := m.(*ast.CallExpr)
			if !ok {
				return true
			}
			fn := callee(in, call)
			if fn == nil || fn.Name() != "Cancel" || !isMethod(fn, pathBpmn, "Cancel", "Activity", "genericTask", "subProcess") {
				return true
			}
			nCancel++
			if firstCancel == nil {
				firstCancel, firstF = call, f
			}
			if underOnce(p, f, call) {
				under++
			}
			return true
		})
	}
	c.Check(nCancel >= 1 && nCancel == under, firstF, firstCancel, "Activity.Cancel only under the harness's once", "the activity is asked to cancel at most once per harness: every call of Activity.Cancel sits inside a sync.Once.Do", fmt.Sprintf("%d call sites, %d under sync.Once.Do", nCancel, under))
	// (b) transformer installed iff CancelActivity()
	in := info(harnessCtor)
	nAssign := 0
	inspectNoLit(harnessCtor.Body, func(m ast.Node) bool {
		as, ok := m.(*ast.AssignStmt)
		if !ok || len(as.Lhs) != 1 || len(as.Rhs) != 1 {
			return true
		}
		if _, isLit := unparen(as.Rhs[0]).(*ast.FuncLit); !isLit || !isNamed(in.TypeOf(as.Lhs[0]), pathBpmn, "ActionTransformer") {
			return true
		}
		nAssign++
		guard := enclosingIfWhere(p, as, harnessCtor.Body, func(cond ast.Expr, inThen bool) bool {
			call, ok := unparen(cond).(*ast.CallExpr)
			return inThen && ok && callee(in, call) != nil && callee(in, call).Name() == "CancelActivity"
		})
		c.Check(guard != nil, harnessCtor, as, "interrupting transformer iff cancelActivity", "the transformer that cancels the host activity is installed exactly under `if boundaryEvent.CancelActivity()` (non-interrupting boundary events must leave the activity alone)", fmt.Sprintf("guarded by CancelActivity(): %v", guard != nil))
		return true
	})
	if nAssign == 0 {
		c.Missing("interrupting transformer", "no ActionTransformer literal is assigned in newHarness")
	}
	// (c) ForwardEvent control-dependent on active == const
	cin := info(harnessConsume)
	var gateConst string
	nFwd := 0
	inspectNoLit(harnessConsume.Body, func(m ast.Node) bool {
		call, ok := m.(*ast.CallExpr)
		if !ok || callee(cin, call) == nil || callee(cin, call).Name() != "ForwardEvent" {
			return true
		}
		nFwd++
		guard := enclosingIfWhere(p, call, harnessConsume.Body, func(cond ast.Expr, inThen bool) bool {
			be, ok := unparen(cond).(*ast.BinaryExpr)
			if !ok || be.Op != token.EQL || !inThen {
				return false
			}
			isLoad := exprMentions(be.X, func(y ast.Node) bool {
				cc, ok := y.(*ast.CallExpr)
				return ok && callee(cin, cc) != nil && callee(cin, cc).Pkg() != nil && callee(cin, cc).Pkg().Path() == "sync/atomic" && strings.HasPrefix(callee(cin, cc).Name(), "Load")
			})
			if tv, ok := cin.Types[be.Y]; ok && tv.Value != nil && isLoad {
				gateConst = tv.Value.ExactString()
				return true
			}
			return false
		})
		c.Check(guard != nil, harnessConsume, call, "events forwarded only while active", "boundary listeners receive events only while the host activity is waiting: ForwardEvent is control-dependent on an atomic load of `active` compared with a constant", fmt.Sprintf("guard found: %v (constant %s)", guard != nil, gateConst))
		return true
	})
	if nFwd == 0 {
		c.Missing("harness forward", "harness.ConsumeEvent no longer forwards events")
	}
	// (d) flag discipline of `active`: only Store of constants {0, gate}
	var activeFld *types.Var
	if st, ok := structOf(namedTypeOf(p, pathBpmn, "harness")); ok {
		for i := 0; i < st.NumFields(); i++ {
			if st.Field(i).Name() == "active" {
				activeFld = st.Field(i)
			}
		}
	}
	if activeFld != nil {
		for _, f := range p.Funcs {
			fin := info(f)
			inspectNoLit(f.Body, func(m ast.Node) bool {
				call, ok := m.(*ast.CallExpr)
				if !ok || len(call.Args) == 0 {
					return true
				}
				fn := callee(fin, call)
				if fn == nil || fn.Pkg() == nil || fn.Pkg().Path() != "sync/atomic" {
					return true
				}
				u, ok := unparen(call.Args[0]).(*ast.UnaryExpr)
				if !ok || fieldOf(fin, u.X) != activeFld {
					return true
				}
				if strings.HasPrefix(fn.Name(), "Load") {
					return true
				}
				okStore := strings.HasPrefix(fn.Name(), "Store") && len(call.Args) == 2
				val := "?"
				if okStore {
					if tv, ok := fin.Types[call.Args[1]]; ok && tv.Value != nil {
						val = tv.Value.ExactString()
						okStore = val == "0" || val == gateConst
					} else {
						okStore = false
					}
				}
				c.Check(okStore, f, call, "write of harness.active", "`active` is a flag compared for equality with "+gateConst+": it is only ever stored as 0 or "+gateConst+" (a counter would make the equality test miss while two tokens wait)", fn.Name()+" with value "+val)
				return true
			})
		}
	} else {
		c.Missing("harness.active", "field harness.active not found")
	}
	// (e) order in harness.run: Store(active,1) dominates the activity request; in the relay literal the reply is forwarded before Store(active,0)
	rin := info(harnessRun)
	g := p.Graph(harnessRun)
	var storePt, reqPt *Point
	for _, pt := range g.AllPoints() {
		pt := pt
		for _, call := range callsIn(pt.Node()) {
			fn := callee(rin, call)
			if fn == nil {
				continue
			}
			if fn.Pkg() != nil && fn.Pkg().Path() == "sync/atomic" && strings.HasPrefix(fn.Name(), "Store") && storePt == nil {
				storePt = &pt
			}
			if fn.Name() == "NextAction" && reqPt == nil {
				reqPt = &pt
			}
		}
	}
	c.Check(storePt != nil && reqPt != nil && g.Dominates(*storePt, *reqPt) && *storePt != *reqPt, harnessRun, harnessRun.Decl, "active set before the activity is asked", "`active` is set before the harness asks the activity for its next action, so a boundary event cannot be dropped while the activity is already waiting", fmt.Sprintf("store found=%v request found=%v", storePt != nil, reqPt != nil))
	// (f) boundary listeners register with the harness: eventEgress assigned before newCatchEvent
	gc := p.Graph(harnessCtor)
	var egressPt, ctorPt *Point
	for _, pt := range gc.AllPoints() {
		pt := pt
		if as, ok := pt.Node().(*ast.AssignStmt); ok {
			for _, l := range as.Lhs {
				if fieldName(in, l) == "wiring.eventEgress" {
					egressPt = &pt
				}
			}
		}
		for _, call := range callsIn(pt.Node()) {
			if fn := callee(in, call); fn != nil && fn.Name() == "newCatchEvent" {
				ctorPt = &pt
			}
		}
	}
	c.Check(egressPt != nil && ctorPt != nil && gc.Dominates(*egressPt, *ctorPt), harnessCtor, harnessCtor.Decl, "boundary catch events subscribe to the harness", "the cloned wiring's event source is pointed at the harness before the boundary catch event is constructed (its constructor registers with that source); otherwise boundary events bypass the harness's `active` gate", fmt.Sprintf("eventEgress assignment found=%v, newCatchEvent found=%v, assignment first=%v", egressPt != nil, ctorPt != nil, egressPt != nil && ctorPt != nil && gc.Dominates(*egressPt, *ctorPt)))
	// (g1) normal flow never after interruption: the relay of the activity's answer reads state written by the cancellation
	relay := (*FuncInfo)(nil)
	for _, l := range harnessRun.Lits {
		relay = l
	}
	cancelWrites := map[*types.Var]bool{}
	inspectNoLit(harnessCtor.Body, func(m ast.Node) bool { return true })
	for _, l := range harnessCtor.Lits {
		lin := info(l)
		ast.Inspect(l.Body, func(z ast.Node) bool {
			if sel, ok := z.(*ast.SelectorExpr); ok {
				if fv := fieldOf(lin, sel); fv != nil && isWriteAccess(p, lin, sel) {
					cancelWrites[fv] = true
				}
			}
			if call, ok := z.(*ast.CallExpr); ok {
				if fn := callee(lin, call); fn != nil && fn.Pkg() != nil && fn.Pkg().Path() == "sync/atomic" && !strings.HasPrefix(fn.Name(), "Load") && len(call.Args) > 0 {
					if u, ok := unparen(call.Args[0]).(*ast.UnaryExpr); ok {
						if fv := fieldOf(lin, u.X); fv != nil {
							cancelWrites[fv] = true
						}
					}
				}
			}
			return true
		})
	}
	connected := false
	if relay != nil {
		lin := info(relay)
		ast.Inspect(relay.Body, func(z ast.Node) bool {
			if sel, ok := z.(*ast.SelectorExpr); ok {
				if fv := fieldOf(lin, sel); fv != nil && cancelWrites[fv] && !isWriteAccess(p, lin, sel) {
					connected = true
				}
			}
			return true
		})
	}
	c.Check(connected, harnessRun, harnessRun.Decl, "answer relay observes the cancellation", "NECESSARY for 'the normal flow never continues after an interrupting boundary event': the goroutine that relays the activity's answer to the token reads some state that the cancellation action writes (otherwise an answer given after the interruption is forwarded like any other)", fmt.Sprintf("fields written by the cancellation action: %d; read on the relay path: %v", len(cancelWrites), connected))
	// (g2) boundary listener flows must not pin the process wait group
	nFlows := 0
	inspectNoLit(harnessCtor.Body, func(m ast.Node) bool {
		call, ok := m.(*ast.CallExpr)
		if !ok || callee(in, call) == nil || callee(in, call).Name() != "newFlow" {
			return true
		}
		nFlows++
		shared := false
		for _, a := range call.Args {
			if fieldName(in, a) == "wiring.flowWaitGroup" {
				shared = true
			}
		}
		terminated := false
		inspectNoLit(harnessCtor.Body, func(z ast.Node) bool {
			if cc, ok := z.(*ast.CallExpr); ok && callee(in, cc) != nil && callee(in, cc).Name() == "SetTerminate" {
				terminated = true
			}
			return true
		})
		c.Check(!shared || terminated, harnessCtor, call, "boundary listener flows do not pin the instance", "NECESSARY for 'boundary events do not keep the instance from completing': a listener flow either does not count on the process's flow wait group or gets a termination function tied to the host activity", fmt.Sprintf("counted on the shared wait group: %v; termination wired: %v", shared, terminated))
		return true
	})
	if nFlows == 0 {
		c.Missing("boundary listener flows", "newHarness no longer creates listener flows")
	}
}

func namedTypeOf(p *Prog, pkgPath, name string) types.Type {
	pk := p.ByPath[pkgPath]
	if pk == nil {
		return nil
	}
	o := pk.Types.Scope().Lookup(name)
	if o == nil {
		return nil
	}
	return o.Type()
}

// ---- R42 ----

func ruleR42(c *Ctx) {
	p := c.P
	// (a) ForwardEvent visits every consumer
	for _, f := range p.Funcs {
		if f.Obj == nil || f.Obj.Name() != "ForwardEvent" || shortPkg(f.Pkg.PkgPath) != "pkg/event" {
			continue
		}
		in := info(f)
		n := 0
		inspectNoLit(f.Body, func(m ast.Node) bool {
			rs, ok := elementLoop(in, m)
			if !ok {
				return true
			}
			calls := exprMentions(rs.Body, func(y ast.Node) bool {
				call, ok := y.(*ast.CallExpr)
				return ok && callee(in, call) != nil && callee(in, call).Name() == "ConsumeEvent"
			})
			if !calls {
				return true
			}
			n++
			skips := exprMentions(rs.Body, func(y ast.Node) bool {
				switch x := y.(type) {
				case *ast.BranchStmt:
					return x.Tok == token.BREAK || x.Tok == token.GOTO
				case *ast.ReturnStmt, *ast.GoStmt:
					return true
				}
				return false
			})
			c.Check(!skips, f, rs.Stmt, "ForwardEvent visits every consumer", "the loop that delivers an event to the consumers has no break, return or goroutine: every registered consumer is visited, in order, synchronously", fmt.Sprintf("skipping construct in the loop: %v", skips))
			return true
		})
		if n == 0 {
			c.Missing("ForwardEvent loop", "ForwardEvent no longer ranges over the consumers")
		}
	}
	// (b) ConsumeEvent of containers: the list is read under RLock and ForwardEvent is called without the lock held, or under RLock only
	for _, f := range p.Funcs {
		if f.Obj == nil || f.Obj.Name() != "ConsumeEvent" {
			continue
		}
		in := info(f)
		var fwd *ast.CallExpr
		inspectNoLit(f.Body, func(m ast.Node) bool {
			if call, ok := m.(*ast.CallExpr); ok && callee(in, call) != nil && callee(in, call).Name() == "ForwardEvent" {
				fwd = call
			}
			return true
		})
		if fwd == nil {
			continue
		}
		ls := locksetsOf(p, f)
		g := p.Graph(f)
		pt, _ := g.PointOf(fwd)
		held := ls[pt.Node()]
		write := false
		for _, m := range held {
			if m == lockWrite {
				write = true
			}
		}
		c.Check(!write, f, fwd, "events forwarded without an exclusive lock", "consumers are called without the registry's write lock held (a consumer that registers another consumer during delivery must not deadlock)", fmt.Sprintf("locks held at ForwardEvent: %d, exclusive: %v", len(held), write))
	}
	// (c) catch event: Satisfy only while activated
	for _, f := range p.Funcs {
		if f.Name != "(*catchEvent).run" {
			continue
		}
		in := info(f)
		n := 0
		inspectNoLit(f.Body, func(m ast.Node) bool {
			call, ok := m.(*ast.CallExpr)
			if !ok || callee(in, call) == nil || callee(in, call).Name() != "Satisfy" {
				return true
			}
			n++
			guard := enclosingIfWhere(p, call, f.Body, func(cond ast.Expr, inThen bool) bool {
				return inThen && exprMentions(cond, func(y ast.Node) bool {
					cc, ok := y.(*ast.CallExpr)
					return ok && callee(in, cc) != nil && callee(in, cc).Name() == "Load" && fieldName(in, unparen(cc.Fun).(*ast.SelectorExpr).X) == "catchEvent.activated"
				})
			})
			c.Check(guard != nil, f, call, "catch event matches only while activated", "a catch event evaluates an incoming event only while it is listening (Satisfy is control-dependent on activated.Load())", fmt.Sprintf("guard found: %v", guard != nil))
			return true
		})
		if n == 0 {
			c.Missing("catch event Satisfy", "catchEvent.run no longer calls Satisfy")
		}
	}
}

// ---- R43 ----

func ruleR43(c *Ctx) {
	p := c.P
	for _, f := range p.Funcs {
		if f.Obj == nil || shortPkg(f.Pkg.PkgPath) != "pkg/timer" {
			continue
		}
		in := info(f)
		g := p.Graph(f)
		// func() parameters invoked by this function
		for _, fl := range f.Type().Params.List {
			for _, nm := range fl.Names {
				pv, ok := in.Defs[nm].(*types.Var)
				if !ok {
					continue
				}
				sig, ok := pv.Type().Underlying().(*types.Signature)
				if !ok || sig.Params().Len() != 0 {
					continue
				}
				for _, pt := range g.AllPoints() {
					if _, isDefer := pt.Node().(*ast.DeferStmt); isDefer {
						continue
					}
					for _, call := range callsIn(pt.Node()) {
						id, ok := unparen(call.Fun).(*ast.Ident)
						if !ok || in.Uses[id] != types.Object(pv) {
							continue
						}
						// dominated by the comm of a select clause receiving from a timer channel
						okDom := false
						if cc := innermostCommClause(p, call); cc != nil && cc.Comm != nil {
							var recv ast.Expr
							switch s := cc.Comm.(type) {
							case *ast.ExprStmt:
								recv = s.X
							case *ast.AssignStmt:
								if len(s.Rhs) == 1 {
									recv = s.Rhs[0]
								}
							}
							if u, ok := unparen(recv).(*ast.UnaryExpr); ok && u.Op == token.ARROW && isTimerChanType(in.TypeOf(u.X)) {
								okDom = true
							}
						}
						c.Check(okDom, f, call, "callback "+pv.Name()+" fires only after the clock", "the firing callback is invoked only inside the select clause that received from the clock's timer channel (never before the clock reached the due time)", fmt.Sprintf("inside a timer-channel receive clause: %v", okDom))
						// one-shot drivers: followed by return
						if f.Obj.Name() == "dateTimeTimer" {
							r, _ := g.Reaches(pt, func(n ast.Node) bool {
								for _, c2 := range callsIn(n) {
									if id2, ok := unparen(c2.Fun).(*ast.Ident); ok && in.Uses[id2] == types.Object(pv) {
										return true
									}
								}
								return false
							}, nil)
							c.Check(!r, f, call, "one-shot timer fires once", "after invoking its callback a date/duration timer returns: no second invocation is reachable", fmt.Sprintf("second invocation reachable: %v", r))
						}
					}
				}
			}
		}
		if f.Obj.Name() == "recurringTimer" {
			// repetitions: tested == 0 at loop head followed by return; decremented on the fall-through path
			var loop *ast.ForStmt
			inspectNoLit(f.Body, func(m ast.Node) bool {
				if fs, ok := m.(*ast.ForStmt); ok && fs.Cond == nil && loop == nil {
					loop = fs
				}
				return true
			})
			if loop == nil {
				c.Missing("cycle loop", "recurringTimer has no unbounded loop")
				continue
			}
			headTest := false
			if len(loop.Body.List) > 0 {
				if ifs, ok := loop.Body.List[0].(*ast.IfStmt); ok {
					if be, ok := unparen(ifs.Cond).(*ast.BinaryExpr); ok && be.Op == token.EQL {
						if tv, ok := in.Types[be.Y]; ok && tv.Value != nil && tv.Value.ExactString() == "0" {
							for _, st := range ifs.Body.List {
								if _, isRet := st.(*ast.ReturnStmt); isRet {
									headTest = true
								}
							}
						}
					}
				}
			}
			c.Check(headTest, f, loop, "cycle loop tests its repetition counter first", "each iteration of the cycle loop starts by returning when the remaining repetitions are 0 (a timer never fires more often than its definition says)", fmt.Sprintf("`if n == 0 { return }` heads the loop: %v", headTest))
			dec := false
			for _, st := range loop.Body.List {
				ast.Inspect(st, func(z ast.Node) bool {
					if inc, ok := z.(*ast.IncDecStmt); ok && inc.Tok == token.DEC {
						dec = true
					}
					return true
				})
			}
			c.Check(dec, f, loop, "cycle loop decrements its counter", "the repetition counter is decremented in the loop body", fmt.Sprintf("decrement found: %v", dec))
			// re-arm from the delivered clock time: the timer clause assigns the received time to the
			// variable from which the next due time is computed
			rearm := false
			var dueVars []types.Object
			inspectNoLit(loop.Body, func(z ast.Node) bool {
				if call, ok := z.(*ast.CallExpr); ok {
					if fn := callee(in, call); fn != nil && fn.Name() == "Until" && len(call.Args) == 1 {
						if rid := rootIdent(call.Args[0]); rid != nil {
							dueVars = append(dueVars, objOf(in, rid))
						}
					}
				}
				return true
			})
			for _, si := range chanEngine(p).Selects {
				if si.Func != f || !regionOf(loop.Body).Contains(si.Stmt) {
					continue
				}
				for _, cl := range si.Clauses {
					if cl.Op == nil || cl.Op.Kind != OpRecv || !isTimerChanType(cl.Op.Type) {
						continue
					}
					if as, ok := cl.Clause.Comm.(*ast.AssignStmt); ok && len(as.Lhs) >= 1 {
						if lid, ok := unparen(as.Lhs[0]).(*ast.Ident); ok {
							for _, dv := range dueVars {
								if objOf(in, lid) == dv && dv != nil {
									rearm = true
								}
							}
						}
					}
				}
			}
			c.Check(rearm, f, loop, "cycle loop re-arms from the delivered time", "the time received from the clock's channel is stored into the variable the next due time is computed from (a clock jump over several intervals then yields one firing, not a burst of catch-up firings with no clock advance)", fmt.Sprintf("timer clause assigns the received time to the due-time base: %v", rearm))
			// done/end cases return
			for _, si := range chanEngine(p).Selects {
				if si.Func != f || !regionOf(loop.Body).Contains(si.Stmt) {
					continue
				}
				for _, cl := range si.Clauses {
					if cl.Op == nil {
						continue
					}
					isDone := chanEngine(p).isDoneSource(f, cl.Op.Chan)
					isEnd := false
					if id, ok := unparen(cl.Op.Chan).(*ast.Ident); ok && strings.Contains(strings.ToLower(id.Name), "end") {
						isEnd = true
					}
					if !isDone && !isEnd {
						continue
					}
					ret := false
					for _, st := range cl.Clause.Body {
						if _, ok := st.(*ast.ReturnStmt); ok {
							ret = true
						}
					}
					c.Check(ret, f, cl.Clause, "cycle loop stops at its end bound / on cancellation", "the clauses for cancellation and for the end bound return (a timer never fires after its end or after cancellation)", fmt.Sprintf("clause returns: %v", ret))
				}
			}
		}
	}
	// mock clock
	for _, f := range p.Funcs {
		if f.Name != "(*Mock).lockedSet" || shortPkg(f.Pkg.PkgPath) != "pkg/clock" {
			continue
		}
		in := info(f)
		g := p.Graph(f)
		var sortPt, loopPt *Point
		for _, pt := range g.AllPoints() {
			pt := pt
			for _, call := range callsIn(pt.Node()) {
				if fn := callee(in, call); fn != nil && fn.Pkg() != nil && fn.Pkg().Path() == "sort" {
					sortPt = &pt
				}
			}
			if s, ok := pt.Node().(*ast.SendStmt); ok && isTimerChanType(in.TypeOf(s.Chan)) && loopPt == nil && fieldName(in, s.Chan) != "Mock.changes" {
				loopPt = &pt
			}
		}
		c.Check(sortPt != nil && loopPt != nil && g.Dominates(*sortPt, *loopPt), f, f.Decl, "mock clock sorts before delivering", "due wake-ups are sorted by time before any of them is delivered", fmt.Sprintf("sort found=%v delivery found=%v", sortPt != nil, loopPt != nil))
		reassign := false
		inspectNoLit(f.Body, func(m ast.Node) bool {
			if as, ok := m.(*ast.AssignStmt); ok {
				for _, l := range as.Lhs {
					if fieldName(in, l) == "Mock.timers" {
						reassign = true
					}
				}
			}
			return true
		})
		c.Check(reassign, f, f.Decl, "mock clock removes delivered wake-ups", "the pending list is replaced by the not-yet-due remainder (a delivered wake-up is never delivered again)", fmt.Sprintf("timers reassigned: %v", reassign))
	}
}

// ---- R44 ----

func ruleR44(c *Ctx) {
	p := c.P
	nSat := 0
	for _, f := range p.Funcs {
		if f.Obj == nil || f.Obj.Name() != "Satisfy" || shortPkg(f.Pkg.PkgPath) != "pkg/logic" {
			continue
		}
		nSat++
		in := info(f)
		// stores into receiver state (chains, bitset Set)
		inspectNoLit(f.Body, func(m ast.Node) bool {
			var at ast.Node
			switch x := m.(type) {
			case *ast.AssignStmt:
				for _, l := range x.Lhs {
					if fv := fieldOf(in, l); fv != nil {
						at = x
					}
					if ix, ok := unparen(l).(*ast.IndexExpr); ok && fieldOf(in, ix.X) != nil {
						at = x
					}
				}
			case *ast.CallExpr:
				if fn := callee(in, x); fn != nil && fn.Name() == "Set" && fn.Pkg() != nil && strings.Contains(fn.Pkg().Path(), "bitset") {
					// Set on an element of receiver state or on a fresh bitset that is appended: count those on receiver state
					if sel, ok := unparen(x.Fun).(*ast.SelectorExpr); ok {
						if ix, ok := unparen(sel.X).(*ast.IndexExpr); ok && fieldOf(in, ix.X) != nil {
							at = x
						}
					}
				}
			}
			if call, ok := m.(*ast.CallExpr); ok && at == nil {
				// a helper method of the same receiver that writes receiver state
				if cf := p.byObj[callee(in, call)]; cf != nil && cf.Obj != nil && f.Obj != nil && recvNamed(cf.Obj) != nil && recvNamed(f.Obj) != nil && recvNamed(cf.Obj).Obj() == recvNamed(f.Obj).Obj() && cf != f {
					cin := info(cf)
					inspectNoLit(cf.Body, func(z ast.Node) bool {
						if as, ok := z.(*ast.AssignStmt); ok {
							for _, l := range as.Lhs {
								if fieldOf(cin, l) != nil {
									at = call
								}
							}
						}
						return true
					})
				}
			}
			if at == nil {
				return true
			}
			isMatch := func(y ast.Node) bool {
				cc, ok := y.(*ast.CallExpr)
				return ok && callee(in, cc) != nil && callee(in, cc).Name() == "MatchesEventInstance"
			}
			guard := ast.Node(nil)
			if g1 := enclosingIfWhere(p, at, f.Body, func(cond ast.Expr, inThen bool) bool {
				return inThen && exprMentions(cond, isMatch)
			}); g1 != nil {
				guard = g1
			}
			if guard == nil {
				// guard clause: an earlier `if !Matches(..) { continue|return|break }` in an enclosing block
				var child ast.Node = at
				for cur := p.Parent(at); cur != nil && guard == nil; cur = p.Parent(cur) {
					if blk, ok := cur.(*ast.BlockStmt); ok {
						for _, st := range blk.List {
							if st.End() > child.Pos() {
								break
							}
							ifs, ok := st.(*ast.IfStmt)
							if !ok || ifs.Else != nil || !leavesBlock(ifs.Body) {
								continue
							}
							if u, ok := unparen(ifs.Cond).(*ast.UnaryExpr); ok && u.Op == token.NOT && exprMentions(u.X, isMatch) {
								guard = ifs
							}
						}
					}
					if _, isFn := cur.(*ast.FuncDecl); isFn {
						break
					}
					child = cur
				}
			}
			c.Check(guard != nil, f, at, "satisfier state change", "every change of satisfier state is control-dependent on MatchesEventInstance(...) being true: an event that matches no definition changes nothing", fmt.Sprintf("under a successful match: %v", guard != nil))
			return true
		})
	}
	if nSat < 2 {
		c.Missing("satisfiers", fmt.Sprintf("expected 2 Satisfy implementations in pkg/logic, found %d", nSat))
	}
	// call sites: in a node's run goroutine body, or under a mutex
	for _, f := range p.Funcs {
		in := info(f)
		var ls map[ast.Node]lockset
		inspectNoLit(f.Body, func(m ast.Node) bool {
			call, ok := m.(*ast.CallExpr)
			if !ok {
				return true
			}
			fn := callee(in, call)
			if fn == nil || fn.Name() != "Satisfy" || fn.Pkg() == nil || shortPkg(fn.Pkg().Path()) != "pkg/logic" {
				return true
			}
			okSite, why := false, ""
			if r := f.Root(); r.Obj != nil && r.Obj.Name() == "run" && f == r {
				okSite, why = true, "inside the node's run goroutine "+r.QName()
			} else {
				if ls == nil {
					ls = locksetsOf(p, f)
				}
				g := p.Graph(f)
				pt, _ := g.PointOf(call)
				for _, m := range ls[pt.Node()] {
					if m == lockWrite {
						okSite, why = true, "under an exclusive lock"
					}
				}
			}
			c.Check(okSite, f, call, "Satisfy call site", "Satisfy is not goroutine-safe: it is called only from a node's single run goroutine or under a mutex", ifEmpty(why, "neither in a run goroutine nor under a lock"))
			return true
		})
	}
}

// ---- R45 ----

func ruleR45(c *Ctx) {
	p := c.P
	for _, pk := range p.Target {
		sp := shortPkg(pk.PkgPath)
		scope := pk.Types.Scope()
		for _, name := range scope.Names() {
			v, ok := scope.Lookup(name).(*types.Var)
			if !ok {
				continue
			}
			// a package-level sync.Map is a cache by construction: whatever it holds is shared by every instance
			// (and every goroutine) of the program — a memoised expression engine, a parsed interval that a timer
			// then completes in place
			if isNamed(v.Type(), "sync", "Map") {
				c.Bad(nil, nil, "package variable "+sp+"."+name, "no package-level cache in the engine packages: objects handed out of a process-wide sync.Map are shared between instances and goroutines, so per-use state written into them (an engine's variable environment, the start time filled into a parsed interval) leaks from one use into the next", "package-level sync.Map "+name)
				continue
			}
			switch v.Type().Underlying().(type) {
			case *types.Map, *types.Slice, *types.Pointer, *types.Chan:
			default:
				continue
			}
			// writes after init: any assignment / index store / delete in a function body
			var writers []string
			guardedAll := true
			for _, f := range p.Funcs {
				if f.Pkg != pk {
					continue
				}
				in := info(f)
				var ls map[ast.Node]lockset
				inspectNoLit(f.Body, func(m ast.Node) bool {
					id, ok := m.(*ast.Ident)
					if !ok || in.Uses[id] != types.Object(v) || !isLocalWrite(p, id) {
						return true
					}
					writers = append(writers, f.QName())
					if ls == nil {
						ls = locksetsOf(p, f)
					}
					g := p.Graph(f)
					pt, okp := g.PointOf(id)
					held := false
					if okp {
						for _, mode := range ls[pt.Node()] {
							if mode == lockWrite {
								held = true
							}
						}
					}
					if !held {
						guardedAll = false
					}
					return true
				})
			}
			if len(writers) == 0 {
				c.Ok(nil, nil, "package variable "+sp+"."+name, "package-level reference variables in the value/data layers are never written after initialisation (no state shared between instances)", "no write in any function", false)
				continue
			}
			c.Check(guardedAll, nil, nil, "package variable "+sp+"."+name, "a package-level variable that is written at run time is a registry guarded by a lock, not per-instance state", fmt.Sprintf("written in %s; all writes under an exclusive lock: %v", strings.Join(writers, ","), guardedAll))
		}
	}
	// Option constructors: the returned closure must not install a reference that was created
	// outside the closure (it would be shared by every instance the Option value is applied to);
	// caller-supplied parameters are the caller's choice
	for _, f := range p.Funcs {
		if f.Obj == nil || f.Pkg.PkgPath != pathBpmn {
			continue
		}
		sig := f.Obj.Type().(*types.Signature)
		if sig.Results().Len() != 1 || !isNamed(sig.Results().At(0).Type(), pathBpmn, "Option") {
			continue
		}
		in := info(f)
		lit := returnedLiteral(p, f)
		if lit == nil {
			continue
		}
		var shared []string
		ast.Inspect(lit.Body, func(z ast.Node) bool {
			as, ok := z.(*ast.AssignStmt)
			if !ok {
				return true
			}
			for i, l := range as.Lhs {
				if _, isSel := unparen(l).(*ast.SelectorExpr); !isSel || i >= len(as.Rhs) {
					continue
				}
				if !isNamed(in.TypeOf(unparen(l).(*ast.SelectorExpr).X), pathBpmn, "Options") {
					continue
				}
				if id, ok := unparen(as.Rhs[i]).(*ast.Ident); ok {
					if v, ok := in.Uses[id].(*types.Var); ok && !v.IsField() && !isParam(f, v) && !(v.Pos() >= lit.Lit.Pos() && v.Pos() < lit.Lit.End()) {
						switch v.Type().Underlying().(type) {
						case *types.Pointer, *types.Map, *types.Interface, *types.Slice, *types.Chan:
							shared = append(shared, v.Name())
						}
					}
				}
			}
			return true
		})
		c.Check(len(shared) == 0, f, f.Decl, "option "+f.Obj.Name()+" installs per-application state", "an Option closure does not install a reference object created outside the closure (one Option value applied to two instances would make them share it)", ifEmpty(strings.Join(shared, ","), "nothing captured from the constructor is installed")+ifNotEmpty(shared, " created outside the closure and stored into *Options"))
	}
	// NewOptions allocates a fresh locator when none is supplied
	for _, f := range p.Funcs {
		if f.Name != "NewOptions" || f.Pkg.PkgPath != pathBpmn {
			continue
		}
		in := info(f)
		okNew := false
		inspectNoLit(f.Body, func(m ast.Node) bool {
			as, ok := m.(*ast.AssignStmt)
			if !ok || len(as.Lhs) != 1 || len(as.Rhs) != 1 {
				return true
			}
			if fieldName(in, as.Lhs[0]) != "Options.locator" {
				return true
			}
			if call, ok := unparen(as.Rhs[0]).(*ast.CallExpr); ok {
				if fn := callee(in, call); fn != nil && isConstructorFunc(p, p.byObj[fn]) {
					guard := enclosingIfWhere(p, as, f.Body, func(cond ast.Expr, inThen bool) bool {
						be, ok := unparen(cond).(*ast.BinaryExpr)
						return ok && inThen && be.Op == token.EQL && isNilIdent(be.Y) && fieldName(in, be.X) == "Options.locator"
					})
					okNew = guard != nil
				}
			}
			return true
		})
		c.Check(okNew, f, f.Decl, "fresh locator per instance", "when no locator is supplied NewOptions allocates a new one (variables of different instances are isolated)", fmt.Sprintf("`if options.locator == nil { options.locator = <constructor>() }` found: %v", okNew))
	}
}

// ---- R46 ----

func ruleR46(c *Ctx) {
	p := c.P
	for _, f := range p.Funcs {
		if f.Name != "(*ProcessSet).run" {
			continue
		}
		in := info(f)
		g := p.Graph(f)
		var pts []Point
		for _, pt := range g.AllPoints() {
			if _, ok := nodeSendsTraceDirect(in, pt.Node(), "CeaseProcessSetTrace"); ok {
				pts = append(pts, pt)
			}
		}
		c.Check(len(pts) == 1, f, f.Decl, "single Send(CeaseProcessSetTrace)", "the process set announces its end at exactly one site", fmt.Sprintf("%d send sites", len(pts)))
		if len(pts) == 1 {
			// followed by return on all paths, without another send
			r, _ := g.Reaches(pts[0], func(n ast.Node) bool { _, s := nodeSendsTrace(in, n); return s }, nil)
			bad := g.MustPassBeforeExit(pts[0], false, func(n ast.Node) bool { _, ok := n.(*ast.ReturnStmt); return ok })
			loopsBack, _ := g.Reaches(pts[0], func(n ast.Node) bool { return n == pts[0].Node() }, nil)
			c.Check(!r && len(bad) == 0 && !loopsBack, f, pts[0].Node(), "cease-process-set is final", "after the cease-process-set trace the set's loop returns: the trace is emitted exactly once and nothing follows it", fmt.Sprintf("further send reachable=%v, can loop back=%v", r, loopsBack))
			// guarded by the closed-only done channel
			okDone := false
			if cc := innermostCommClause(p, pts[0].Node()); cc != nil && cc.Comm != nil && isDoneComm(p, f, cc.Comm) {
				okDone = true
			}
			c.Check(okDone, f, pts[0].Node(), "cease-process-set after all watchers finished", "the cease-process-set trace is sent in the clause that observed `done` closed (closed only after the watchers' wait group drained)", fmt.Sprintf("inside a done-source clause: %v", okDone))
		}
		// one instantiation per throw message: NewProcess and StartWith not inside a loop within the message clause
		for _, cl := range typeSwitches(p, isIMessage) {
			if cl.Func != f || len(cl.Types) != 1 || !strings.Contains(typeString(cl.Types[0]), "throwMessage") {
				continue
			}
			nNew, inLoop := 0, false
			var count func(n ast.Node, fin *types.Info, stop ast.Node, d int)
			count = func(n ast.Node, fin *types.Info, stop ast.Node, d int) {
				inspectNoLit(n, func(z ast.Node) bool {
					call, ok := z.(*ast.CallExpr)
					if !ok || callee(fin, call) == nil {
						return true
					}
					looped := false
					for cur := p.Parent(call); cur != nil && cur != stop; cur = p.Parent(cur) {
						switch cur.(type) {
						case *ast.ForStmt, *ast.RangeStmt:
							looped = true
						case *ast.FuncDecl:
							cur = nil
						}
						if cur == nil {
							break
						}
					}
					if callee(fin, call).Name() == "NewProcess" || callee(fin, call).Name() == "StartWith" {
						nNew++
						if looped {
							inLoop = true
						}
						return true
					}
					// a helper of the same type that does the instantiation (extracted method)
					if cf := p.byObj[callee(fin, call)]; cf != nil && cf.Pkg == f.Pkg && cf.Body != nil && d < 2 && recvNamed(cf.Obj) != nil && recvNamed(cf.Obj) == recvNamed(f.Obj) {
						before := nNew
						count(cf.Body, info(cf), cf.Body, d+1)
						if nNew > before && looped {
							inLoop = true
						}
					}
					return true
				})
			}
			for _, st := range cl.Clause.Body {
				count(st, in, cl.Clause, 0)
			}
			c.Check(nNew == 2 && !inLoop, f, cl.Clause, "one instantiation per throw message", "handling one throw message creates and starts the waiting process once (one NewProcess and one StartWith, not in a loop)", fmt.Sprintf("NewProcess/StartWith calls: %d, inside a loop: %v", nNew, inLoop))
		}
	}
}

// ---- R47 ----

func init() {
	register(&Rule{ID: "R47", Title: "partition-bounds: the slices a join hands to its parked tokens have bounds established by dominating comparisons", Min: 1, Run: ruleR47})
}

type boundTerm struct {
	kind string // "id", "len", "const"
	obj  types.Object
	val  string
}

func (t boundTerm) String() string {
	switch t.kind {
	case "len":
		return "len(" + t.obj.Name() + ")"
	case "id":
		return t.obj.Name()
	}
	return t.val
}

func termOf(in *types.Info, e ast.Expr) (boundTerm, bool) {
	e = unparen(e)
	if tv, ok := in.Types[e]; ok && tv.Value != nil {
		return boundTerm{kind: "const", val: tv.Value.ExactString()}, true
	}
	switch x := e.(type) {
	case *ast.Ident:
		if o := objOf(in, x); o != nil {
			return boundTerm{kind: "id", obj: o}, true
		}
	case *ast.CallExpr:
		if isBuiltin(in, x, "len") && len(x.Args) == 1 {
			if id, ok := unparen(x.Args[0]).(*ast.Ident); ok {
				if o := objOf(in, id); o != nil {
					return boundTerm{kind: "len", obj: o}, true
				}
			}
		}
	}
	return boundTerm{}, false
}

type boundFact struct {
	a   boundTerm
	rel string // "<", "<=", "=="
	b   boundTerm
	at  token.Pos // position of the condition the fact comes from
}

// factsOf decomposes cond (taken as true when pos, as false otherwise).
func factsOf(in *types.Info, cond ast.Expr, pos bool, out *[]boundFact) {
	cond = unparen(cond)
	if u, ok := cond.(*ast.UnaryExpr); ok && u.Op == token.NOT {
		factsOf(in, u.X, !pos, out)
		return
	}
	be, ok := cond.(*ast.BinaryExpr)
	if !ok {
		return
	}
	switch be.Op {
	case token.LAND:
		if pos {
			factsOf(in, be.X, true, out)
			factsOf(in, be.Y, true, out)
		}
		return
	case token.LOR:
		if !pos {
			factsOf(in, be.X, false, out)
			factsOf(in, be.Y, false, out)
		}
		return
	}
	a, ok1 := termOf(in, be.X)
	b, ok2 := termOf(in, be.Y)
	if !ok1 || !ok2 {
		return
	}
	op := be.Op
	if !pos {
		switch op {
		case token.LSS:
			op = token.GEQ
		case token.LEQ:
			op = token.GTR
		case token.GTR:
			op = token.LEQ
		case token.GEQ:
			op = token.LSS
		case token.EQL:
			return
		case token.NEQ:
			op = token.EQL
		}
	}
	at := cond.End()
	switch op {
	case token.LSS:
		*out = append(*out, boundFact{a, "<", b, at})
	case token.LEQ:
		*out = append(*out, boundFact{a, "<=", b, at})
	case token.GTR:
		*out = append(*out, boundFact{b, "<", a, at})
	case token.GEQ:
		*out = append(*out, boundFact{b, "<=", a, at})
	case token.EQL:
		*out = append(*out, boundFact{a, "==", b, at}, boundFact{b, "==", a, at})
	}
}

func sameTerm(x, y boundTerm) bool {
	return x.kind == y.kind && x.obj == y.obj && x.val == y.val
}

func ruleR47(c *Ctx) {
	p := c.P
	for _, f := range p.Funcs {
		if f.Pkg.PkgPath != pathBpmn {
			continue
		}
		in := info(f)
		distributes := false
		for _, pl := range parkedLoops(p) {
			if pl.F == f {
				distributes = true
			}
		}
		if !distributes {
			continue
		}
		inspectNoLit(f.Body, func(m ast.Node) bool {
			se, ok := m.(*ast.SliceExpr)
			if !ok || se.Low == nil || se.High == nil {
				return true
			}
			base, okb := unparen(se.X).(*ast.Ident)
			lo, ok1 := termOf(in, se.Low)
			hi, ok2 := termOf(in, se.High)
			if !okb || !ok1 || !ok2 {
				c.Ok(f, se, "slice bounds (compound operands)", "bounds with arithmetic operands are not decided by this rule", exprStringShort(se), false)
				return true
			}
			var facts []boundFact
			for cur := p.Parent(se); cur != nil && cur != ast.Node(f.Body); cur = p.Parent(cur) {
				ifs, ok := cur.(*ast.IfStmt)
				if !ok {
					continue
				}
				if se.Pos() >= ifs.Body.Pos() && se.End() <= ifs.Body.End() {
					factsOf(in, ifs.Cond, true, &facts)
				} else if ifs.Else != nil && se.Pos() >= ifs.Else.Pos() && se.End() <= ifs.Else.End() {
					factsOf(in, ifs.Cond, false, &facts)
				}
			}
			// a tagless switch is an if / else-if chain: the clause's own condition holds, those of the clauses
			// before it do not (for `default`: none of the others does)
			for cur := p.Parent(se); cur != nil && cur != ast.Node(f.Body); cur = p.Parent(cur) {
				cc, ok := cur.(*ast.CaseClause)
				if !ok {
					continue
				}
				blk, _ := p.Parent(cc).(*ast.BlockStmt)
				if blk == nil {
					continue
				}
				sw, _ := p.Parent(blk).(*ast.SwitchStmt)
				if sw == nil || sw.Tag != nil {
					continue
				}
				for _, st := range blk.List {
					oc := st.(*ast.CaseClause)
					if oc == cc {
						if len(cc.List) == 1 {
							factsOf(in, cc.List[0], true, &facts)
						}
						if cc.List != nil {
							break
						}
						continue
					}
					if cc.List != nil && oc.Pos() > cc.Pos() {
						break
					}
					for _, e := range oc.List {
						factsOf(in, e, false, &facts)
					}
				}
			}
			// guard clauses: earlier sibling `if cond { ...; continue|return|break }` statements in any
			// enclosing statement list contribute the negation of their condition
			var child ast.Node = se
			for cur := p.Parent(se); cur != nil && cur != ast.Node(f.Body).(ast.Node); cur = p.Parent(cur) {
				var list []ast.Stmt
				switch x := cur.(type) {
				case *ast.BlockStmt:
					list = x.List
				case *ast.CaseClause:
					list = x.Body
				case *ast.CommClause:
					list = x.Body
				}
				for _, st := range list {
					if st.End() > child.Pos() {
						break
					}
					g, ok := st.(*ast.IfStmt)
					if !ok || g.Else != nil || len(g.Body.List) == 0 {
						continue
					}
					switch g.Body.List[len(g.Body.List)-1].(type) {
					case *ast.BranchStmt, *ast.ReturnStmt:
						factsOf(in, g.Cond, false, &facts)
					}
				}
				child = cur
				if _, isFn := cur.(*ast.FuncLit); isFn {
					break
				}
			}
			// facts about a variable are void if it is assigned between the fact and the use; the
			// conservative test: every variable in a used fact has no assignment inside the innermost
			// enclosing loop body after the fact's position (checked by position order below)
			// drop facts about variables that are assigned between the condition and the slice
			assignedBetween := func(o types.Object, from, to token.Pos) bool {
				hit := false
				inspectNoLit(f.Body, func(z ast.Node) bool {
					switch x := z.(type) {
					case *ast.AssignStmt:
						if x.Pos() > from && x.Pos() < to {
							for _, l := range x.Lhs {
								if id, ok := unparen(l).(*ast.Ident); ok && objOf(in, id) == o {
									hit = true
								}
							}
						}
					case *ast.IncDecStmt:
						if x.Pos() > from && x.Pos() < to {
							if id, ok := unparen(x.X).(*ast.Ident); ok && objOf(in, id) == o {
								hit = true
							}
						}
					}
					return true
				})
				return hit
			}
			var live []boundFact
			for _, ft := range facts {
				stale := false
				for _, tm := range []boundTerm{ft.a, ft.b} {
					if tm.kind == "id" && assignedBetween(tm.obj, ft.at, se.Pos()) {
						stale = true
					}
				}
				if !stale {
					live = append(live, ft)
				}
			}
			facts = live
			has := func(a boundTerm, b boundTerm, strictOK bool) bool {
				for _, ft := range facts {
					if sameTerm(ft.a, a) && sameTerm(ft.b, b) && (ft.rel == "<=" || ft.rel == "==" || (strictOK && ft.rel == "<")) {
						return true
					}
				}
				return false
			}
			lenBase := boundTerm{kind: "len", obj: objOf(in, base)}
			o1 := has(lo, hi, true) || (lo.kind == "const" && lo.val == "0")
			o2 := has(hi, lenBase, true)
			var fs []string
			for _, ft := range facts {
				fs = append(fs, ft.a.String()+ft.rel+ft.b.String())
			}
			c.Check(o1 && o2, f, se, "slice bounds of "+base.Name+"["+lo.String()+":"+hi.String()+"]", "the partition slice handed to a parked token has its bounds established by the enclosing comparisons: low <= high and high <= len (otherwise some number of arrivals and outgoing flows panics the gateway goroutine)", fmt.Sprintf("facts on the path: %v; low<=high proven: %v; high<=len proven: %v", fs, o1, o2))
			return true
		})
	}
}

// ---- R51 ----

func init() {
	register(&Rule{ID: "R51", Title: "live-parameter: a flag parameter that callers compute is read by the function (a dropped special case leaves it dead)", Min: 3, Run: ruleR51})
}

func ruleR51(c *Ctx) {
	p := c.P
	for _, f := range p.Funcs {
		if f.Decl == nil || !inEngineScope(f) {
			continue
		}
		in := info(f)
		for _, fl := range f.Type().Params.List {
			for _, nm := range fl.Names {
				if nm.Name == "_" {
					continue
				}
				v, ok := in.Defs[nm].(*types.Var)
				if !ok {
					continue
				}
				b, ok := v.Type().Underlying().(*types.Basic)
				if !ok || b.Kind() != types.Bool {
					continue
				}
				used := false
				ast.Inspect(f.Body, func(m ast.Node) bool {
					if id, ok := m.(*ast.Ident); ok && in.Uses[id] == types.Object(v) {
						used = true
					}
					return !used
				})
				c.Check(used, f, nm, "flag parameter "+nm.Name, "a boolean parameter that callers compute is read by the function: an unread flag means the special case it stands for was dropped while every caller still asks for it", fmt.Sprintf("read in the body: %v", used))
			}
		}
	}
}

// elemLoop is a loop that visits every element of a collection: a range
// statement, or `for i := 0; i < len(x); i++` whose index is not written in the body.
type elemLoop struct {
	Stmt ast.Stmt
	Body *ast.BlockStmt
}

func elementLoop(in *types.Info, n ast.Node) (elemLoop, bool) {
	switch x := n.(type) {
	case *ast.RangeStmt:
		return elemLoop{x, x.Body}, true
	case *ast.ForStmt:
		init, ok := x.Init.(*ast.AssignStmt)
		if !ok || len(init.Lhs) != 1 || len(init.Rhs) != 1 {
			return elemLoop{}, false
		}
		id, ok := init.Lhs[0].(*ast.Ident)
		lit, ok2 := unparen(init.Rhs[0]).(*ast.BasicLit)
		if !ok || !ok2 || lit.Value != "0" {
			return elemLoop{}, false
		}
		iv := objOf(in, id)
		cond, ok := unparen(x.Cond).(*ast.BinaryExpr)
		if !ok || cond.Op != token.LSS {
			return elemLoop{}, false
		}
		if cid, ok := unparen(cond.X).(*ast.Ident); !ok || objOf(in, cid) != iv {
			return elemLoop{}, false
		}
		if call, ok := unparen(cond.Y).(*ast.CallExpr); !ok || !isBuiltin(in, call, "len") {
			return elemLoop{}, false
		}
		post, ok := x.Post.(*ast.IncDecStmt)
		if !ok || post.Tok != token.INC {
			return elemLoop{}, false
		}
		if pid, ok := unparen(post.X).(*ast.Ident); !ok || objOf(in, pid) != iv {
			return elemLoop{}, false
		}
		written := false
		inspectNoLit(x.Body, func(z ast.Node) bool {
			switch y := z.(type) {
			case *ast.AssignStmt:
				for _, l := range y.Lhs {
					if lid, ok := unparen(l).(*ast.Ident); ok && objOf(in, lid) == iv {
						written = true
					}
				}
			case *ast.IncDecStmt:
				if lid, ok := unparen(y.X).(*ast.Ident); ok && objOf(in, lid) == iv {
					written = true
				}
			}
			return true
		})
		if written {
			return elemLoop{}, false
		}
		return elemLoop{x, x.Body}, true
	}
	return elemLoop{}, false
}
