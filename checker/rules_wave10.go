package main

// Round 10 (held-out wave 10): R224–R230.

import (
	"fmt"
	"go/ast"
	"go/token"
	"go/types"
	"strings"
)

func init() {
	register(&Rule{ID: "R224", Title: "what concerns a token is reported per token: no trace is sent from inside a sync.Once.Do in a node's loop (the second token that meets the same condition would leave no trace at all)", Min: 0, Run: ruleR224})
	register(&Rule{ID: "R225", Title: "a withdrawal never waits for the loser: every channel an event-based gateway stores in its table of withdrawal channels is made with capacity >= 1", Min: 1, Run: ruleR225})
	register(&Rule{ID: "R226", Title: "a start event fires once: where the loop of a start or throw event starts a flow on an event it was handed, the start is controlled by the node's not-yet-activated test", Min: 2, Run: ruleR226})
	register(&Rule{ID: "R227", Title: "a node has one loop: the launch of a node's run loop from NextAction / Trigger is inside sync.Once.Do or under a CompareAndSwap (a Load-then-launch lets two tokens that arrive together start two loops with separate state)", Min: 10, Run: ruleR227})
	register(&Rule{ID: "R228", Title: "one failing condition does not hide the others: the loop that evaluates the conditions of a probe has no return or break (a condition that fails to evaluate is reported and the next one is tried)", Min: 1, Run: ruleR228})
	register(&Rule{ID: "R229", Title: "every notification of the tracker re-evaluates the join: in the inclusive gateway's clause for the tracker's notification the call that re-checks the synchronisation is not conditional on the list of parked tokens", Min: 1, Run: ruleR229})
	register(&Rule{ID: "R230", Title: "what the worker answered is what is applied: the values handed to ApplyTaskDataOutput / ApplyTaskResult are the fields of the received answer themselves, not a converted copy", Min: 2, Run: ruleR230})
}

func ruleR224(c *Ctx) {
	p := c.P
	what := "the error 'no condition holds and there is no default flow' is raised for the token that met it; that token takes no flow and the trace is all an observer ever sees of it. Raised 'once per gateway', the second and every later token that meets the same situation is parked without a trace"
	for _, f := range p.Funcs {
		if f.Body == nil || f.Pkg.PkgPath != pathBpmn || f.Lit == nil || f.Parent == nil {
			continue
		}
		cl, ok := p.Parent(f.Lit).(*ast.CallExpr)
		if !ok || !isSyncMethod(info(f.Parent), cl, "Once", "Do") {
			continue
		}
		// only inside loops of long-lived goroutines (a node's run): the launch of the loop itself (go x.run) under
		// Once is the normal idiom and sends nothing
		in := info(f)
		inspectNoLit(f.Body, func(m ast.Node) bool {
			if c2, ok := m.(*ast.CallExpr); ok && isTracerMethod(in, c2, "Send") {
				if innermostLoop(p, cl) != nil {
					c.Bad(f, c2, "trace sent under sync.Once in "+f.Root().QName(), what, "the send runs once per object, the situation occurs once per token")
				}
			}
			return true
		})
	}
}

func ruleR225(c *Ctx) {
	p := c.P
	what := "a losing alternative whose event arrived at nearly the same time has lost the compare-and-swap, completed and left its select: it never reads its withdrawal channel. A winner that hands the withdrawal over synchronously (even in a select with the context) waits for it for the rest of the instance's life — the instance never completes"
	n := 0
	for _, f := range p.Funcs {
		if f.Body == nil || f.Pkg.PkgPath != pathBpmn {
			continue
		}
		r := f.Root()
		if r.Obj == nil || recvNamed(r.Obj) == nil || recvNamed(r.Obj).Obj().Name() != "eventBasedGateway" {
			continue
		}
		in := info(f)
		inspectNoLit(f.Body, func(m ast.Node) bool {
			as, ok := m.(*ast.AssignStmt)
			if !ok || len(as.Lhs) != 1 || len(as.Rhs) != 1 {
				return true
			}
			ix, ok := unparen(as.Lhs[0]).(*ast.IndexExpr)
			if !ok {
				return true
			}
			mp, isMap := in.TypeOf(ix.X).Underlying().(*types.Map)
			if !isMap {
				return true
			}
			if et, isCh := chanElem(mp.Elem()); !isCh || et != types.Typ[types.Bool] {
				return true
			}
			n++
			srcs := resolveLocalExpr(in, f, as.Rhs[0])
			capOK := len(srcs) > 0
			for _, src := range srcs {
				cl, isCall := unparen(src).(*ast.CallExpr)
				if !isCall {
					capOK = false
					continue
				}
				if isMk, cc := makeChanCap(in, cl); !isMk || cc != ">=1" {
					capOK = false
				}
			}
			c.Check(capOK, f, as, "withdrawal channel stored in "+exprString(ix.X), what, ifElse(capOK, "made with capacity >= 1", "not made with a capacity: "+exprString(as.Rhs[0])))
			return true
		})
	}
	if n == 0 {
		c.Missing("withdrawal channels", "no store of a chan bool into a table of the event-based gateway was found")
	}
}

func ruleR226(c *Ctx) {
	p := c.P
	what := "an event handed to a start event that has fired already starts nothing. Without the test, a redelivered event starts a second short-lived token at the start event; it ends with a TerminationTrace whose source is the start event, which the completion monitor counts as one more start event that fired — completion is reported while another start event is still pending"
	n := 0
	isEventMsg := func(t types.Type) bool { return isNamed(t, pathBpmn, "eventMessage") }
	for _, f := range p.Funcs {
		if f.Body == nil || f.Pkg.PkgPath != pathBpmn {
			continue
		}
		in := info(f)
		for _, d := range typeDispatches(p, f, isIMessage) {
			for _, a := range d {
				if len(a.Types) != 1 || !isEventMsg(a.Types[0]) {
					continue
				}
				for _, st := range a.Body {
					inspectNoLit(st, func(m ast.Node) bool {
						cl, ok := m.(*ast.CallExpr)
						if !ok {
							return true
						}
						cf := p.byObj[callee(in, cl)]
						if cf == nil || cf.Pkg != f.Pkg || !reachesCallee(p, cf, func(fn *types.Func) bool { return fn.Name() == "newFlow" }, 1, map[*FuncInfo]bool{}) {
							return true
						}
						n++
						guarded := false
						for _, pc := range polarConds(p, cl) {
							if mentionsDeep(pc.cond, func(z ast.Node) bool {
								se, ok := z.(*ast.SelectorExpr)
								return ok && fieldOf(in, se) != nil && strings.Contains(strings.ToLower(fieldOf(in, se).Name()), "activated")
							}) {
								guarded = true
							}
						}
						c.Check(guarded, f, cl, "flow started on an event in "+f.QName(), what, ifElse(guarded, "controlled by the node's activated flag", "not controlled by the node's activated flag"))
						return true
					})
				}
			}
		}
	}
	if n == 0 {
		c.Missing("event-started flows", "no handler of eventMessage that starts a flow was found")
	}
}

func ruleR227(c *Ctx) {
	p := c.P
	what := "two tokens that reach an unvisited node at the same moment both run NextAction. `if !started.Load() { go run() }` lets both start a loop; each loop has its own counters and parked tokens, the arrivals are split between them, and a join that needs both never fires"
	n := 0
	for _, f := range p.Funcs {
		if f.Body == nil || f.Pkg.PkgPath != pathBpmn {
			continue
		}
		r := f.Root()
		if r.Obj == nil || recvNamed(r.Obj) == nil {
			continue
		}
		switch r.Obj.Name() {
		case "NextAction", "Trigger":
		default:
			continue
		}
		in := info(f)
		inspectNoLit(f.Body, func(m ast.Node) bool {
			gs, ok := m.(*ast.GoStmt)
			if !ok {
				return true
			}
			fn := callee(in, gs.Call)
			if fn == nil || fn.Name() != "run" || recvNamed(fn) != recvNamed(r.Obj) {
				return true
			}
			n++
			once := ""
			for cur := f; cur != nil && cur.Lit != nil; cur = cur.Parent {
				if pc, ok := p.Parent(cur.Lit).(*ast.CallExpr); ok && cur.Parent != nil && isSyncMethod(info(cur.Parent), pc, "Once", "Do") {
					once = "inside sync.Once.Do"
				}
			}
			if once == "" {
				for _, pc := range polarConds(p, gs) {
					if pc.positive && mentionsDeep(pc.cond, func(z ast.Node) bool {
						c2, ok := z.(*ast.CallExpr)
						if !ok {
							return false
						}
						se, ok := unparen(c2.Fun).(*ast.SelectorExpr)
						return ok && strings.HasPrefix(se.Sel.Name, "CompareAndSwap")
					}) {
						once = "under " + exprString(pc.cond)
					}
				}
			}
			c.Check(once != "", f, gs, "launch of the loop of "+recvNamed(r.Obj).Obj().Name(), what, ifElse(once != "", once, "neither under sync.Once nor under a compare-and-swap"))
			return true
		})
	}
	if n == 0 {
		c.Missing("loop launches", "no launch of a node's run loop from NextAction / Trigger was found")
	}
}

func ruleR228(c *Ctx) {
	p := c.P
	what := "the gateway takes the first flow whose condition holds. A condition that cannot be evaluated (a variable not set yet) is reported and counts as not true — the conditions after it are still evaluated. A probe that gives up at the first error never looks at the flow that really is true: the token takes the default flow, or none"
	n := 0
	for _, f := range p.Funcs {
		if f.Body == nil || f.Pkg.PkgPath != pathBpmn {
			continue
		}
		in := info(f)
		inspectNoLit(f.Body, func(m ast.Node) bool {
			var body *ast.BlockStmt
			switch x := m.(type) {
			case *ast.RangeStmt:
				body = x.Body
			case *ast.ForStmt:
				body = x.Body
			}
			if body == nil {
				return true
			}
			// the loop evaluates conditions and collects indices
			evaluates, collects := false, false
			inspectNoLit(body, func(z ast.Node) bool {
				if cl, ok := z.(*ast.CallExpr); ok && innermostLoop(p, cl) == m {
					if cf := p.byObj[callee(in, cl)]; cf != nil && reachesCallee(p, cf, isConditionEvaluator, 2, map[*FuncInfo]bool{}) {
						evaluates = true
					}
					if isBuiltin(in, cl, "append") {
						if t := in.TypeOf(cl); t != nil {
							if sl, ok := t.Underlying().(*types.Slice); ok && sl.Elem() == types.Typ[types.Int] {
								collects = true
							}
						}
					}
				}
				return true
			})
			if !evaluates || !collects {
				return true
			}
			n++
			var leaves ast.Node
			inspectNoLit(body, func(z ast.Node) bool {
				switch x := z.(type) {
				case *ast.ReturnStmt:
					leaves = x
				case *ast.BranchStmt:
					if (x.Tok == token.BREAK && innermostLoop(p, x) == m && x.Label == nil) || (x.Tok == token.BREAK && x.Label != nil) || x.Tok == token.GOTO {
						leaves = x
					}
				}
				return true
			})
			wit := "the loop runs over every candidate flow"
			if leaves != nil {
				wit = "the loop is left at " + c.pos(leaves)
			}
			c.Check(leaves == nil, f, m, "probe loop in "+f.QName(), what, wit)
			return true
		})
	}
	if n == 0 {
		c.Missing("probe loops", "no loop that evaluates conditions and collects the indices of those that hold was found")
	}
}

func ruleR229(c *Ctx) {
	p := c.P
	what := "the join re-reads its cohort whenever the tracker says that tokens were created or ended. When only the activating token waits at the join (nothing is parked yet) and the other tokens of the fork end elsewhere, those notifications are the only thing that can release it; ignored 'because the gateway holds nothing back', the token waits for ever"
	n := 0
	for _, f := range p.Funcs {
		if f.Body == nil || f.Pkg.PkgPath != pathBpmn {
			continue
		}
		r := f.Root()
		if r.Obj == nil || recvNamed(r.Obj) == nil || recvNamed(r.Obj).Obj().Name() != "inclusiveGateway" {
			continue
		}
		in := info(f)
		inspectNoLit(f.Body, func(m ast.Node) bool {
			cc, ok := m.(*ast.CommClause)
			if !ok || cc.Comm == nil {
				return true
			}
			// the clause that receives struct{} notifications (the tracker's activity channel)
			var rx ast.Expr
			if es, ok := cc.Comm.(*ast.ExprStmt); ok {
				if u, ok := es.X.(*ast.UnaryExpr); ok && u.Op == token.ARROW {
					rx = u.X
				}
			}
			if rx == nil || isCtxDoneCall(in, rx) {
				return true
			}
			et, isCh := chanElem(in.TypeOf(rx))
			if !isCh {
				return true
			}
			if st, ok := et.Underlying().(*types.Struct); !ok || st.NumFields() != 0 {
				return true
			}
			for _, st := range cc.Body {
				inspectNoLit(st, func(z ast.Node) bool {
					cl, ok := z.(*ast.CallExpr)
					if !ok {
						return true
					}
					fn := callee(in, cl)
					if fn == nil || recvNamed(fn) != recvNamed(r.Obj) {
						return true
					}
					n++
					var bad []string
					for _, pc := range polarConds(p, cl) {
						if !regionOfStmts(cc.Body).Contains(pc.cond) {
							continue
						}
						if mentionsDeep(pc.cond, func(y ast.Node) bool {
							se, ok := y.(*ast.SelectorExpr)
							if !ok {
								return false
							}
							fv := fieldOf(in, se)
							if fv == nil {
								return false
							}
							_, isSl := fv.Type().Underlying().(*types.Slice)
							return isSl
						}) {
							bad = append(bad, exprString(pc.cond))
						}
					}
					c.Check(len(bad) == 0, f, cl, "re-evaluation "+exprString(cl.Fun)+" on a tracker notification", what, ifElse(len(bad) == 0, "not conditional on a list of parked tokens", fmt.Sprintf("conditional on %v", bad)))
					return true
				})
			}
			return true
		})
	}
	if n == 0 {
		c.Missing("tracker notification clause", "no clause of the inclusive gateway that receives the tracker's notification and re-evaluates was found")
	}
}

func ruleR230(c *Ctx) {
	p := c.P
	what := "the item type of a stored value follows the Go type the worker answered with. A copy in which every whole float64 has become an int64 'for workers that decode JSON' stores 2.0 as an integer: it reads back as int64, and a later property declared float that refers to it comes out empty"
	n := 0
	for _, f := range p.Funcs {
		if f.Body == nil || f.Pkg.PkgPath != pathBpmn {
			continue
		}
		in := info(f)
		inspectNoLit(f.Body, func(m ast.Node) bool {
			cl, ok := m.(*ast.CallExpr)
			if !ok || len(cl.Args) != 2 {
				return true
			}
			fn := callee(in, cl)
			if fn == nil || fn.Pkg() == nil || fn.Pkg().Path() != pathBpmn || !strings.HasPrefix(fn.Name(), "ApplyTask") {
				return true
			}
			n++
			srcs := resolveLocalExpr(in, f, cl.Args[1])
			verbatim := len(srcs) > 0
			for _, src := range srcs {
				ok := fieldOf(in, src) != nil
				if id, isId := unparen(src).(*ast.Ident); isId {
					if v, isV := objOf(in, id).(*types.Var); isV && isParam(f.Root(), v) {
						ok = true
					}
				}
				if !ok {
					verbatim = false
				}
			}
			c.Check(verbatim, f, cl, "values handed to "+fn.Name(), what, ifElse(verbatim, exprString(cl.Args[1])+": the answer's own field", exprString(cl.Args[1])+" is not a field of the answer"))
			return true
		})
	}
	if n == 0 {
		c.Missing("answer application", "no call of ApplyTaskDataOutput / ApplyTaskResult was found")
	}
}

// resolveLocalExpr returns the expressions a value may come from: the expression itself, or, for a local variable
// of the function (or of an enclosing one), everything assigned to it.
func resolveLocalExpr(in *types.Info, f *FuncInfo, e ast.Expr) []ast.Expr {
	id, ok := unparen(e).(*ast.Ident)
	if !ok {
		return []ast.Expr{e}
	}
	v, ok := objOf(in, id).(*types.Var)
	if !ok || v.IsField() || isParam(f.Root(), v) || v.Parent() == v.Pkg().Scope() {
		return []ast.Expr{e}
	}
	defs, _ := localDefs(in, f.Root().Body, v)
	if len(defs) == 0 {
		return []ast.Expr{e}
	}
	return defs
}
