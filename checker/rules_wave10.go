package main

// Round 10 (held-out wave 10): R224–R230.

import (
	"fmt"
	"go/ast"
	"go/token"
	"go/types"
	"sort"
	"strings"
)

func init() {
	register(&Rule{ID: "R224", Title: "what concerns a token is reported per token: no trace is sent from inside a sync.Once.Do in a node's loop (the second token that meets the same condition would leave no trace at all)", Min: 0, Run: ruleR224})
	register(&Rule{ID: "R225", Title: "a withdrawal never waits for the loser: every channel an event-based gateway stores in its table of withdrawal channels is made with capacity >= 1", Min: 1, Run: ruleR225})
	register(&Rule{ID: "R226", Title: "a start event fires once: where the loop of a start or throw event starts a flow on an event it was handed, the start is controlled by the node's not-yet-activated test", Min: 2, Run: ruleR226})
	register(&Rule{ID: "R227", Title: "a node has one loop: the launch of a node's run loop from NextAction / Trigger is inside sync.Once.Do or under a CompareAndSwap (a Load-then-launch lets two tokens that arrive together start two loops with separate state)", Min: 10, Run: ruleR227})
	register(&Rule{ID: "R228", Title: "one failing condition does not hide the others: the loop that evaluates the conditions of a probe has no return or break (a condition that fails to evaluate is reported and the next one is tried)", Min: 1, Run: ruleR228})
	register(&Rule{ID: "R229", Title: "every notification of the tracker re-evaluates the join: in the inclusive gateway's clause for the tracker's notification the call that re-checks the synchronisation is not conditional on the list of parked tokens", Min: 1, Run: ruleR229})
	register(&Rule{ID: "R230", Title: "what the worker answered is what is applied: the values handed to ApplyTaskDataOutput / ApplyTaskResult are the fields of the received answer themselves, not a converted copy", Min: 2, Run: ruleR230})
}

func ruleR224(c *Ctx) {
	p := c.P
	what := "the error 'no condition holds and there is no default flow' is raised for the token that met it; that token takes no flow and the trace is all an observer ever sees of it. Raised 'once per gateway', the second and every later token that meets the same situation is parked without a trace"
	for _, f := range p.Funcs {
		if f.Body == nil || f.Pkg.PkgPath != pathBpmn || f.Lit == nil || f.Parent == nil {
			continue
		}
		cl, ok := p.Parent(f.Lit).(*ast.CallExpr)
		if !ok || !isSyncMethod(info(f.Parent), cl, "Once", "Do") {
			continue
		}
		// only inside loops of long-lived goroutines (a node's run): the launch of the loop itself (go x.run) under
		// Once is the normal idiom and sends nothing
		in := info(f)
		inspectNoLit(f.Body, func(m ast.Node) bool {
			if c2, ok := m.(*ast.CallExpr); ok && isTracerMethod(in, c2, "Send") {
				if innermostLoop(p, cl) != nil {
					c.Bad(f, c2, "trace sent under sync.Once in "+f.Root().QName(), what, "the send runs once per object, the situation occurs once per token")
				}
			}
			return true
		})
	}
}

func ruleR225(c *Ctx) {
	p := c.P
	what := "a losing alternative whose event arrived at nearly the same time has lost the compare-and-swap, completed and left its select: it never reads its withdrawal channel. A winner that hands the withdrawal over synchronously (even in a select with the context) waits for it for the rest of the instance's life — the instance never completes"
	n := 0
	for _, f := range p.Funcs {
		if f.Body == nil || f.Pkg.PkgPath != pathBpmn {
			continue
		}
		r := f.Root()
		if r.Obj == nil || recvNamed(r.Obj) == nil || recvNamed(r.Obj).Obj().Name() != "eventBasedGateway" {
			continue
		}
		in := info(f)
		inspectNoLit(f.Body, func(m ast.Node) bool {
			as, ok := m.(*ast.AssignStmt)
			if !ok || len(as.Lhs) != 1 || len(as.Rhs) != 1 {
				return true
			}
			ix, ok := unparen(as.Lhs[0]).(*ast.IndexExpr)
			if !ok {
				return true
			}
			mp, isMap := in.TypeOf(ix.X).Underlying().(*types.Map)
			if !isMap {
				return true
			}
			if et, isCh := chanElem(mp.Elem()); !isCh || et != types.Typ[types.Bool] {
				return true
			}
			n++
			srcs := resolveLocalExpr(in, f, as.Rhs[0])
			capOK := len(srcs) > 0
			for _, src := range srcs {
				cl, isCall := unparen(src).(*ast.CallExpr)
				if !isCall {
					capOK = false
					continue
				}
				if isMk, cc := makeChanCap(in, cl); !isMk || cc != ">=1" {
					capOK = false
				}
			}
			c.Check(capOK, f, as, "withdrawal channel stored in "+exprString(ix.X), what, ifElse(capOK, "made with capacity >= 1", "not made with a capacity: "+exprString(as.Rhs[0])))
			return true
		})
	}
	if n == 0 {
		c.Missing("withdrawal channels", "no store of a chan bool into a table of the event-based gateway was found")
	}
}

func ruleR226(c *Ctx) {
	p := c.P
	what := "an event handed to a start event that has fired already starts nothing. Without the test, a redelivered event starts a second short-lived token at the start event; it ends with a TerminationTrace whose source is the start event, which the completion monitor counts as one more start event that fired — completion is reported while another start event is still pending"
	n := 0
	isEventMsg := func(t types.Type) bool { return isNamed(t, pathBpmn, "eventMessage") }
	for _, f := range p.Funcs {
		if f.Body == nil || f.Pkg.PkgPath != pathBpmn {
			continue
		}
		in := info(f)
		for _, d := range typeDispatches(p, f, isIMessage) {
			for _, a := range d {
				if len(a.Types) != 1 || !isEventMsg(a.Types[0]) {
					continue
				}
				for _, st := range a.Body {
					inspectNoLit(st, func(m ast.Node) bool {
						cl, ok := m.(*ast.CallExpr)
						if !ok {
							return true
						}
						cf := p.byObj[callee(in, cl)]
						if cf == nil || cf.Pkg != f.Pkg || !reachesCallee(p, cf, func(fn *types.Func) bool { return fn.Name() == "newFlow" }, 1, map[*FuncInfo]bool{}) {
							return true
						}
						n++
						guarded := false
						for _, pc := range polarConds(p, cl) {
							if mentionsDeep(pc.cond, func(z ast.Node) bool {
								se, ok := z.(*ast.SelectorExpr)
								return ok && fieldOf(in, se) != nil && strings.Contains(strings.ToLower(fieldOf(in, se).Name()), "activated")
							}) {
								guarded = true
							}
						}
						c.Check(guarded, f, cl, "flow started on an event in "+f.QName(), what, ifElse(guarded, "controlled by the node's activated flag", "not controlled by the node's activated flag"))
						return true
					})
				}
			}
		}
	}
	if n == 0 {
		c.Missing("event-started flows", "no handler of eventMessage that starts a flow was found")
	}
}

func ruleR227(c *Ctx) {
	p := c.P
	what := "two tokens that reach an unvisited node at the same moment both run NextAction. `if !started.Load() { go run() }` lets both start a loop; each loop has its own counters and parked tokens, the arrivals are split between them, and a join that needs both never fires"
	n := 0
	for _, f := range p.Funcs {
		if f.Body == nil || f.Pkg.PkgPath != pathBpmn {
			continue
		}
		r := f.Root()
		if r.Obj == nil || recvNamed(r.Obj) == nil {
			continue
		}
		switch r.Obj.Name() {
		case "NextAction", "Trigger":
		default:
			continue
		}
		in := info(f)
		inspectNoLit(f.Body, func(m ast.Node) bool {
			gs, ok := m.(*ast.GoStmt)
			if !ok {
				return true
			}
			fn := callee(in, gs.Call)
			if fn == nil || fn.Name() != "run" || recvNamed(fn) != recvNamed(r.Obj) {
				return true
			}
			n++
			once := ""
			for cur := f; cur != nil && cur.Lit != nil; cur = cur.Parent {
				if pc, ok := p.Parent(cur.Lit).(*ast.CallExpr); ok && cur.Parent != nil && isSyncMethod(info(cur.Parent), pc, "Once", "Do") {
					once = "inside sync.Once.Do"
				}
			}
			if once == "" {
				for _, pc := range polarConds(p, gs) {
					if pc.positive && mentionsDeep(pc.cond, func(z ast.Node) bool {
						c2, ok := z.(*ast.CallExpr)
						if !ok {
							return false
						}
						se, ok := unparen(c2.Fun).(*ast.SelectorExpr)
						return ok && strings.HasPrefix(se.Sel.Name, "CompareAndSwap")
					}) {
						once = "under " + exprString(pc.cond)
					}
				}
			}
			c.Check(once != "", f, gs, "launch of the loop of "+recvNamed(r.Obj).Obj().Name(), what, ifElse(once != "", once, "neither under sync.Once nor under a compare-and-swap"))
			return true
		})
	}
	if n == 0 {
		c.Missing("loop launches", "no launch of a node's run loop from NextAction / Trigger was found")
	}
}

func ruleR228(c *Ctx) {
	p := c.P
	what := "the gateway takes the first flow whose condition holds. A condition that cannot be evaluated (a variable not set yet) is reported and counts as not true — the conditions after it are still evaluated. A probe that gives up at the first error never looks at the flow that really is true: the token takes the default flow, or none"
	n := 0
	for _, f := range p.Funcs {
		if f.Body == nil || f.Pkg.PkgPath != pathBpmn {
			continue
		}
		in := info(f)
		inspectNoLit(f.Body, func(m ast.Node) bool {
			var body *ast.BlockStmt
			switch x := m.(type) {
			case *ast.RangeStmt:
				body = x.Body
			case *ast.ForStmt:
				body = x.Body
			}
			if body == nil {
				return true
			}
			// the loop evaluates conditions and collects indices
			evaluates, collects := false, false
			inspectNoLit(body, func(z ast.Node) bool {
				if cl, ok := z.(*ast.CallExpr); ok && innermostLoop(p, cl) == m {
					if cf := p.byObj[callee(in, cl)]; cf != nil && reachesCallee(p, cf, isConditionEvaluator, 2, map[*FuncInfo]bool{}) {
						evaluates = true
					}
					if isBuiltin(in, cl, "append") {
						if t := in.TypeOf(cl); t != nil {
							if sl, ok := t.Underlying().(*types.Slice); ok && sl.Elem() == types.Typ[types.Int] {
								collects = true
							}
						}
					}
				}
				return true
			})
			if !evaluates || !collects {
				return true
			}
			n++
			var leaves ast.Node
			inspectNoLit(body, func(z ast.Node) bool {
				switch x := z.(type) {
				case *ast.ReturnStmt:
					leaves = x
				case *ast.BranchStmt:
					if (x.Tok == token.BREAK && innermostLoop(p, x) == m && x.Label == nil) || (x.Tok == token.BREAK && x.Label != nil) || x.Tok == token.GOTO {
						leaves = x
					}
				}
				return true
			})
			wit := "the loop runs over every candidate flow"
			if leaves != nil {
				wit = "the loop is left at " + c.pos(leaves)
			}
			c.Check(leaves == nil, f, m, "probe loop in "+f.QName(), what, wit)
			return true
		})
	}
	if n == 0 {
		c.Missing("probe loops", "no loop that evaluates conditions and collects the indices of those that hold was found")
	}
}

func ruleR229(c *Ctx) {
	p := c.P
	what := "the join re-reads its cohort whenever the tracker says that tokens were created or ended. When only the activating token waits at the join (nothing is parked yet) and the other tokens of the fork end elsewhere, those notifications are the only thing that can release it; ignored 'because the gateway holds nothing back', the token waits for ever"
	n := 0
	for _, f := range p.Funcs {
		if f.Body == nil || f.Pkg.PkgPath != pathBpmn {
			continue
		}
		r := f.Root()
		if r.Obj == nil || recvNamed(r.Obj) == nil || recvNamed(r.Obj).Obj().Name() != "inclusiveGateway" {
			continue
		}
		in := info(f)
		inspectNoLit(f.Body, func(m ast.Node) bool {
			cc, ok := m.(*ast.CommClause)
			if !ok || cc.Comm == nil {
				return true
			}
			// the clause that receives struct{} notifications (the tracker's activity channel)
			var rx ast.Expr
			if es, ok := cc.Comm.(*ast.ExprStmt); ok {
				if u, ok := es.X.(*ast.UnaryExpr); ok && u.Op == token.ARROW {
					rx = u.X
				}
			}
			if rx == nil || isCtxDoneCall(in, rx) {
				return true
			}
			et, isCh := chanElem(in.TypeOf(rx))
			if !isCh {
				return true
			}
			if st, ok := et.Underlying().(*types.Struct); !ok || st.NumFields() != 0 {
				return true
			}
			for _, st := range cc.Body {
				inspectNoLit(st, func(z ast.Node) bool {
					cl, ok := z.(*ast.CallExpr)
					if !ok {
						return true
					}
					fn := callee(in, cl)
					if fn == nil || recvNamed(fn) != recvNamed(r.Obj) {
						return true
					}
					n++
					var bad []string
					for _, pc := range polarConds(p, cl) {
						if !regionOfStmts(cc.Body).Contains(pc.cond) {
							continue
						}
						if mentionsDeep(pc.cond, func(y ast.Node) bool {
							se, ok := y.(*ast.SelectorExpr)
							if !ok {
								return false
							}
							fv := fieldOf(in, se)
							if fv == nil {
								return false
							}
							_, isSl := fv.Type().Underlying().(*types.Slice)
							return isSl
						}) {
							bad = append(bad, exprString(pc.cond))
						}
					}
					c.Check(len(bad) == 0, f, cl, "re-evaluation "+exprString(cl.Fun)+" on a tracker notification", what, ifElse(len(bad) == 0, "not conditional on a list of parked tokens", fmt.Sprintf("conditional on %v", bad)))
					return true
				})
			}
			return true
		})
	}
	if n == 0 {
		c.Missing("tracker notification clause", "no clause of the inclusive gateway that receives the tracker's notification and re-evaluates was found")
	}
}

func ruleR230(c *Ctx) {
	p := c.P
	r230fields := map[*types.Func][]*types.Var{}
	r230sites := map[*types.Func][]*ast.CallExpr{}
	r230funcs := map[*types.Func]*FuncInfo{}
	what := "the item type of a stored value follows the Go type the worker answered with. A copy in which every whole float64 has become an int64 'for workers that decode JSON' stores 2.0 as an integer: it reads back as int64, and a later property declared float that refers to it comes out empty"
	n := 0
	for _, f := range p.Funcs {
		if f.Body == nil || f.Pkg.PkgPath != pathBpmn {
			continue
		}
		in := info(f)
		inspectNoLit(f.Body, func(m ast.Node) bool {
			cl, ok := m.(*ast.CallExpr)
			if !ok || len(cl.Args) != 2 {
				return true
			}
			fn := callee(in, cl)
			if fn == nil || fn.Pkg() == nil || fn.Pkg().Path() != pathBpmn || !strings.HasPrefix(fn.Name(), "ApplyTask") {
				return true
			}
			n++
			srcs := resolveLocalExpr(in, f, cl.Args[1])
			verbatim := len(srcs) > 0
			for _, src := range srcs {
				ok := fieldOf(in, src) != nil
				if id, isId := unparen(src).(*ast.Ident); isId {
					if v, isV := objOf(in, id).(*types.Var); isV && isParam(f.Root(), v) {
						ok = true
					}
				}
				if !ok {
					verbatim = false
				}
			}
			if fv := fieldOf(in, srcs[0]); fv != nil && len(srcs) == 1 {
				r230fields[fn] = append(r230fields[fn], fv)
				r230sites[fn] = append(r230sites[fn], cl)
				r230funcs[fn] = f
			}
			c.Check(verbatim, f, cl, "values handed to "+fn.Name(), what, ifElse(verbatim, exprString(cl.Args[1])+": the answer's own field", exprString(cl.Args[1])+" is not a field of the answer"))
			return true
		})
	}
	if n == 0 {
		c.Missing("answer application", "no call of ApplyTaskDataOutput / ApplyTaskResult was found")
	}
	// each part of the answer goes through its own function, once: results are not applied as data outputs
	what2 := "the results of an answer are matched against the declared results, its data objects against the declared data outputs. Run through the other function 'for workers that answer with a single map', an undeclared result that happens to be named like a declared data output overwrites that data object"
	owner := map[*types.Var]*types.Func{}
	var fns []*types.Func
	for fn := range r230fields {
		fns = append(fns, fn)
	}
	sort.Slice(fns, func(i, j int) bool { return r230sites[fns[i]][0].Pos() < r230sites[fns[j]][0].Pos() })
	for _, fn := range fns {
		fvs := r230fields[fn]
		for i, fv := range fvs {
			prev, seen := owner[fv]
			okOne := (!seen || prev == fn) && fvs[0] == fv
			owner[fv] = fn
			wit := "only " + fvs[0].Name()
			if !okOne {
				wit = fv.Name() + " is handed to " + fn.Name() + " besides " + fvs[0].Name()
				if seen && prev != fn {
					wit = fv.Name() + " is handed to " + fn.Name() + " and to " + prev.Name()
				}
			}
			c.Check(okOne, r230funcs[fn], r230sites[fn][i], "part of the answer applied by "+fn.Name(), what2, wit)
		}
	}
}

// resolveLocalExpr returns the expressions a value may come from: the expression itself, or, for a local variable
// of the function (or of an enclosing one), everything assigned to it.
func resolveLocalExpr(in *types.Info, f *FuncInfo, e ast.Expr) []ast.Expr {
	id, ok := unparen(e).(*ast.Ident)
	if !ok {
		return []ast.Expr{e}
	}
	v, ok := objOf(in, id).(*types.Var)
	if !ok || v.IsField() || isParam(f.Root(), v) || v.Parent() == v.Pkg().Scope() {
		return []ast.Expr{e}
	}
	defs, _ := localDefs(in, f.Root().Body, v)
	if len(defs) == 0 {
		return []ast.Expr{e}
	}
	return defs
}

// ---- R231–R239 (round 10, second batch) ----

func init() {
	register(&Rule{ID: "R231", Title: "an event is a description handed to every listener: no event type keeps delivery state — nothing outside its constructors writes a field of a type that implements IEvent", Min: 5, Run: ruleR231})
	register(&Rule{ID: "R234", Title: "a probe result indexes what was probed: the list a gateway indexes with the indices of a probe report is the list it handed to the probe", Min: 2, Run: ruleR234})
	register(&Rule{ID: "R235", Title: "capacity is an allocation detail: no branch of the engine depends on cap() of a slice", Min: 0, Run: ruleR235})
	register(&Rule{ID: "R238", Title: "generators differ by partition, not by a label: the ids of a sno generator are drawn with a constant meta byte and no generator is built on a partition chosen by the program", Min: 1, Run: ruleR238})
	register(&Rule{ID: "R239", Title: "a token is started once: (*flow).Start is called on a flow made by newFlow in the same function, never on a flow kept in a field", Min: 3, Run: ruleR239})
}

func ruleR231(c *Ctx) {
	p := c.P
	what := "the same event value is handed to every node that waits for it, possibly more than once (an instance in a model gets it from the model and from the replay of the start-event consumer). An event that remembers 'I was received' releases the first listener only; the others observe it and stay armed"
	var iev *types.Interface
	for _, pk := range p.Target {
		if pk.PkgPath == pathEvent {
			if o := pk.Types.Scope().Lookup("IEvent"); o != nil {
				iev, _ = o.Type().Underlying().(*types.Interface)
			}
		}
	}
	if iev == nil {
		c.Missing("IEvent", "the interface event.IEvent was not found")
		return
	}
	evTypes := map[*types.Named]bool{}
	for _, pk := range p.Target {
		if !isTargetPkg(p, pk.PkgPath) {
			continue
		}
		sc := pk.Types.Scope()
		for _, nm := range sc.Names() {
			tn, ok := sc.Lookup(nm).(*types.TypeName)
			if !ok || tn.IsAlias() {
				continue
			}
			nt, ok := tn.Type().(*types.Named)
			if !ok {
				continue
			}
			if _, isSt := nt.Underlying().(*types.Struct); !isSt {
				continue
			}
			if types.Implements(nt, iev) || types.Implements(types.NewPointer(nt), iev) {
				evTypes[nt] = true
			}
		}
	}
	bad := map[*types.Named][]string{}
	for _, f := range p.Funcs {
		if f.Body == nil || !isTargetPkg(p, f.Pkg.PkgPath) {
			continue
		}
		in := info(f)
		evField := func(e ast.Expr) (*types.Named, ast.Expr) {
			se, ok := unparen(e).(*ast.SelectorExpr)
			if !ok || fieldOf(in, se) == nil {
				return nil, nil
			}
			nt := namedOf(in.TypeOf(se.X))
			if nt == nil || !evTypes[nt] {
				return nil, nil
			}
			return nt, se.X
		}
		fresh := func(base ast.Expr) bool {
			// a value under construction: a local of this function that is not a parameter or receiver
			id := rootIdent(base)
			if id == nil {
				return false
			}
			v, ok := objOf(in, id).(*types.Var)
			if !ok || v.IsField() {
				return false
			}
			if isParam(f.Root(), v) || isParam(f, v) {
				return false
			}
			if r := f.Root(); r.Obj != nil {
				if sig, ok := r.Obj.Type().(*types.Signature); ok && sig.Recv() == v {
					return false
				}
			}
			_, isPtr := v.Type().Underlying().(*types.Pointer)
			if isPtr {
				// a pointer local is fresh only if every definition is &T{} / new(T)
				defs, _ := localDefs(in, f.Root().Body, v)
				if len(defs) == 0 {
					return false
				}
				for _, d := range defs {
					if !isFreshAlloc(in, d) {
						return false
					}
				}
			}
			return true
		}
		inspectNoLit(f.Body, func(m ast.Node) bool {
			switch x := m.(type) {
			case *ast.AssignStmt:
				for _, l := range x.Lhs {
					if nt, base := evField(l); nt != nil && !fresh(base) {
						bad[nt] = append(bad[nt], "assignment to "+exprString(l)+" at "+c.pos(x)+" ("+f.QName()+")")
					}
				}
			case *ast.IncDecStmt:
				if nt, base := evField(x.X); nt != nil && !fresh(base) {
					bad[nt] = append(bad[nt], exprString(x.X)+x.Tok.String()+" at "+c.pos(x)+" ("+f.QName()+")")
				}
			case *ast.UnaryExpr:
				// &ev.f handed to a function of sync/atomic (an accessor that returns &ev.f writes nothing)
				if x.Op == token.AND {
					if pc, ok := p.Parent(x).(*ast.CallExpr); ok {
						if fn := callee(in, pc); fn != nil && fn.Pkg() != nil && fn.Pkg().Path() == "sync/atomic" {
							if nt, base := evField(x.X); nt != nil && !fresh(base) {
								bad[nt] = append(bad[nt], exprString(pc)+" at "+c.pos(x)+" ("+f.QName()+")")
							}
						}
					}
				}
			case *ast.CallExpr:
				// a method of a sync / atomic typed field: x.f.Store(..), x.f.Lock()
				if se, ok := unparen(x.Fun).(*ast.SelectorExpr); ok {
					if nt, base := evField(se.X); nt != nil && !fresh(base) {
						if fn := callee(in, x); fn != nil && fn.Pkg() != nil && (fn.Pkg().Path() == "sync" || fn.Pkg().Path() == "sync/atomic") {
							bad[nt] = append(bad[nt], exprString(x.Fun)+" at "+c.pos(x)+" ("+f.QName()+")")
						}
					}
				}
			}
			return true
		})
	}
	for nt := range evTypes {
		c.Check(len(bad[nt]) == 0, nil, posNode(nt.Obj().Pos()), "event type "+nt.Obj().Pkg().Name()+"."+nt.Obj().Name()+" is immutable once made", what, ifElse(len(bad[nt]) == 0, "no field is written outside a constructor", strings.Join(bad[nt], "; ")))
	}
}

func isFreshAlloc(in *types.Info, e ast.Expr) bool {
	switch x := unparen(e).(type) {
	case *ast.UnaryExpr:
		if x.Op == token.AND {
			_, ok := unparen(x.X).(*ast.CompositeLit)
			if ok {
				return true
			}
			if id, ok := unparen(x.X).(*ast.Ident); ok {
				if v, ok := objOf(in, id).(*types.Var); ok && !v.IsField() {
					return true // &local
				}
			}
		}
	case *ast.CallExpr:
		return isBuiltin(in, x, "new")
	}
	return false
}

func ruleR234(c *Ctx) {
	p := c.P
	what := "the token numbers the flows whose conditions held by their position in the list it was given. Looked up in another list (all outgoing flows, where the default flow sits in between), position i names another flow: the default flow is taken although a condition held, or a flow whose condition held is skipped"
	n := 0
	isReport := func(t types.Type) bool { return isNamed(t, pathBpmn, "gatewayProbingReport") }
	// per node type: the fields handed to probes
	probed := map[*types.Named]map[types.Object]bool{}
	for _, f := range p.Funcs {
		if f.Body == nil || f.Pkg.PkgPath != pathBpmn {
			continue
		}
		r := f.Root()
		if r.Obj == nil || recvNamed(r.Obj) == nil {
			continue
		}
		T := recvNamed(r.Obj)
		in := info(f)
		inspectNoLit(f.Body, func(m ast.Node) bool {
			cl, ok := m.(*ast.CompositeLit)
			if !ok || !isNamed(in.TypeOf(cl), pathBpmn, "probeAction") {
				return true
			}
			for _, el := range cl.Elts {
				kv, ok := el.(*ast.KeyValueExpr)
				if !ok {
					continue
				}
				if k, ok := kv.Key.(*ast.Ident); ok && k.Name == "sequenceFlows" {
					for _, src := range resolveLocalExpr(in, f, kv.Value) {
						if o := r234source(in, src); o != nil {
							if probed[T] == nil {
								probed[T] = map[types.Object]bool{}
							}
							probed[T][o] = true
						}
					}
				}
			}
			return true
		})
	}
	for _, f := range p.Funcs {
		if f.Body == nil || f.Pkg.PkgPath != pathBpmn {
			continue
		}
		r := f.Root()
		if r.Obj == nil || recvNamed(r.Obj) == nil {
			continue
		}
		T := recvNamed(r.Obj)
		if probed[T] == nil {
			continue
		}
		in := info(f)
		isResult := func(z ast.Node) bool {
			se, ok := z.(*ast.SelectorExpr)
			if !ok {
				return false
			}
			fv := fieldOf(in, se)
			return fv != nil && fv.Name() == "result" && isReport(in.TypeOf(se.X))
		}
		// locals that hold a reported index: range values over the result, locals defined from it
		idx := map[types.Object]bool{}
		inspectNoLit(f.Body, func(m ast.Node) bool {
			switch x := m.(type) {
			case *ast.RangeStmt:
				if x.Value != nil && isResult(unparen(x.X)) {
					if o := objOf(in, x.Value); o != nil {
						idx[o] = true
					}
				}
			case *ast.AssignStmt:
				if len(x.Lhs) == len(x.Rhs) {
					for i, l := range x.Lhs {
						if id, ok := unparen(l).(*ast.Ident); ok {
							if ie, ok := unparen(x.Rhs[i]).(*ast.IndexExpr); ok && isResult(unparen(ie.X)) {
								if o := objOf(in, id); o != nil {
									idx[o] = true
								}
							}
						}
					}
				}
			}
			return true
		})
		inspectNoLit(f.Body, func(z ast.Node) bool {
			ix, ok := z.(*ast.IndexExpr)
			if !ok || isResult(unparen(ix.X)) {
				return true
			}
			byResult := mentionsDeep(ix.Index, func(y ast.Node) bool {
				if isResult(y) {
					return true
				}
				id, ok := y.(*ast.Ident)
				return ok && idx[objOf(in, id)]
			})
			if !byResult {
				return true
			}
			n++
			var same bool
			for _, src := range resolveLocalExpr(in, f, ix.X) {
				if o := r234source(in, src); o != nil && probed[T][o] {
					same = true
				}
			}
			var names []string
			for v := range probed[T] {
				names = append(names, v.Name())
			}
			c.Check(same, f, ix, "list indexed by a probe result in "+T.Obj().Name(), what, ifElse(same, exprString(ix.X)+" is what the probe was given", exprString(ix.X)+" is indexed, the probe was given "+strings.Join(names, ",")))
			return true
		})
	}
	if n == 0 {
		c.Missing("probe result lookups", "no handler of gatewayProbingReport that indexes a list with the reported indices was found")
	}
}

func ruleR235(c *Ctx) {
	p := c.P
	what := "how much room a slice has is decided by the allocator and by append's growth policy; it says nothing about the process. A guard such as `if len(chains) == cap(chains) { break }` turns a reservation into a limit: the event that needs one more chain is discarded as 'does not match'"
	for _, f := range p.Funcs {
		if f.Body == nil || !isTargetPkg(p, f.Pkg.PkgPath) {
			continue
		}
		in := info(f)
		inspectNoLit(f.Body, func(m ast.Node) bool {
			var cond ast.Expr
			switch x := m.(type) {
			case *ast.IfStmt:
				cond = x.Cond
			case *ast.ForStmt:
				cond = x.Cond
			case *ast.SwitchStmt:
				cond = x.Tag
			case *ast.CaseClause:
				for _, e := range x.List {
					if mentionsDeep(e, func(z ast.Node) bool { cl, ok := z.(*ast.CallExpr); return ok && isBuiltin(in, cl, "cap") }) {
						c.Bad(f, e, "branch on cap() in "+f.QName(), what, exprString(e))
					}
				}
			}
			if cond != nil && mentionsDeep(cond, func(z ast.Node) bool { cl, ok := z.(*ast.CallExpr); return ok && isBuiltin(in, cl, "cap") }) {
				c.Bad(f, cond, "branch on cap() in "+f.QName(), what, exprString(cond))
			}
			return true
		})
	}
}

func ruleR238(c *Ctx) {
	p := c.P
	what := "sno keeps generators apart by giving each its own partition (and restored ones the partition of their snapshot); the meta byte is a label for the user and is not part of a snapshot. Several generators put on one partition 'and told apart by meta' collide as soon as one of them is restored: the label is gone, partition, time unit and sequence are equal"
	n := 0
	for _, f := range p.Funcs {
		if f.Body == nil || f.Pkg.PkgPath != pathID {
			continue
		}
		in := info(f)
		inspectNoLit(f.Body, func(m ast.Node) bool {
			switch x := m.(type) {
			case *ast.CallExpr:
				fn := callee(in, x)
				if fn == nil || fn.Pkg() == nil || !strings.HasSuffix(fn.Pkg().Path(), "/sno") {
					return true
				}
				if fn.Name() == "New" && recvNamed(fn) != nil && recvNamed(fn).Obj().Name() == "Generator" && len(x.Args) == 1 {
					n++
					tv, has := in.Types[x.Args[0]]
					isConst := has && tv.Value != nil
					c.Check(isConst, f, x, "meta byte of the ids drawn in "+f.QName(), what, ifElse(isConst, "constant "+exprString(x.Args[0]), exprString(x.Args[0])+" varies: ids are told apart by a label a snapshot does not carry"))
				}
			case *ast.CompositeLit:
				if nt := namedOf(in.TypeOf(x)); nt != nil && nt.Obj().Name() == "GeneratorSnapshot" && nt.Obj().Pkg() != nil && strings.HasSuffix(nt.Obj().Pkg().Path(), "/sno") && len(x.Elts) > 0 {
					c.Bad(f, x, "hand-made generator snapshot in "+f.QName(), what, "a snapshot is made by a generator (Snapshot) or decoded from one; "+exprString(x)+" places a generator on a partition chosen by the program")
				}
			}
			return true
		})
	}
	if n == 0 {
		c.Missing("id draws", "no call of (*sno.Generator).New was found in pkg/id")
	}
}

func ruleR239(c *Ctx) {
	p := c.P
	what := "a token draws its id when it is made (newFlow). A node that keeps 'its' token in a field and starts it again for the next trigger announces a second token under the first one's id: two NewFlowTraces with the same FlowId, and whoever keys tokens by id (the tracker, the inclusive join's cohort) sees one token where there are two"
	n := 0
	for _, f := range p.Funcs {
		if f.Body == nil || f.Pkg.PkgPath != pathBpmn {
			continue
		}
		in := info(f)
		inspectNoLit(f.Body, func(m ast.Node) bool {
			cl, ok := m.(*ast.CallExpr)
			if !ok {
				return true
			}
			fn := callee(in, cl)
			if fn == nil || fn.Name() != "Start" || recvNamed(fn) == nil || recvNamed(fn).Obj().Name() != "flow" || recvNamed(fn).Obj().Pkg().Path() != pathBpmn {
				return true
			}
			se, ok := unparen(cl.Fun).(*ast.SelectorExpr)
			if !ok {
				return true
			}
			n++
			freshTok := false
			wit := exprString(se.X) + " is not a local made by newFlow"
			if id, ok := unparen(se.X).(*ast.Ident); ok {
				if v, ok := objOf(in, id).(*types.Var); ok && !v.IsField() && !isParam(f.Root(), v) {
					defs, _ := localDefs(in, f.Root().Body, v)
					freshTok = len(defs) > 0
					for _, d := range defs {
						dc, ok := unparen(d).(*ast.CallExpr)
						if !ok {
							freshTok = false
							continue
						}
						df := callee(in, dc)
						if df == nil || df.Name() != "newFlow" {
							if cf := p.byObj[df]; cf == nil || cf.Pkg != f.Pkg || !returnsCallOf(p, cf, "newFlow") {
								freshTok = false
							}
						}
					}
					// and the local is declared inside the innermost loop around the call (one token per iteration)
					if freshTok {
						if lp := innermostLoop(p, cl); lp != nil && !(lp.Pos() <= v.Pos() && v.Pos() < lp.End()) {
							freshTok = false
							wit = id.Name + " is declared outside the loop that starts it"
						}
					}
					if freshTok {
						wit = id.Name + " := newFlow(...) in the same function"
					}
				}
			}
			if !freshTok {
				// the tokens a node was given when it was built, started by the Once.Do that starts the node itself
				for cur := f; cur != nil && cur.Lit != nil; cur = cur.Parent {
					if pc, ok := p.Parent(cur.Lit).(*ast.CallExpr); ok && cur.Parent != nil && isSyncMethod(info(cur.Parent), pc, "Once", "Do") {
						freshTok, wit = true, exprString(se.X)+" is started inside sync.Once.Do: once per node"
					}
				}
			}
			c.Check(freshTok, f, cl, "token started in "+f.QName(), what, wit)
			return true
		})
	}
	if n == 0 {
		c.Missing("token starts", "no call of (*flow).Start was found")
	}
}

// returnsCallOf: every return of f hands back the result of a call of the named function (directly or through a local).
func returnsCallOf(p *Prog, f *FuncInfo, name string) bool {
	if f.Body == nil {
		return false
	}
	in := info(f)
	all, any := true, false
	inspectNoLit(f.Body, func(m ast.Node) bool {
		rs, ok := m.(*ast.ReturnStmt)
		if !ok || len(rs.Results) == 0 {
			return true
		}
		any = true
		okOne := false
		for _, src := range resolveLocalExpr(in, f, rs.Results[0]) {
			if cl, ok := unparen(src).(*ast.CallExpr); ok {
				if fn := callee(in, cl); fn != nil && fn.Name() == name {
					okOne = true
				}
			}
		}
		if !okOne {
			all = false
		}
		return true
	})
	return any && all
}

// ---- R240–R245 (round 10, third batch) ----

func init() {
	register(&Rule{ID: "R240", Title: "whether a token goes on is decided by its own move: the local that holds the outcome of the token's own sequence flow (the call that moves the token) is defined by that call alone", Min: 1, Run: ruleR240})
	register(&Rule{ID: "R241", Title: "an activity or event continues over all its outgoing flows: every flowAction a non-gateway node answers with carries allSequenceFlows(&outgoing), set in the literal and not depending on what happened inside", Min: 5, Run: ruleR241})
	register(&Rule{ID: "R242", Title: "the caller's option list is the caller's: a function appends to its variadic parameter in place only in a branch the constructor of the options makes unreachable", Min: 0, Run: ruleR242})
	register(&Rule{ID: "R243", Title: "an edge starts on its source and ends on its target: the first waypoint of a connection is computed from the source bounds only, the last from the target bounds only", Min: 2, Run: ruleR243})
	register(&Rule{ID: "R244", Title: "an empty list and no list are the same model: no predicate over the schema model compares a list with nil (XML has no empty list: it parses back as nil)", Min: 0, Run: ruleR244})
	register(&Rule{ID: "R245", Title: "no read lock is taken twice: while a method holds a lock of its receiver it calls no method of the same receiver that acquires that lock (a writer queued in between blocks both for ever)", Min: 0, Run: ruleR245})
}

func ruleR240(c *Ctx) {
	p := c.P
	what := "after distributing a flow action the token ends itself iff it took none of the flows itself; the new tokens of the other flows carry on regardless. If the outcome of an additional flow overwrites the token's own outcome, the token ends although it has moved (the node behind is never requested) or asks the node it never left a second time (the sub-process is entered again)"
	n := 0
	movesToken := func(cf *FuncInfo) bool {
		if cf == nil || cf.Body == nil {
			return false
		}
		in := info(cf)
		found := false
		inspectNoLit(cf.Body, func(m ast.Node) bool {
			if as, ok := m.(*ast.AssignStmt); ok {
				for _, l := range as.Lhs {
					if fv := fieldOf(in, l); fv != nil && fv.Name() == "current" {
						found = true
					}
				}
			}
			return true
		})
		return found
	}
	for _, f := range p.Funcs {
		if f.Body == nil || f.Pkg.PkgPath != pathBpmn {
			continue
		}
		r := f.Root()
		if r.Obj == nil || recvNamed(r.Obj) == nil || recvNamed(r.Obj).Obj().Name() != "flow" {
			continue
		}
		in := info(f)
		inspectNoLit(f.Body, func(m ast.Node) bool {
			as, ok := m.(*ast.AssignStmt)
			if !ok || as.Tok != token.DEFINE || len(as.Lhs) != 1 || len(as.Rhs) != 1 {
				return true
			}
			cl, ok := unparen(as.Rhs[0]).(*ast.CallExpr)
			if !ok {
				return true
			}
			cf := p.byObj[callee(in, cl)]
			if cf == nil || cf == f.Root() || !movesToken(cf) {
				return true
			}
			id, ok := as.Lhs[0].(*ast.Ident)
			if !ok {
				return true
			}
			v := in.Defs[id]
			if v == nil {
				return true
			}
			if b, ok := v.Type().Underlying().(*types.Basic); !ok || b.Kind() != types.Bool {
				return true
			}
			n++
			defs, _ := localDefs(in, f.Body, v)
			var other []string
			for _, d := range defs {
				if dc, ok := unparen(d).(*ast.CallExpr); ok && p.byObj[callee(in, dc)] == cf {
					continue
				}
				other = append(other, exprString(d)+" at "+c.pos(d))
			}
			c.Check(len(other) == 0, f, as, "outcome "+id.Name+" of the token's own move in "+f.Root().QName(), what, ifElse(len(other) == 0, "defined by "+cf.QName()+" alone", "also assigned from "+strings.Join(other, "; ")))
			return true
		})
	}
	if n == 0 {
		c.Missing("token move", "no local that holds the outcome of the call that moves the token was found in (*flow)")
	}
}

func ruleR241(c *Ctx) {
	p := c.P
	what := "a sub-process, task or event that has done its work hands the token all its outgoing flows; which of them are taken is decided by their conditions in the token. An answer whose flows depend on what the node saw inside (an end event reached, say) ends the parent token at a sub-process with an implicit end: everything behind it is never requested while the instance reports completion"
	n := 0
	for _, f := range p.Funcs {
		if f.Body == nil || f.Pkg.PkgPath != pathBpmn {
			continue
		}
		r := f.Root()
		if r.Obj == nil || recvNamed(r.Obj) == nil {
			continue
		}
		T := recvNamed(r.Obj)
		if strings.Contains(strings.ToLower(T.Obj().Name()), "gateway") || T.Obj().Name() == "flow" {
			continue
		}
		in := info(f)
		inspectNoLit(f.Body, func(m ast.Node) bool {
			switch x := m.(type) {
			case *ast.CompositeLit:
				if !isNamed(in.TypeOf(x), pathBpmn, "flowAction") {
					return true
				}
				n++
				var val ast.Expr
				for _, el := range x.Elts {
					if kv, ok := el.(*ast.KeyValueExpr); ok {
						if k, ok := kv.Key.(*ast.Ident); ok && k.Name == "sequenceFlows" {
							val = kv.Value
						}
					}
				}
				ok := false
				wit := "the literal does not set sequenceFlows"
				if val != nil {
					wit = exprString(val) + " is not allSequenceFlows(&<node>.outgoing)"
					for _, src := range resolveLocalExpr(in, f, val) {
						if cl, isCall := unparen(src).(*ast.CallExpr); isCall && len(cl.Args) == 1 {
							if fn := callee(in, cl); fn != nil && fn.Name() == "allSequenceFlows" {
								if u, isAddr := unparen(cl.Args[0]).(*ast.UnaryExpr); isAddr && u.Op == token.AND {
									if fv := fieldOf(in, u.X); fv != nil && fv.Name() == "outgoing" {
										ok, wit = true, exprString(src)
									}
								}
							}
						}
					}
				}
				c.Check(ok, f, x, "flows of the answer of "+T.Obj().Name(), what, wit)
			case *ast.AssignStmt:
				for _, l := range x.Lhs {
					se, ok := unparen(l).(*ast.SelectorExpr)
					if !ok || se.Sel.Name != "sequenceFlows" || !isNamed(in.TypeOf(se.X), pathBpmn, "flowAction") {
						continue
					}
					c.Bad(f, x, "flows of the answer of "+T.Obj().Name()+" set after the fact", what, exprString(l)+" is assigned at "+c.pos(x)+": the flows of the answer are decided later than the literal")
				}
			}
			return true
		})
	}
	if n == 0 {
		c.Missing("answers", "no flowAction literal of a non-gateway node was found")
	}
}

func ruleR242(c *Ctx) {
	p := c.P
	what := "`opts = append(opts, x)` writes into the caller's backing array whenever the caller's slice has spare capacity. Two goroutines that create instances from one option slice then write the same slots: an instance ends up wired to another instance's tracer and id generator and answers the other's traces"
	n := 0
	// fields a constructor defaults: `if o.F == nil { o.F = ... }` in a function that returns the options
	defaulted := map[*types.Var]bool{}
	for _, f := range p.Funcs {
		if f.Body == nil || !isTargetPkg(p, f.Pkg.PkgPath) || f.Lit != nil {
			continue
		}
		in := info(f)
		inspectNoLit(f.Body, func(m ast.Node) bool {
			is, ok := m.(*ast.IfStmt)
			if !ok || is.Else != nil {
				return true
			}
			be, ok := unparen(is.Cond).(*ast.BinaryExpr)
			if !ok || be.Op != token.EQL {
				return true
			}
			if tv, ok := in.Types[be.Y]; !ok || !tv.IsNil() {
				return true
			}
			fv := fieldOf(in, be.X)
			if fv == nil {
				return true
			}
			for _, st := range is.Body.List {
				if as, ok := st.(*ast.AssignStmt); ok && len(as.Lhs) == 1 && fieldOf(in, as.Lhs[0]) == fv && sameRef(in, as.Lhs[0], be.X) {
					// and nothing leaves the function between here and the end without the field set: the if is a
					// top-level statement of the body
					if p.Parent(is) == ast.Node(f.Body) {
						defaulted[fv] = true
					}
				}
			}
			return true
		})
	}
	for _, f := range p.Funcs {
		if f.Body == nil || !isTargetPkg(p, f.Pkg.PkgPath) {
			continue
		}
		r := f.Root()
		var sig *types.Signature
		if r.Obj != nil {
			sig, _ = r.Obj.Type().(*types.Signature)
		}
		if sig == nil || !sig.Variadic() {
			continue
		}
		vp := sig.Params().At(sig.Params().Len() - 1)
		in := info(f)
		inspectNoLit(f.Body, func(m ast.Node) bool {
			as, ok := m.(*ast.AssignStmt)
			if !ok || len(as.Lhs) != 1 || len(as.Rhs) != 1 {
				return true
			}
			lid, ok := unparen(as.Lhs[0]).(*ast.Ident)
			if !ok || objOf(in, lid) != types.Object(vp) {
				return true
			}
			cl, ok := unparen(as.Rhs[0]).(*ast.CallExpr)
			if !ok || !isBuiltin(in, cl, "append") || len(cl.Args) < 2 {
				return true
			}
			if aid, ok := unparen(cl.Args[0]).(*ast.Ident); !ok || objOf(in, aid) != types.Object(vp) {
				return true
			}
			n++
			dead := ""
			// the parameter was replaced by a private copy before: vp = append([]T(nil), vp...) as a statement of the
			// function body
			for _, st := range r.Body.List {
				if st.Pos() >= as.Pos() {
					break
				}
				cp, ok := st.(*ast.AssignStmt)
				if !ok || len(cp.Lhs) != 1 || len(cp.Rhs) != 1 {
					continue
				}
				if id, ok := unparen(cp.Lhs[0]).(*ast.Ident); !ok || objOf(in, id) != types.Object(vp) {
					continue
				}
				if cc, ok := unparen(cp.Rhs[0]).(*ast.CallExpr); ok && isBuiltin(in, cc, "append") && len(cc.Args) == 2 && cc.Ellipsis.IsValid() {
					if a0, isId := unparen(cc.Args[0]).(*ast.Ident); !isId || objOf(in, a0) != types.Object(vp) {
						if tv, ok := in.Types[cc.Args[0]]; ok && (tv.IsNil() || isConversionOfNil(in, cc.Args[0])) {
							dead = "the parameter holds a private copy since " + c.pos(cp)
						}
					}
				}
			}
			for _, pc := range polarConds(p, as) {
				be, ok := unparen(pc.cond).(*ast.BinaryExpr)
				if !ok || !pc.positive || be.Op != token.EQL {
					continue
				}
				if tv, ok := in.Types[be.Y]; !ok || !tv.IsNil() {
					continue
				}
				for _, src := range resolveLocalExpr(in, f, be.X) {
					if fv := fieldOf(in, src); fv != nil && defaulted[fv] {
						// the base of the field comes from the constructor
						se := unparen(src).(*ast.SelectorExpr)
						for _, b := range resolveLocalExpr(in, f, se.X) {
							if bc, ok := unparen(b).(*ast.CallExpr); ok {
								if cf := p.byObj[callee(in, bc)]; cf != nil {
									dead = exprString(pc.cond) + " never holds: " + cf.QName() + " defaults " + fv.Name()
								}
							}
						}
					}
				}
			}
			c.Check(dead != "", f, as, "in-place append to the variadic parameter "+vp.Name()+" of "+r.QName(), what, ifElse(dead != "", "harmless ("+dead+")", "reachable: the append writes into the caller's slice"))
			return true
		})
	}
	_ = n
}

// r243deps: the parameters of f that the value of e depends on (data dependences only), through locals and through the
// results of same-package helpers.
func r243deps(p *Prog, f *FuncInfo, e ast.Expr, depth int, seen map[types.Object]bool) map[types.Object]bool {
	out := map[types.Object]bool{}
	in := info(f)
	var visit func(x ast.Expr)
	visit = func(x ast.Expr) {
		ast.Inspect(x, func(m ast.Node) bool {
			switch y := m.(type) {
			case *ast.CallExpr:
				cf := p.byObj[callee(in, y)]
				if cf == nil || cf.Pkg != f.Pkg || depth <= 0 {
					return true // arguments are visited below
				}
				// the single result of a helper
				params := paramsOf(cf)
				hit := false
				inspectNoLit(cf.Body, func(z ast.Node) bool {
					if rs, ok := z.(*ast.ReturnStmt); ok && len(rs.Results) == 1 {
						for d := range r243deps(p, cf, rs.Results[0], depth-1, map[types.Object]bool{}) {
							for i, pv := range params {
								if pv == d && i < len(y.Args) {
									hit = true
									visit(y.Args[i])
								}
							}
							if rv := cf.Obj.Type().(*types.Signature).Recv(); rv != nil && types.Object(rv) == d {
								if se, ok := unparen(y.Fun).(*ast.SelectorExpr); ok {
									hit = true
									visit(se.X)
								}
							}
						}
					}
					return true
				})
				// a helper whose result is filled by method calls (point.SetX(x)): every argument counts
				return !hit
			case *ast.SelectorExpr:
				visit(y.X)
				return false
			case *ast.Ident:
				v, ok := objOf(in, y).(*types.Var)
				if !ok || v.IsField() {
					return true
				}
				if isParamOrRecv(f.Root(), v) {
					out[v] = true
					return true
				}
				if seen[v] {
					return true
				}
				seen[v] = true
				inspectNoLit(f.Root().Body, func(z ast.Node) bool {
					as, ok := z.(*ast.AssignStmt)
					if !ok {
						return true
					}
					for i, l := range as.Lhs {
						lid, ok := unparen(l).(*ast.Ident)
						if !ok || objOf(in, lid) != types.Object(v) {
							continue
						}
						if len(as.Rhs) == len(as.Lhs) {
							visit(as.Rhs[i])
						} else if len(as.Rhs) == 1 {
							// tuple from a helper: result i
							if cl, ok := unparen(as.Rhs[0]).(*ast.CallExpr); ok {
								cf := p.byObj[callee(in, cl)]
								if cf == nil || cf.Pkg != f.Pkg || depth <= 0 {
									visit(as.Rhs[0])
									continue
								}
								params := paramsOf(cf)
								for d := range r243resultDeps(p, cf, i, depth-1) {
									for j, pv := range params {
										if pv == d && j < len(cl.Args) {
											visit(cl.Args[j])
										}
									}
									// the helper's receiver: the expression the method is called on
									if rv := cf.Obj.Type().(*types.Signature).Recv(); rv != nil && types.Object(rv) == d {
										if se, ok := unparen(cl.Fun).(*ast.SelectorExpr); ok {
											visit(se.X)
										}
									}
								}
							} else {
								visit(as.Rhs[0])
							}
						}
					}
					return true
				})
			}
			return true
		})
	}
	visit(e)
	return out
}

func paramsOf(f *FuncInfo) []types.Object {
	var out []types.Object
	if f.Obj == nil {
		return nil
	}
	sig := f.Obj.Type().(*types.Signature)
	for i := 0; i < sig.Params().Len(); i++ {
		out = append(out, sig.Params().At(i))
	}
	return out
}

// r243resultDeps: the parameters of helper cf that its i-th result depends on (named results: every assignment to the
// result variable; explicit returns: the i-th expression).
func r243resultDeps(p *Prog, cf *FuncInfo, i int, depth int) map[types.Object]bool {
	out := map[types.Object]bool{}
	if cf.Body == nil || cf.Obj == nil {
		return out
	}
	in := info(cf)
	sig := cf.Obj.Type().(*types.Signature)
	var rv *types.Var
	if i < sig.Results().Len() && sig.Results().At(i).Name() != "" {
		rv = sig.Results().At(i)
	}
	inspectNoLit(cf.Body, func(z ast.Node) bool {
		switch x := z.(type) {
		case *ast.ReturnStmt:
			if i < len(x.Results) {
				for d := range r243deps(p, cf, x.Results[i], depth, map[types.Object]bool{}) {
					out[d] = true
				}
			}
		case *ast.AssignStmt:
			if rv == nil {
				return true
			}
			for j, l := range x.Lhs {
				if lid, ok := unparen(l).(*ast.Ident); ok && objOf(in, lid) == types.Object(rv) && len(x.Lhs) == len(x.Rhs) {
					for d := range r243deps(p, cf, x.Rhs[j], depth, map[types.Object]bool{}) {
						out[d] = true
					}
				}
			}
		}
		return true
	})
	return out
}

func ruleR243(c *Ctx) {
	p := c.P
	what := "the edge of a sequence flow leaves the shape of its source and arrives on the shape of its target. An end point that is 'corrected' with a coordinate of the other shape (clamped to the source's border when the columns are narrow) lies outside the target shape"
	n := 0
	for _, f := range p.Funcs {
		if f.Body == nil || f.Obj == nil || f.Pkg.PkgPath != pathSchema {
			continue
		}
		sig := f.Obj.Type().(*types.Signature)
		if sig.Params().Len() != 2 || sig.Results().Len() != 1 {
			continue
		}
		if !types.Identical(sig.Params().At(0).Type(), sig.Params().At(1).Type()) {
			continue
		}
		sl, ok := sig.Results().At(0).Type().Underlying().(*types.Slice)
		if !ok || namedOf(sl.Elem()) == nil || namedOf(sl.Elem()).Obj().Name() != "Point" {
			continue
		}
		src, dst := types.Object(sig.Params().At(0)), types.Object(sig.Params().At(1))
		in := info(f)
		inspectNoLit(f.Body, func(m ast.Node) bool {
			rs, ok := m.(*ast.ReturnStmt)
			if !ok || len(rs.Results) != 1 {
				return true
			}
			for _, e := range resolveLocalExpr(in, f, rs.Results[0]) {
				cl, ok := unparen(e).(*ast.CompositeLit)
				if !ok || len(cl.Elts) < 2 {
					continue
				}
				for _, end := range []struct {
					e     ast.Expr
					own   types.Object
					other types.Object
					name  string
				}{{cl.Elts[0], src, dst, "first"}, {cl.Elts[len(cl.Elts)-1], dst, src, "last"}} {
					n++
					deps := r243deps(p, f, end.e, 2, map[types.Object]bool{})
					ok := deps[end.own] && !deps[end.other]
					c.Check(ok, f, end.e, end.name+" waypoint of "+f.QName(), what, ifElse(ok, "computed from "+end.own.Name()+" only", fmt.Sprintf("%s depends on %s=%v, %s=%v", exprString(end.e), end.own.Name(), deps[end.own], end.other.Name(), deps[end.other])))
				}
			}
			return true
		})
	}
	if n == 0 {
		c.Missing("waypoints", "no function (source, target bounds) -> []Point was found in the schema package")
	}
}

func ruleR244(c *Ctx) {
	p := c.P
	what := "encoding/xml writes nothing for an empty list and parsing gives nil back; a model built in code carries make([]T, 0) where the parsed one carries nil. A predicate that tells the two apart (x != nil for 'has incoming flows') names different instantiating nodes for a model and for its re-parsed copy"
	for _, f := range p.Funcs {
		if f.Body == nil || f.Pkg.PkgPath != pathSchema {
			continue
		}
		r := f.Root()
		if r.Obj != nil && (strings.HasPrefix(r.Obj.Name(), "Unmarshal") || strings.HasPrefix(r.Obj.Name(), "Marshal") || strings.HasPrefix(r.Obj.Name(), "PreMarshal")) {
			continue // what is written or read, not a predicate over the model (R102, R138 decide those)
		}
		in := info(f)
		inspectNoLit(f.Body, func(m ast.Node) bool {
			be, ok := m.(*ast.BinaryExpr)
			if !ok || (be.Op != token.EQL && be.Op != token.NEQ) {
				return true
			}
			for _, pair := range [][2]ast.Expr{{be.X, be.Y}, {be.Y, be.X}} {
				tv, ok := in.Types[pair[1]]
				if !ok || !tv.IsNil() {
					continue
				}
				t := in.TypeOf(pair[0])
				if t == nil {
					continue
				}
				if _, isSl := t.Underlying().(*types.Slice); !isSl {
					continue
				}
				// only lists of the model: a field of a schema struct, directly or through an accessor's pointer
				modelList := false
				ast.Inspect(pair[0], func(z ast.Node) bool {
					switch y := z.(type) {
					case *ast.SelectorExpr:
						if fv := fieldOf(in, y); fv != nil && fv.Pkg() != nil && fv.Pkg().Path() == pathSchema {
							modelList = true
						}
					case *ast.StarExpr:
						modelList = true
					}
					return true
				})
				if !modelList {
					continue
				}
				// value used in a condition or returned as a bool
				c.Bad(f, be, "list compared with nil in "+f.QName(), what, exprString(be))
			}
			return true
		})
	}
}

func ruleR245(c *Ctx) {
	p := c.P
	what := "sync.RWMutex is not re-entrant: RLock inside RLock succeeds until a writer queues between the two — from then on the inner RLock waits for the writer and the writer for the outer RLock. A locator whose ApplyTo fetches values through GetVariable locks up for good the first time a token stores a result while somebody reads"
	// per method: the lock fields of the receiver it (transitively, via methods on the same receiver) acquires
	acq := map[*FuncInfo]map[string]bool{}
	recvOf := func(f *FuncInfo) *types.Var {
		if f.Obj == nil {
			return nil
		}
		return f.Obj.Type().(*types.Signature).Recv()
	}
	var acquires func(f *FuncInfo, depth int) map[string]bool
	acquires = func(f *FuncInfo, depth int) map[string]bool {
		if a, ok := acq[f]; ok {
			return a
		}
		out := map[string]bool{}
		acq[f] = out
		rv := recvOf(f)
		if rv == nil || f.Body == nil {
			return out
		}
		in := info(f)
		rk := fmt.Sprintf("%p", types.Object(rv))
		inspectNoLit(f.Body, func(m ast.Node) bool {
			if _, isGo := m.(*ast.GoStmt); isGo {
				return false
			}
			cl, ok := m.(*ast.CallExpr)
			if !ok {
				return true
			}
			if k, op, ok := lockCall(in, cl); ok && (op == "Lock" || op == "RLock") && strings.HasPrefix(k, rk+".") {
				out[strings.TrimPrefix(k, rk)] = true
			}
			if depth > 0 {
				if se, ok := unparen(cl.Fun).(*ast.SelectorExpr); ok {
					if id, ok := unparen(se.X).(*ast.Ident); ok && objOf(in, id) == types.Object(rv) {
						if cf := p.byObj[callee(in, cl)]; cf != nil && cf != f {
							for s := range acquires(cf, depth-1) {
								out[s] = true
							}
						}
					}
				}
			}
			return true
		})
		return out
	}
	for _, f := range p.Funcs {
		if f.Body == nil || !isTargetPkg(p, f.Pkg.PkgPath) || f.Lit != nil {
			continue
		}
		rv := recvOf(f)
		if rv == nil {
			continue
		}
		in := info(f)
		rk := fmt.Sprintf("%p", types.Object(rv))
		ls := locksetsOf(p, f)
		for node, held := range ls {
			if len(held) == 0 {
				continue
			}
			if _, isDefer := node.(*ast.DeferStmt); isDefer {
				continue
			}
			for _, cl := range callsIn(node) {
				se, ok := unparen(cl.Fun).(*ast.SelectorExpr)
				if !ok {
					continue
				}
				id, ok := unparen(se.X).(*ast.Ident)
				if !ok || objOf(in, id) != types.Object(rv) {
					continue
				}
				cf := p.byObj[callee(in, cl)]
				if cf == nil || cf == f {
					continue
				}
				for s := range acquires(cf, 2) {
					if _, has := held[rk+s]; has {
						c.Bad(f, cl, "call of "+cf.QName()+" while "+rv.Name()+s+" is held in "+f.QName(), what, cf.QName()+" acquires "+rv.Name()+s+" again")
					}
				}
			}
		}
	}
}

// isConversionOfNil: []T(nil)
func isConversionOfNil(in *types.Info, e ast.Expr) bool {
	cl, ok := unparen(e).(*ast.CallExpr)
	if !ok || len(cl.Args) != 1 {
		return false
	}
	if tv, ok := in.Types[cl.Fun]; !ok || !tv.IsType() {
		return false
	}
	tv, ok := in.Types[cl.Args[0]]
	return ok && tv.IsNil()
}

// ---- R246–R248 (round 11) ----

func init() {
	register(&Rule{ID: "R246", Title: "a container is added, never replaced: the engine puts a fresh container into a data locator only where the lookup of the same key just failed", Min: 2, Run: ruleR246})
	register(&Rule{ID: "R247", Title: "what is read through a cloned wiring is what the clone carries: no field that CloneFor leaves unset is read through a variable it defined", Min: 1, Run: ruleR247})
	register(&Rule{ID: "R248", Title: "every occurrence that matches a definition is booked: in a satisfier, from the test that the event matches a definition every path to a return sets a bit of a chain (or takes the non-parallel fast path)", Min: 1, Run: ruleR248})
}

func ruleR246(c *Ctx) {
	p := c.P
	what := "the data objects of an instance live in one container per locator; options and task answers add to it. An option that registers a container of its own replaces what the locator held: the objects of an earlier option, or of the locator the user handed in, vanish without a trace"
	n := 0
	for _, f := range p.Funcs {
		if f.Body == nil || f.Pkg.PkgPath != pathBpmn {
			continue
		}
		in := info(f)
		inspectNoLit(f.Body, func(m ast.Node) bool {
			cl, ok := m.(*ast.CallExpr)
			if !ok || len(cl.Args) != 2 {
				return true
			}
			se, ok := unparen(cl.Fun).(*ast.SelectorExpr)
			if !ok || se.Sel.Name != "PutIItemAwareLocator" {
				return true
			}
			n++
			guarded := ""
			for _, pc := range polarConds(p, cl) {
				// !found, found := X.FindIItemAwareLocator(key)
				var id *ast.Ident
				neg := !pc.positive
				e := unparen(pc.cond)
				if u, ok := e.(*ast.UnaryExpr); ok && u.Op == token.NOT {
					e, neg = unparen(u.X), !neg
				}
				id, _ = e.(*ast.Ident)
				if id == nil || !neg {
					continue
				}
				v := objOf(in, id)
				if v == nil {
					continue
				}
				defs, _ := localDefs(in, f.Root().Body, v)
				for _, d := range defs {
					dc, ok := unparen(d).(*ast.CallExpr)
					if !ok || len(dc.Args) != 1 {
						continue
					}
					ds, ok := unparen(dc.Fun).(*ast.SelectorExpr)
					if !ok || ds.Sel.Name != "FindIItemAwareLocator" {
						continue
					}
					if sameRef(in, ds.X, se.X) && exprString(dc.Args[0]) == exprString(cl.Args[0]) {
						guarded = "only where " + exprString(dc) + " found nothing"
					}
				}
			}
			c.Check(guarded != "", f, cl, "container put into "+exprString(se.X)+" in "+f.Root().QName(), what, ifElse(guarded != "", guarded, "not controlled by a failed lookup of "+exprString(cl.Args[0])+" in the same locator"))
			return true
		})
	}
	if n == 0 {
		c.Missing("container registrations", "no call of PutIItemAwareLocator was found in the engine package")
	}
}

func ruleR247(c *Ctx) {
	p := c.P
	what := "CloneFor makes the wiring of a node that is attached to another (a boundary event): it copies what such a node needs and leaves the rest unset. A token built from the clone's fields gets nil for what was left out — the data locator: the first task behind the boundary event that answers with a result panics the engine"
	n := 0
	// clone functions: a method of T that returns a &T{keyed...} lacking some fields
	missing := map[*types.Func]map[string]bool{}
	for _, f := range p.Funcs {
		if f.Body == nil || f.Obj == nil || f.Pkg.PkgPath != pathBpmn || !strings.HasPrefix(f.Obj.Name(), "Clone") {
			continue
		}
		T := recvNamed(f.Obj)
		if T == nil {
			continue
		}
		st, ok := T.Underlying().(*types.Struct)
		if !ok {
			continue
		}
		in := info(f)
		inspectNoLit(f.Body, func(m ast.Node) bool {
			cl, ok := m.(*ast.CompositeLit)
			if !ok || namedOf(in.TypeOf(cl)) != T {
				return true
			}
			set := map[string]bool{}
			for _, el := range cl.Elts {
				if kv, ok := el.(*ast.KeyValueExpr); ok {
					if k, ok := kv.Key.(*ast.Ident); ok {
						set[k.Name] = true
					}
				}
			}
			ms := map[string]bool{}
			for i := 0; i < st.NumFields(); i++ {
				if !set[st.Field(i).Name()] {
					ms[st.Field(i).Name()] = true
				}
			}
			// fields the function assigns afterwards count as set
			inspectNoLit(f.Body, func(z ast.Node) bool {
				if as, ok := z.(*ast.AssignStmt); ok {
					for _, l := range as.Lhs {
						if fv := fieldOf(in, l); fv != nil {
							delete(ms, fv.Name())
						}
					}
				}
				return true
			})
			missing[f.Obj] = ms
			return true
		})
	}
	for _, f := range p.Funcs {
		if f.Body == nil || f.Pkg.PkgPath != pathBpmn {
			continue
		}
		in := info(f)
		inspectNoLit(f.Body, func(m ast.Node) bool {
			as, ok := m.(*ast.AssignStmt)
			if !ok || len(as.Rhs) != 1 {
				return true
			}
			cl, ok := unparen(as.Rhs[0]).(*ast.CallExpr)
			if !ok {
				return true
			}
			fn := callee(in, cl)
			ms, isClone := missing[fn]
			if !isClone || len(as.Lhs) == 0 {
				return true
			}
			id, ok := unparen(as.Lhs[0]).(*ast.Ident)
			if !ok {
				return true
			}
			v := objOf(in, id)
			if v == nil {
				return true
			}
			n++
			var bad []string
			ast.Inspect(f.Root().Body, func(z ast.Node) bool {
				se, ok := z.(*ast.SelectorExpr)
				if !ok {
					return true
				}
				if bid, ok := unparen(se.X).(*ast.Ident); ok && objOf(in, bid) == v && ms[se.Sel.Name] {
					if pa, ok := p.Parent(se).(*ast.AssignStmt); ok {
						for _, l := range pa.Lhs {
							if l == ast.Expr(se) {
								return true // a write sets it
							}
						}
					}
					bad = append(bad, exprString(se)+" at "+c.pos(se))
				}
				return true
			})
			var names []string
			for k := range ms {
				names = append(names, k)
			}
			c.Check(len(bad) == 0, f, as, "reads through the clone "+id.Name+" in "+f.Root().QName(), what, ifElse(len(bad) == 0, "none of the fields "+fn.Name()+" leaves unset ("+strings.Join(names, ",")+") is read through it", strings.Join(bad, "; ")+": "+fn.Name()+" leaves it unset"))
			return true
		})
	}
	if n == 0 {
		c.Missing("cloned wirings", "no variable defined from a Clone* method of the wiring was found")
	}
}

func ruleR248(c *Ctx) {
	p := c.P
	what := "a parallel-multiple catch has fired exactly k times whenever every definition has been matched exactly k times: each occurrence has to be booked in some chain, however far one definition runs ahead of the others. A bound on the number of open chains ('the newest chain absorbs the repeat') drops the occurrence: A,A,A,A,B,B,B,B fires three times"
	n := 0
	for _, f := range p.Funcs {
		if f.Body == nil || f.Obj == nil || f.Obj.Name() != "Satisfy" || f.Pkg.PkgPath != pathLogic {
			continue
		}
		in := info(f)
		g := p.Graph(f)
		inspectNoLit(f.Body, func(m ast.Node) bool {
			is, ok := m.(*ast.IfStmt)
			if !ok {
				return true
			}
			isMatch := mentionsDeep(is.Cond, func(z ast.Node) bool {
				cl, ok := z.(*ast.CallExpr)
				if !ok {
					return false
				}
				fn := callee(in, cl)
				return fn != nil && fn.Name() == "MatchesEventInstance"
			})
			if !isMatch {
				return true
			}
			// only satisfiers that keep chains
			keeps := false
			inspectNoLit(is.Body, func(z ast.Node) bool {
				if cl, ok := z.(*ast.CallExpr); ok {
					if fn := callee(in, cl); fn != nil && fn.Name() == "Set" && fn.Pkg() != nil && strings.Contains(fn.Pkg().Path(), "bitset") {
						keeps = true
					}
				}
				return true
			})
			if !keeps {
				return true
			}
			n++
			entry, ok := g.EntryOfStmts(is.Body.List)
			if !ok {
				c.Bad(f, is, "booking of a matched occurrence in "+f.QName(), what, "the body of the match test is not in the flow graph")
				return true
			}
			booked := func(nd ast.Node) bool {
				hit := false
				inspectNoLit(nd, func(z ast.Node) bool {
					switch x := z.(type) {
					case *ast.CallExpr:
						if fn := callee(in, x); fn != nil && fn.Name() == "Set" && fn.Pkg() != nil && strings.Contains(fn.Pkg().Path(), "bitset") {
							hit = true
						}
						// a same-package helper that sets a bit on every path (startChain)
						if cf := p.byObj[callee(in, x)]; cf != nil && cf.Pkg == f.Pkg && cf.Body != nil {
							cin := info(cf)
							cg := p.Graph(cf)
							if len(cg.MustPassBeforeExit(cg.Entry(), true, func(y ast.Node) bool {
								h := false
								inspectNoLit(y, func(w ast.Node) bool {
									if c2, ok := w.(*ast.CallExpr); ok {
										if fn := callee(cin, c2); fn != nil && fn.Name() == "Set" && fn.Pkg() != nil && strings.Contains(fn.Pkg().Path(), "bitset") {
											h = true
										}
									}
									return true
								})
								return h
							})) == 0 {
								hit = true
							}
						}
					case *ast.AssignStmt:
						// the fast path: matched = true
						for i, l := range x.Lhs {
							if id, ok := unparen(l).(*ast.Ident); ok && id.Name == "matched" && i < len(x.Rhs) && isIdentNamed(x.Rhs[i], "true") {
								hit = true
							}
						}
					}
					return true
				})
				return hit
			}
			badPaths := g.MustPassBeforeExit(entry, true, booked)
			wit := "every path books the occurrence (sets a bit of a chain) or is the non-parallel fast path"
			if len(badPaths) > 0 {
				wit = fmt.Sprintf("a path leaves without booking the occurrence: lines %v", g.Lines(badPaths[0]))
			}
			c.Check(len(badPaths) == 0, f, is, "booking of a matched occurrence in "+f.QName(), what, wit)
			return true
		})
	}
	if n == 0 {
		c.Missing("satisfier", "no Satisfy method that keeps chains was found in pkg/logic")
	}
}

func init() {
	register(&Rule{ID: "R249", Title: "a delivery reads the list of consumers and never writes it: a function that is handed the list by pointer (ForwardEvent) does not assign through the pointer, re-slice it for appending, or clear it", Min: 1, Run: ruleR249})
}

func ruleR249(c *Ctx) {
	p := c.P
	what := "every caller hands ForwardEvent a list that concurrent deliveries share (under a read lock, or as a slice header that aliases the same backing array). Filtering the list in place — kept := (*list)[:0]; append; clear the tail — makes every delivery a writer: a data race, consumers that lose or see events twice, a nil slot called by a delivery that overlaps"
	n := 0
	for _, f := range p.Funcs {
		if f.Body == nil || f.Obj == nil || f.Pkg.PkgPath != pathEvent {
			continue
		}
		sig := f.Obj.Type().(*types.Signature)
		var lp *types.Var
		for i := 0; i < sig.Params().Len(); i++ {
			if pt, ok := sig.Params().At(i).Type().(*types.Pointer); ok {
				if sl, ok := pt.Elem().Underlying().(*types.Slice); ok && isNamed(sl.Elem(), pathEvent, "IConsumer") {
					lp = sig.Params().At(i)
				}
			}
		}
		if lp == nil {
			continue
		}
		n++
		in := info(f)
		viaParam := func(e ast.Expr) bool {
			hit := false
			ast.Inspect(e, func(z ast.Node) bool {
				if id, ok := z.(*ast.Ident); ok && objOf(in, id) == types.Object(lp) {
					hit = true
				}
				return true
			})
			return hit
		}
		var bad []string
		ast.Inspect(f.Body, func(m ast.Node) bool {
			switch x := m.(type) {
			case *ast.AssignStmt:
				for _, l := range x.Lhs {
					if _, plain := unparen(l).(*ast.Ident); plain {
						continue
					}
					if viaParam(l) {
						bad = append(bad, "assignment to "+exprString(l)+" at "+c.pos(x))
					}
				}
				for _, r := range x.Rhs {
					// a re-slice of the shared list kept for appending: (*list)[:0], (*list)[:k]
					if se, ok := unparen(r).(*ast.SliceExpr); ok && viaParam(se.X) {
						bad = append(bad, "re-slice "+exprString(r)+" at "+c.pos(x)+" shares the backing array")
					}
				}
			case *ast.CallExpr:
				if (isBuiltin(in, x, "clear") || isBuiltin(in, x, "copy")) && len(x.Args) > 0 && viaParam(x.Args[0]) {
					bad = append(bad, exprString(x)+" at "+c.pos(x))
				}
				if isBuiltin(in, x, "append") && len(x.Args) > 0 && viaParam(x.Args[0]) {
					bad = append(bad, exprString(x)+" at "+c.pos(x)+" may write the shared backing array")
				}
			}
			return true
		})
		c.Check(len(bad) == 0, f, f.Decl, f.QName()+" only reads the list "+lp.Name(), what, ifElse(len(bad) == 0, "no write through "+lp.Name(), strings.Join(bad, "; ")))
	}
	if n == 0 {
		c.Missing("forwarding function", "no function of pkg/event that takes *[]IConsumer was found")
	}
}

func init() {
	register(&Rule{ID: "R251", Title: "a decision that was asked for is waited for: the select in which a token receives the error handler's decision has no alternative but the cancellation", Min: 1, Run: ruleR251})
}

func ruleR251(c *Ctx) {
	p := c.P
	what := "a task that answers with an error and a handler channel has promised a decision (retry, skip, exit); the token waits for it or for the cancellation. A third alternative — a timer 'so that a worker that never decides cannot hold the token' — turns a late exit or retry into a skip: the token walks on past a task that was to be repeated"
	n := 0
	for _, f := range p.Funcs {
		if f.Body == nil || f.Pkg.PkgPath != pathBpmn {
			continue
		}
		in := info(f)
		inspectNoLit(f.Body, func(m ast.Node) bool {
			sel, ok := m.(*ast.SelectStmt)
			if !ok {
				return true
			}
			rxOf := func(cc *ast.CommClause) ast.Expr {
				var e ast.Expr
				switch s := cc.Comm.(type) {
				case *ast.ExprStmt:
					e = s.X
				case *ast.AssignStmt:
					if len(s.Rhs) == 1 {
						e = s.Rhs[0]
					}
				}
				if u, ok := unparen(e).(*ast.UnaryExpr); ok && u.Op == token.ARROW {
					return u.X
				}
				return nil
			}
			isDecision := false
			for _, st := range sel.Body.List {
				cc := st.(*ast.CommClause)
				if cc.Comm == nil {
					continue
				}
				if rx := rxOf(cc); rx != nil {
					if et, ok := chanElem(in.TypeOf(rx)); ok && isNamed(et, pathBpmn, "ErrHandler") {
						isDecision = true
					}
				}
			}
			if !isDecision {
				return true
			}
			n++
			var extra []string
			for _, st := range sel.Body.List {
				cc := st.(*ast.CommClause)
				if cc.Comm == nil {
					extra = append(extra, "default at "+c.pos(cc))
					continue
				}
				rx := rxOf(cc)
				if rx == nil {
					extra = append(extra, "send at "+c.pos(cc))
					continue
				}
				if et, ok := chanElem(in.TypeOf(rx)); ok && isNamed(et, pathBpmn, "ErrHandler") {
					continue
				}
				if isCtxDoneCall(in, rx) {
					continue
				}
				extra = append(extra, "<-"+exprString(rx)+" at "+c.pos(cc))
			}
			c.Check(len(extra) == 0, f, sel, "wait for the handler's decision in "+f.Root().QName(), what, ifElse(len(extra) == 0, "the decision or the cancellation", "also: "+strings.Join(extra, "; ")))
			return true
		})
	}
	if n == 0 {
		c.Missing("decision wait", "no select that receives an ErrHandler was found")
	}
}

// r234source: what a list expression names — the field it reads, or the function whose result it is.
func r234source(in *types.Info, e ast.Expr) types.Object {
	if fv := fieldOf(in, e); fv != nil {
		return fv
	}
	if cl, ok := unparen(e).(*ast.CallExpr); ok {
		if fn := callee(in, cl); fn != nil {
			return fn
		}
	}
	return nil
}

func init() {
	register(&Rule{ID: "R254", Title: "a reader takes what was written: an UnmarshalXML method does not rewrite a text attribute it has decoded (no assignment to a string field of the receiver computed from that field, whitespace trimming aside)", Min: 0, Run: ruleR254})
	register(&Rule{ID: "R255", Title: "the decoding alias decodes the whole element: the local type an UnmarshalXML method decodes into (`type a T`) has no UnmarshalXML of its own — none promoted from an embedded field either", Min: 4, Run: ruleR255})
}

func ruleR254(c *Ctx) {
	p := c.P
	what := "parse is the inverse of marshal: MarshalXML writes the attribute verbatim, so a reader that 'repairs' it (a unit appended to a unit-less timeout) makes the re-parsed model differ from the one that was written — and the engine behave differently on the two (no timeout vs. a timeout that fires)"
	for _, f := range p.Funcs {
		if f.Body == nil || f.Obj == nil || f.Obj.Name() != "UnmarshalXML" || f.Pkg.PkgPath != pathSchema {
			continue
		}
		in := info(f)
		rv := f.Obj.Type().(*types.Signature).Recv()
		inspectNoLit(f.Body, func(m ast.Node) bool {
			as, ok := m.(*ast.AssignStmt)
			if !ok {
				return true
			}
			for i, l := range as.Lhs {
				fv := fieldOf(in, l)
				if fv == nil {
					continue
				}
				if b, ok := fv.Type().Underlying().(*types.Basic); !ok || b.Info()&types.IsString == 0 {
					continue
				}
				if r := rootIdent(l); r == nil || objOf(in, r) != types.Object(rv) {
					continue
				}
				rewrites := as.Tok != token.ASSIGN && as.Tok != token.DEFINE
				if !rewrites && i < len(as.Rhs) && len(as.Lhs) == len(as.Rhs) {
					// t.X = g(t.X): computed from itself
					self := mentionsDeep(as.Rhs[i], func(z ast.Node) bool {
						e, ok := z.(ast.Expr)
						return ok && sameRef(in, e, l)
					})
					if self {
						rewrites = true
						if cl, ok := unparen(as.Rhs[i]).(*ast.CallExpr); ok {
							if fn := callee(in, cl); fn != nil && fn.Pkg() != nil && fn.Pkg().Path() == "strings" && strings.HasPrefix(fn.Name(), "Trim") && fn.Name() != "TrimPrefix" && fn.Name() != "TrimSuffix" {
								rewrites = false
							}
						}
					}
				}
				if rewrites {
					c.Bad(f, as, "decoded text "+exprString(l)+" rewritten in "+f.QName(), what, exprString(l)+" "+as.Tok.String()+" ... at "+c.pos(as))
				}
			}
			return true
		})
	}
}

func ruleR255(c *Ctx) {
	p := c.P
	what := "`type a T; var out a; d.DecodeElement(&out, &start)` decodes the fields of T with the default decoder because the new type has none of T's methods. It still has the methods promoted from T's embedded fields: if an embedded base type has a live UnmarshalXML, DecodeElement calls that one and only the base part is filled — a diagram loses its plane, a shape keeps nothing but its id"
	n := 0
	for _, f := range p.Funcs {
		if f.Body == nil || f.Obj == nil || f.Obj.Name() != "UnmarshalXML" || f.Pkg.PkgPath != pathSchema {
			continue
		}
		in := info(f)
		inspectNoLit(f.Body, func(m ast.Node) bool {
			cl, ok := m.(*ast.CallExpr)
			if !ok || len(cl.Args) == 0 {
				return true
			}
			fn := callee(in, cl)
			if fn == nil || fn.Pkg() == nil || fn.Pkg().Path() != "encoding/xml" || (fn.Name() != "DecodeElement" && fn.Name() != "Decode") {
				return true
			}
			t := in.TypeOf(cl.Args[0])
			pt, ok := t.(*types.Pointer)
			if !ok {
				return true
			}
			nt, ok := pt.Elem().(*types.Named)
			if !ok || nt.Obj().Parent() == nt.Obj().Pkg().Scope() {
				return true // not a function-local type
			}
			n++
			ms := types.NewMethodSet(pt)
			sel := ms.Lookup(nt.Obj().Pkg(), "UnmarshalXML")
			wit := "the method set of *" + nt.Obj().Name() + " has no UnmarshalXML"
			if sel != nil {
				wit = "*" + nt.Obj().Name() + " has UnmarshalXML promoted from " + typeString(sel.Recv()) + " (path " + fmt.Sprint(sel.Index()) + "): the decoder calls it instead of decoding the fields"
				if so, ok := sel.Obj().(*types.Func); ok {
					if r := recvNamed(so); r != nil {
						wit = "*" + nt.Obj().Name() + " has UnmarshalXML promoted from the embedded " + r.Obj().Name() + ": the decoder calls it instead of decoding the fields"
					}
				}
			}
			c.Check(sel == nil, f, cl, "decoding alias "+nt.Obj().Name()+" in "+f.QName(), what, wit)
			return true
		})
	}
	if n == 0 {
		c.Missing("decoding aliases", "no UnmarshalXML method that decodes into a function-local type was found")
	}
}

func init() {
	register(&Rule{ID: "R256", Title: "what happens inside a sub-process is seen outside: the relay of a sub-process forwards every inner trace but the ones it names — the forwarding send is the unconditional content of the default clause of its dispatch", Min: 1, Run: ruleR256})
}

func ruleR256(c *Ctx) {
	p := c.P
	what := "observers of the instance see a sub-process as its content spliced in place: the relay hands every inner trace on, except the end-of-scope bookkeeping it names. Turned into a list of trace kinds 'worth relaying', everything the list forgets is dropped — the landmark of a nested sub-process, and any trace kind added later"
	n := 0
	for _, f := range p.Funcs {
		if f.Body == nil || f.Pkg.PkgPath != pathBpmn {
			continue
		}
		r := f.Root()
		if r.Obj == nil || recvNamed(r.Obj) == nil || recvNamed(r.Obj).Obj().Name() != "subProcess" {
			continue
		}
		in := info(f)
		inspectNoLit(f.Body, func(m ast.Node) bool {
			ts, ok := m.(*ast.TypeSwitchStmt)
			if !ok {
				return true
			}
			isRelay := false
			var def *ast.CaseClause
			for _, st := range ts.Body.List {
				cc := st.(*ast.CaseClause)
				if cc.List == nil {
					def = cc
				}
				for _, e := range cc.List {
					if isNamed(in.TypeOf(e), pathBpmn, "CeaseFlowTrace") {
						isRelay = true
					}
				}
			}
			if !isRelay {
				return true
			}
			// only the relay proper: some clause sends to a tracer
			n++
			if def == nil {
				c.Bad(f, ts, "relay dispatch of "+f.Root().QName(), what, "the dispatch has no default clause: only the listed kinds are relayed")
				return true
			}
			okSend := false
			for _, st := range def.Body {
				es, ok := st.(*ast.ExprStmt)
				if !ok {
					continue
				}
				if cl, ok := es.X.(*ast.CallExpr); ok && isTracerMethod(in, cl, "Send") {
					okSend = true
				}
			}
			c.Check(okSend, f, def, "relay dispatch of "+f.Root().QName(), what, ifElse(okSend, "the default clause forwards the trace unconditionally", "the default clause does not forward the trace as a plain statement (it is conditional, or missing)"))
			return true
		})
	}
	if n == 0 {
		c.Missing("relay dispatch", "no type switch of the sub-process that has a CeaseFlowTrace case was found")
	}
}

func init() {
	register(&Rule{ID: "R257", Title: "every token that reaches an end event completes there: whatever an end event answers a request with is completeAction", Min: 2, Run: ruleR257})
}

func ruleR257(c *Ctx) {
	p := c.P
	what := "the token turns completeAction into a CompletionTrace for the end event and ends. An end event that answers the second token with noAction ('already reported') lets it end without the CompletionTrace: two tokens arrived, one completion is observed"
	n := 0
	for _, f := range p.Funcs {
		if f.Body == nil || f.Pkg.PkgPath != pathBpmn {
			continue
		}
		r := f.Root()
		if r.Obj == nil || recvNamed(r.Obj) == nil || recvNamed(r.Obj).Obj().Name() != "endEvent" {
			continue
		}
		in := info(f)
		inspectNoLit(f.Body, func(m ast.Node) bool {
			ss, ok := m.(*ast.SendStmt)
			if !ok {
				return true
			}
			et, isCh := chanElem(in.TypeOf(ss.Chan))
			if !isCh || !isNamed(et, pathBpmn, "IAction") {
				return true
			}
			n++
			okAll := true
			var got []string
			for _, src := range resolveLocalExpr(in, f, ss.Value) {
				t := in.TypeOf(src)
				got = append(got, typeString(t))
				if !isNamed(t, pathBpmn, "completeAction") {
					okAll = false
				}
			}
			c.Check(okAll, f, ss, "answer of the end event in "+f.Root().QName(), what, "answers with "+strings.Join(got, ", "))
			return true
		})
	}
	if n == 0 {
		c.Missing("end event answers", "no send of an action by the end event was found")
	}
}

func init() {
	register(&Rule{ID: "R258", Title: "an expression engine is made for the evaluation that asks for it: what GetEngine returns is the result of calling a registered constructor in that very call (no pool, no free list)", Min: 1, Run: ruleR258})
}

func ruleR258(c *Ctx) {
	p := c.P
	what := "an engine keeps what it was given: the expr engine merges the instance's variables into its own environment and never clears it. Built per evaluation that is harmless; handed out again (a pool of idle engines 'to save allocations') the next instance evaluates its conditions over the previous instance's variables and takes the other instance's branch"
	n := 0
	for _, f := range p.Funcs {
		if f.Body == nil || f.Obj == nil || f.Pkg.PkgPath != pathExpr || f.Lit != nil {
			continue
		}
		sig := f.Obj.Type().(*types.Signature)
		if sig.Results().Len() != 1 || !isNamed(sig.Results().At(0).Type(), pathExpr, "IEngine") {
			continue
		}
		n++
		in := info(f)
		var srcs []ast.Expr
		if rv := sig.Results().At(0); rv.Name() != "" {
			defs, _ := localDefs(in, f.Body, rv)
			srcs = append(srcs, defs...)
			// select / receive forms: `case engine = <-ch`
			inspectNoLit(f.Body, func(m ast.Node) bool {
				if cc, ok := m.(*ast.CommClause); ok && cc.Comm != nil {
					if as, ok := cc.Comm.(*ast.AssignStmt); ok {
						for i, l := range as.Lhs {
							if id, ok := unparen(l).(*ast.Ident); ok && objOf(in, id) == types.Object(rv) && i < len(as.Rhs) {
								srcs = append(srcs, as.Rhs[i])
							}
						}
					}
				}
				return true
			})
		}
		inspectNoLit(f.Body, func(m ast.Node) bool {
			if rs, ok := m.(*ast.ReturnStmt); ok && len(rs.Results) == 1 {
				srcs = append(srcs, resolveLocalExpr(in, f, rs.Results[0])...)
			}
			return true
		})
		var bad []string
		for _, s := range srcs {
			cl, ok := unparen(s).(*ast.CallExpr)
			okSrc := false
			if ok {
				// a call of a function VALUE (a registered constructor), not of a declared function or method
				if callee(in, cl) == nil {
					if _, isFn := in.TypeOf(cl.Fun).Underlying().(*types.Signature); isFn {
						okSrc = true
					}
				}
			}
			if !okSrc {
				bad = append(bad, exprString(s)+" at "+c.pos(s))
			}
		}
		c.Check(len(bad) == 0 && len(srcs) > 0, f, f.Decl, "engines handed out by "+f.QName(), what, ifElse(len(bad) == 0, "every result is a fresh call of a registered constructor", "not a constructor call: "+strings.Join(bad, "; ")))
	}
	if n == 0 {
		c.Missing("engine source", "no function of pkg/expression that returns IEngine was found")
	}
}

func init() {
	register(&Rule{ID: "R259", Title: "a formal expression is recognised under any prefix: the test that classifies an xsi:type as tFormalExpression looks at the attribute alone — it reads no package-level table (the document, not the library, binds prefixes)", Min: 1, Run: ruleR259})
}

func ruleR259(c *Ctx) {
	p := c.P
	what := "a document may bind the BPMN namespace to any prefix (bpmn2:, semantic:). A reader that accepts only the prefix of the library's own table decodes the conditions of such a document as informal expressions, which count as always true: an exclusive gateway takes its first conditional flow whatever the data says"
	n := 0
	for _, f := range p.Funcs {
		if f.Body == nil || f.Obj == nil || f.Obj.Name() != "UnmarshalXML" || f.Pkg.PkgPath != pathSchema {
			continue
		}
		if r := recvNamed(f.Obj); r == nil || r.Obj().Name() != "AnExpression" {
			continue
		}
		// the classification code: this method and the same-package helpers it reaches that name tFormalExpression
		for _, cf := range withSamePkgCallees(p, f, 2) {
			if cf.Body == nil {
				continue
			}
			cin := info(cf)
			names := false
			ast.Inspect(cf.Body, func(z ast.Node) bool {
				if bl, ok := z.(*ast.BasicLit); ok && bl.Kind == token.STRING && strings.Contains(bl.Value, "tFormalExpression") {
					names = true
				}
				return true
			})
			if !names {
				continue
			}
			n++
			var bad []string
			ast.Inspect(cf.Body, func(z ast.Node) bool {
				if y, ok := z.(*ast.Ident); ok {
					if v, ok := cin.Uses[y].(*types.Var); ok && !v.IsField() && v.Pkg() != nil && v.Parent() == v.Pkg().Scope() {
						bad = append(bad, v.Name()+" at "+c.pos(y))
					}
				}
				return true
			})
			c.Check(len(bad) == 0, cf, cf.Decl, "test for a formal expression in "+cf.QName(), what, ifElse(len(bad) == 0, "reads the attribute only", "reads package state: "+strings.Join(bad, "; ")))
		}
	}
	if n == 0 {
		c.Missing("formal test", "no code reached from AnExpression.UnmarshalXML names tFormalExpression")
	}
}

func init() {
	register(&Rule{ID: "R260", Title: "defaults are handed out as fresh values: an exported Default*/New* function of the schema package that returns a pointer never returns the address of a package-level variable", Min: 1, Run: ruleR260})
	register(&Rule{ID: "R261", Title: "the engine instantiates the document it is handed: the process element Engine.NewProcess passes on depends on the definitions argument and on nothing the engine keeps", Min: 1, Run: ruleR261})
}

func ruleR260(c *Ctx) {
	p := c.P
	what := "callers adjust what a Default* function returns (a thumbnail layout with narrower gaps). Returned as the address of one shared variable, the adjustment becomes the default of every later caller: a diagram laid out 'with the defaults' gets the foreign gaps and its shapes overlap"
	n := 0
	for _, f := range p.Funcs {
		if f.Body == nil || f.Obj == nil || f.Pkg.PkgPath != pathSchema || !f.Obj.Exported() || recvNamed(f.Obj) != nil {
			continue
		}
		if !strings.HasPrefix(f.Obj.Name(), "Default") && !strings.HasPrefix(f.Obj.Name(), "New") {
			continue
		}
		sig := f.Obj.Type().(*types.Signature)
		if sig.Results().Len() != 1 {
			continue
		}
		if _, ok := sig.Results().At(0).Type().(*types.Pointer); !ok {
			continue
		}
		n++
		in := info(f)
		var bad []string
		inspectNoLit(f.Body, func(m ast.Node) bool {
			rs, ok := m.(*ast.ReturnStmt)
			if !ok || len(rs.Results) != 1 {
				return true
			}
			for _, src := range resolveLocalExpr(in, f, rs.Results[0]) {
				e := unparen(src)
				if u, ok := e.(*ast.UnaryExpr); ok && u.Op == token.AND {
					e = unparen(u.X)
				}
				if id := rootIdent(e); id != nil {
					if v, ok := objOf(in, id).(*types.Var); ok && v.Pkg() != nil && v.Parent() == v.Pkg().Scope() {
						bad = append(bad, exprString(src)+" at "+c.pos(rs))
					}
				}
			}
			return true
		})
		c.Check(len(bad) == 0, f, f.Decl, "value handed out by "+f.QName(), what, ifElse(len(bad) == 0, "fresh on every call", "shared: "+strings.Join(bad, "; ")))
	}
	if n == 0 {
		c.Missing("default constructors", "no exported Default*/New* function of the schema package returns a pointer")
	}
}

func ruleR261(c *Ctx) {
	p := c.P
	what := "a definitions id is a name, not an identity: two documents (two revisions of a model) may carry the same one. An engine that remembers 'the executable process of definitions X' instantiates the first document's process for the second: the old revision's activities are requested"
	n := 0
	for _, f := range p.Funcs {
		if f.Body == nil || f.Obj == nil || f.Pkg.PkgPath != pathBpmn || f.Lit != nil {
			continue
		}
		T := recvNamed(f.Obj)
		if T == nil || T.Obj().Name() != "Engine" {
			continue
		}
		sig := f.Obj.Type().(*types.Signature)
		var defs types.Object
		for i := 0; i < sig.Params().Len(); i++ {
			if pt, ok := sig.Params().At(i).Type().(*types.Pointer); ok && isNamed(pt.Elem(), pathSchema, "Definitions") {
				defs = sig.Params().At(i)
			}
		}
		if defs == nil {
			continue
		}
		in := info(f)
		inspectNoLit(f.Body, func(m ast.Node) bool {
			cl, ok := m.(*ast.CallExpr)
			if !ok {
				return true
			}
			fn := callee(in, cl)
			if fn == nil || fn.Pkg() == nil || fn.Pkg().Path() != pathBpmn || recvNamed(fn) != nil || !strings.HasPrefix(fn.Name(), "NewProcess") {
				return true
			}
			for _, a := range cl.Args {
				t := in.TypeOf(a)
				isElem := false
				if pt, ok := t.(*types.Pointer); ok && isNamed(pt.Elem(), pathSchema, "Process") {
					isElem = true
				}
				if sl, ok := t.Underlying().(*types.Slice); ok {
					if pt, ok := sl.Elem().(*types.Pointer); ok && isNamed(pt.Elem(), pathSchema, "Process") {
						isElem = true
					}
				}
				if !isElem {
					continue
				}
				n++
				deps := r243deps(p, f, a, 2, map[types.Object]bool{})
				var others []string
				for d := range deps {
					if d != defs {
						others = append(others, d.Name())
					}
				}
				ok := deps[defs] && len(others) == 0
				c.Check(ok, f, a, "process element "+exprString(a)+" handed on by "+f.QName(), what, ifElse(ok, "depends on "+defs.Name()+" only", fmt.Sprintf("depends on %s=%v and on %v", defs.Name(), deps[defs], others)))
			}
			return true
		})
	}
	if n == 0 {
		c.Missing("engine instantiation", "no method of Engine hands a process element to NewProcess / NewProcessSet")
	}
}

func init() {
	register(&Rule{ID: "R262", Title: "every message flow of the document is known to the set: the loop that indexes the message flows stores each one unconditionally", Min: 1, Run: ruleR262})
	register(&Rule{ID: "R263", Title: "a completion monitor listens where it reports: every Subscribe / Unsubscribe / Send of a ceaseFlowMonitor is on the tracer it was handed", Min: 2, Run: ruleR263})
}

func ruleR262(c *Ctx) {
	p := c.P
	what := "a process that was instantiated by a message may throw itself (a chain of pools, a reply). An index that keeps only the flows leaving the processes that run from the start drops those throws silently: the third pool is never instantiated and the set reports completion; the first pool waits for a reply that was never delivered"
	n := 0
	for _, f := range p.Funcs {
		if f.Body == nil || f.Pkg.PkgPath != pathBpmn {
			continue
		}
		in := info(f)
		inspectNoLit(f.Body, func(m ast.Node) bool {
			as, ok := m.(*ast.AssignStmt)
			if !ok || len(as.Lhs) != 1 {
				return true
			}
			ix, ok := unparen(as.Lhs[0]).(*ast.IndexExpr)
			if !ok {
				return true
			}
			mp, ok := in.TypeOf(ix.X).Underlying().(*types.Map)
			if !ok {
				return true
			}
			pt, ok := mp.Elem().(*types.Pointer)
			if !ok || !isNamed(pt.Elem(), pathSchema, "MessageFlow") {
				return true
			}
			n++
			var conds []string
			lp := innermostLoop(p, as)
			for _, pc := range polarConds(p, as) {
				if _, isFor := p.Parent(pc.cond).(*ast.ForStmt); isFor {
					continue
				}
				if lp != nil && pc.cond.Pos() >= f.Root().Body.Pos() {
					conds = append(conds, exprString(pc.cond))
				}
			}
			c.Check(len(conds) == 0 && lp != nil, f, as, "message flow indexed in "+f.Root().QName(), what, ifElse(len(conds) == 0, "stored for every flow of the loop", "stored only if "+strings.Join(conds, " and ")))
			return true
		})
	}
	if n == 0 {
		c.Missing("message flow index", "no store into a map of message flows was found")
	}
}

func ruleR263(c *Ctx) {
	p := c.P
	what := "the monitor is handed the private tracer of its scope: only that scope's start events are traced there. Listening on the instance's public tracer instead — which several instances of one model may share — it counts the neighbour's start events (the same *schema.StartEvent pointers) as its own and reports completion before its own second start event has fired"
	n := 0
	for _, f := range p.Funcs {
		if f.Body == nil || f.Obj == nil || f.Obj.Name() != "ceaseFlowMonitor" || f.Pkg.PkgPath != pathBpmn {
			continue
		}
		sig := f.Obj.Type().(*types.Signature)
		var tp types.Object
		for i := 0; i < sig.Params().Len(); i++ {
			if isNamed(sig.Params().At(i).Type(), pathTracing, "ITracer") {
				tp = sig.Params().At(i)
			}
		}
		if tp == nil {
			continue
		}
		n++
		in := info(f)
		var bad []string
		ast.Inspect(f.Body, func(m ast.Node) bool {
			cl, ok := m.(*ast.CallExpr)
			if !ok {
				return true
			}
			for _, meth := range []string{"Subscribe", "SubscribeChannel", "Unsubscribe", "Send"} {
				if isTracerMethod(in, cl, meth) {
					se := unparen(cl.Fun).(*ast.SelectorExpr)
					okRecv := false
					for _, src := range resolveLocalExpr(in, f, se.X) {
						if id, isId := unparen(src).(*ast.Ident); isId && objOf(in, id) == tp {
							okRecv = true
						}
					}
					if !okRecv {
						bad = append(bad, exprString(cl.Fun)+" at "+c.pos(cl))
					}
				}
			}
			return true
		})
		c.Check(len(bad) == 0, f, f.Decl, "tracer used by "+f.QName(), what, ifElse(len(bad) == 0, "only the tracer parameter "+tp.Name(), "another tracer: "+strings.Join(bad, "; ")))
	}
	if n == 0 {
		c.Missing("completion monitors", "no ceaseFlowMonitor that takes a tracer was found")
	}
}

func init() {
	register(&Rule{ID: "R264", Title: "a sub-process is over when its scope has ceased, not when a token ended: in the relay's dispatch only the CeaseFlowTrace clause leaves the loop (break, return, goto)", Min: 1, Run: ruleR264})
}

func ruleR264(c *Ctx) {
	p := c.P
	what := "the parent token continues only after every inner token is consumed — that is what CeaseFlowTrace of the inner scope says. Ending the activation at the CompletionTrace of an end event releases the parent while a parallel branch inside is still running: the instance reports completion with a task of the sub-process unanswered"
	n := 0
	for _, f := range p.Funcs {
		if f.Body == nil || f.Pkg.PkgPath != pathBpmn {
			continue
		}
		r := f.Root()
		if r.Obj == nil || recvNamed(r.Obj) == nil || recvNamed(r.Obj).Obj().Name() != "subProcess" {
			continue
		}
		in := info(f)
		inspectNoLit(f.Body, func(m ast.Node) bool {
			ts, ok := m.(*ast.TypeSwitchStmt)
			if !ok {
				return true
			}
			var cease *ast.CaseClause
			for _, st := range ts.Body.List {
				cc := st.(*ast.CaseClause)
				for _, e := range cc.List {
					if isNamed(in.TypeOf(e), pathBpmn, "CeaseFlowTrace") {
						cease = cc
					}
				}
			}
			if cease == nil {
				return true
			}
			n++
			var bad []string
			for _, st := range ts.Body.List {
				cc := st.(*ast.CaseClause)
				if cc == cease {
					continue
				}
				for _, s := range cc.Body {
					inspectNoLit(s, func(z ast.Node) bool {
						switch x := z.(type) {
						case *ast.ReturnStmt:
							bad = append(bad, "return at "+c.pos(x))
						case *ast.BranchStmt:
							if (x.Tok == token.BREAK && x.Label != nil) || x.Tok == token.GOTO {
								bad = append(bad, x.Tok.String()+" "+x.Label.Name+" at "+c.pos(x))
							}
						}
						return true
					})
				}
			}
			c.Check(len(bad) == 0, f, ts, "exits of the relay dispatch of "+f.Root().QName(), what, ifElse(len(bad) == 0, "only the CeaseFlowTrace clause leaves the loop", "also: "+strings.Join(bad, "; ")))
			return true
		})
	}
	if n == 0 {
		c.Missing("relay dispatch", "no type switch of the sub-process that has a CeaseFlowTrace case was found")
	}
}

func init() {
	register(&Rule{ID: "R265", Title: "a cycle is run by the cycle timer: where a repeating interval has been parsed, every timer goroutine launched for it is handed the whole interval (start, end, repetitions), not a due time computed from a part of it", Min: 1, Run: ruleR265})
}

func ruleR265(c *Ctx) {
	p := c.P
	what := "R1/<start>/PT30M fires once, one interval after its start. Armed as a plain one-shot 'one interval from now' — a shortcut for cycles with a single repetition — the start is ignored: the timer fires before the clock has even reached its start"
	n := 0
	for _, f := range p.Funcs {
		if f.Body == nil || f.Pkg.PkgPath != pathTimer || f.Lit != nil {
			continue
		}
		in := info(f)
		// locals that hold a parsed repeating interval, with the block they are declared in
		type decl struct {
			v     types.Object
			at    ast.Node
			scope ast.Node
		}
		var decls []decl
		add := func(o types.Object, at ast.Node) {
			if o == nil {
				return
			}
			if nt := namedOf(o.Type()); nt == nil || nt.Obj().Name() != "RepeatingInterval" {
				return
			}
			for cur := p.Parent(at); cur != nil; cur = p.Parent(cur) {
				switch cur.(type) {
				case *ast.BlockStmt, *ast.CaseClause:
					decls = append(decls, decl{o, at, cur})
					return
				}
			}
		}
		inspectNoLit(f.Body, func(z ast.Node) bool {
			switch x := z.(type) {
			case *ast.ValueSpec:
				for _, nm := range x.Names {
					add(in.Defs[nm], x)
				}
			case *ast.AssignStmt:
				if x.Tok == token.DEFINE {
					for _, l := range x.Lhs {
						if id, ok := l.(*ast.Ident); ok {
							add(in.Defs[id], x)
						}
					}
				}
			}
			return true
		})
		for _, d := range decls {
			n++
			var bad []string
			launches := 0
			inspectNoLit(d.scope, func(z ast.Node) bool {
				gs, ok := z.(*ast.GoStmt)
				if !ok || gs.Pos() < d.at.Pos() {
					return true
				}
				launches++
				whole := false
				for _, a := range gs.Call.Args {
					e := unparen(a)
					if u, ok := e.(*ast.UnaryExpr); ok && u.Op == token.AND {
						e = unparen(u.X)
					}
					if id, ok := e.(*ast.Ident); ok && objOf(in, id) == d.v {
						whole = true
					}
				}
				if !whole {
					bad = append(bad, exprString(gs.Call.Fun)+" at "+c.pos(gs))
				}
				return true
			})
			c.Check(len(bad) == 0 && launches > 0, f, d.at, "timers launched for a repeating interval in "+f.QName(), what, ifElse(len(bad) == 0, fmt.Sprintf("%d launch(es), each handed %s", launches, d.v.Name()), "launched without the interval: "+strings.Join(bad, "; ")))
		}
	}
	if n == 0 {
		c.Missing("cycle launch", "no function of pkg/timer parses a repeating interval into a local")
	}
}

func init() {
	register(&Rule{ID: "R266", Title: "only the first alternative flows: in the event-based gateway's action transformer every return that is not under the successful compare-and-swap hands back completeAction", Min: 1, Run: ruleR266})
}

func ruleR266(c *Ctx) {
	p := c.P
	what := "the compare-and-swap is the whole decision: who loses it has lost, whatever else is true at that moment. A loser let through 'when its withdrawal channel is still empty' passes in the window between the winner's compare-and-swap and its posting the withdrawal — two events at nearly the same time, and both branches run"
	n := 0
	for _, f := range p.Funcs {
		if f.Body == nil || f.Lit == nil || f.Pkg.PkgPath != pathBpmn {
			continue
		}
		r := f.Root()
		if r.Obj == nil || recvNamed(r.Obj) == nil || recvNamed(r.Obj).Obj().Name() != "eventBasedGateway" {
			continue
		}
		in := info(f)
		isCAS := func(z ast.Node) bool {
			cl, ok := z.(*ast.CallExpr)
			if !ok {
				return false
			}
			if fn := callee(in, cl); fn != nil && strings.HasPrefix(fn.Name(), "CompareAndSwap") && fn.Pkg() != nil && fn.Pkg().Path() == "sync/atomic" {
				return true
			}
			return false
		}
		has := false
		inspectNoLit(f.Body, func(z ast.Node) bool {
			if isCAS(z) {
				has = true
			}
			return true
		})
		if !has {
			continue
		}
		n++
		var bad []string
		inspectNoLit(f.Body, func(m ast.Node) bool {
			rs, ok := m.(*ast.ReturnStmt)
			if !ok || len(rs.Results) != 1 {
				return true
			}
			won := false
			for _, pc := range polarConds(p, rs) {
				e, pos := unparen(pc.cond), pc.positive
				for {
					u, ok := e.(*ast.UnaryExpr)
					if !ok || u.Op != token.NOT {
						break
					}
					e, pos = unparen(u.X), !pos
				}
				if pos {
					srcs := resolveLocalExpr(in, f, e)
					all := len(srcs) > 0
					for _, src := range srcs {
						if !isCAS(unparen(src)) {
							all = false
						}
					}
					if all {
						won = true
					}
				}
			}
			if won {
				return true
			}
			for _, src := range resolveLocalExpr(in, f, rs.Results[0]) {
				if !isNamed(in.TypeOf(src), pathBpmn, "completeAction") {
					bad = append(bad, "return "+exprString(src)+" at "+c.pos(rs))
				}
			}
			return true
		})
		c.Check(len(bad) == 0, f, f.Lit, "answers to the alternatives that lost in "+r.QName(), what, ifElse(len(bad) == 0, "every return outside the won compare-and-swap is completeAction", strings.Join(bad, "; ")))
	}
	if n == 0 {
		c.Missing("first-wins decision", "no function literal of the event-based gateway decides with a compare-and-swap")
	}
}
