package main

// Positive fixtures for rules whose expected number of findings on a healthy tree is zero ("no engine code
// calls the clock's After", "no package-level container stored into a field", ...). A rule that matches
// nothing passes vacuously for ever — also after an edit to the checker, or to the repository's layout, has
// made it blind. Every run of a property that claims such a rule therefore loads /repo a second time with a
// few IN-MEMORY files added to the packages concerned (go/packages overlay: nothing is written to /repo), each
// containing one tiny violation, and requires the rule to report exactly that construct. The fixture program
// is used for nothing else.

import (
	"fmt"
	"path/filepath"
	"strings"
)

type fixture struct {
	Rule string
	File string // relative to the repository root
	Src  string
	Func string // the function the rule has to name
}

var fixtures = []fixture{
	{"R91", "pkg/timer/zz_fixture_r91.go", `package timer

import (
	"time"

	"github.com/olive-io/bpmn/v2/pkg/clock"
)

func zzFixtureAfter(c clock.IClock) { <-c.After(time.Second) }
`, "zzFixtureAfter"},
	{"R65", "pkg/clock/zz_fixture_r65.go", `package clock

func zzFixtureRemove(s []int) []int {
	for i := 0; i < len(s); i++ {
		if s[i] == 0 {
			s = append(s[:i], s[i+1:]...)
		}
	}
	return s
}
`, "zzFixtureRemove"},
	{"R68", "pkg/id/zz_fixture_r68.go", `package id

import "math/rand"

var zzFixtureRand = rand.New(rand.NewSource(1))

func zzFixtureDraw() int { return zzFixtureRand.Int() }
`, "zzFixture"},
	{"R104", "zz_fixture_r104.go", `package bpmn

import "strconv"

func zzFixtureIndex(s []int, k string) int {
	i, err := strconv.Atoi(k)
	if err != nil {
		return 0
	}
	return s[i]
}
`, "zzFixtureIndex"},
	{"R108", "pkg/logic/zz_fixture_r108.go", `package logic

var zzFixtureShared = make([]int, 0, 1)

type zzFixtureT struct{ xs []int }

func zzFixtureNew() *zzFixtureT { return &zzFixtureT{xs: zzFixtureShared} }
`, "zzFixtureNew"},
	{"R148", "pkg/logic/zz_fixture_r148.go", `package logic

type zzFixtureL struct{ xs []int }

func (l *zzFixtureL) zzFixtureFilter() []int {
	out := l.xs[:0]
	for _, x := range l.xs {
		if x > 0 {
			out = append(out, x)
		}
	}
	return out
}
`, "zzFixtureFilter"},
	{"R155", "pkg/logic/zz_fixture_r155.go", `package logic

func zzFixtureShrink(xs []int) []int {
	out := make([]int, 0, len(xs))
	copy(out, xs)
	return out
}
`, "zzFixtureShrink"},
	{"R152", "pkg/logic/zz_fixture_r152.go", `package logic

import "github.com/olive-io/bpmn/v2/pkg/event"

func zzFixtureSame(a, b event.IEvent) bool { return a == b }
`, "zzFixtureSame"},
	{"R158", "pkg/id/zz_fixture_r158.go", `package id

type zzFixturePool struct{ slab []int }

func (p *zzFixturePool) zzFixtureDraw(v int) *int {
	if len(p.slab) == cap(p.slab) {
		p.slab = p.slab[:0]
	}
	p.slab = append(p.slab, v)
	return &p.slab[len(p.slab)-1]
}
`, "zzFixtureDraw"},
	{"R161", "pkg/logic/zz_fixture_r161.go", `package logic

type zzFixtureCfg struct{ Gap float64 }

func zzFixtureRows(cfg *zzFixtureCfg, h float64) float64 { return h / cfg.Gap }
`, "zzFixtureRows"},
	{"R181", "pkg/expression/xpath/zz_fixture_r181.go", `package xpath

func zzFixtureElement(name, text string) string { return "<" + name + ">" + text + "</" + name + ">" }
`, "zzFixtureElement"},
	{"R184", "pkg/clock/zz_fixture_r184.go", `package clock

import (
	"sort"
	"time"
)

func zzFixtureDue(ts afters, t time.Time) int {
	return sort.Search(len(ts), func(i int) bool { return ts[i].After(t) })
}
`, "zzFixtureDue"},
	{"R190", "pkg/logic/zz_fixture_r190.go", `package logic

func zzFixtureSeen(seen map[string]bool, a, b string) bool {
	k := a + "_" + b
	return seen[k]
}
`, "zzFixtureSeen"},
	{"R200", "zz_fixture_r200.go", `package bpmn

type zzFixtureGateway struct{ early *gatewayProbingReport }

func zzFixtureKeep(g *zzFixtureGateway, m gatewayProbingReport) { g.early = &m }
`, "zzFixtureGateway"},
	{"R202", "zz_fixture_r202.go", `package bpmn

import "strings"

func zzFixtureAttached(attachedToRef, activityId string) bool {
	return strings.HasSuffix(attachedToRef, activityId)
}
`, "zzFixtureAttached"},
	{"R207", "pkg/timer/zz_fixture_r207.go", `package timer

import (
	"context"
	"time"
)

func zzFixtureTooLate(ctx context.Context, due time.Time) bool {
	deadline, ok := ctx.Deadline()
	return ok && deadline.Before(due)
}
`, "zzFixtureTooLate"},
	{"R224", "zz_fixture_r224.go", `package bpmn

import "sync"

type zzFixtureNode struct {
	*wiring
	raised sync.Once
}

func (n *zzFixtureNode) zzFixtureLoop(ch chan int) {
	for range ch {
		n.raised.Do(func() { n.tracer.Send(ErrorTrace{}) })
	}
}
`, "zzFixtureLoop"},
	{"R235", "zz_fixture_r235.go", `package bpmn

func zzFixtureFull(s []int) bool {
	if len(s) == cap(s) {
		return true
	}
	return false
}
`, "zzFixtureFull"},
	{"R244", "schema/zz_fixture_r244.go", `package schema

func zzFixtureHasIncoming(node FlowNodeInterface) bool {
	incomings := node.Incomings()
	return incomings != nil && *incomings != nil
}
`, "zzFixtureHasIncoming"},
	{"R245", "pkg/data/zz_fixture_r245.go", `package data

import "sync"

type zzFixtureStore struct {
	mu sync.RWMutex
	m  map[string]int
}

func (s *zzFixtureStore) zzFixtureGet(k string) int {
	s.mu.RLock()
	defer s.mu.RUnlock()
	return s.m[k]
}

func (s *zzFixtureStore) zzFixtureSum() (n int) {
	s.mu.RLock()
	defer s.mu.RUnlock()
	for k := range s.m {
		n += s.zzFixtureGet(k)
	}
	return
}
`, "zzFixtureSum"},
	{"R242", "zz_fixture_r242.go", `package bpmn

func zzFixtureWithDefaults(opts ...Option) *Options {
	opts = append(opts, WithLocator(nil))
	return NewOptions(opts...)
}
`, "zzFixtureWithDefaults"},
	{"R254", "schema/zz_fixture_r254.go", `package schema

import "encoding/xml"

type zzFixtureTimeout struct {
	Timeout string ` + "`xml:\"timeout,attr\"`" + `
}

func (t *zzFixtureTimeout) UnmarshalXML(de *xml.Decoder, start xml.StartElement) error {
	type alias zzFixtureTimeout
	out := alias{}
	if err := de.DecodeElement(&out, &start); err != nil {
		return err
	}
	*t = zzFixtureTimeout(out)
	t.Timeout += "s"
	return nil
}
`, "UnmarshalXML"},
}

// checkFixtures runs the zero-expected rules among ids on the fixture program and returns one obligation per rule.
func checkFixtures(repo, goos string, ids []string) []Obligation {
	want := map[string]bool{}
	for _, id := range ids {
		if i := strings.IndexByte(id, '['); i > 0 {
			id = id[:i]
		}
		want[id] = true
	}
	var fx []fixture
	for _, f := range fixtures {
		if want[f.Rule] {
			fx = append(fx, f)
		}
	}
	if len(fx) == 0 {
		return nil
	}
	ov := map[string][]byte{}
	for _, f := range fx {
		ov[filepath.Join(repo, f.File)] = []byte(f.Src)
	}
	loadOverlay = ov
	p, err := Load(repo, goos, false)
	loadOverlay = nil
	var out []Obligation
	if err != nil {
		for _, f := range fx {
			out = append(out, Obligation{Rule: f.Rule, Key: f.Rule + ":positive fixture", Pos: "-", Func: "-", What: "the rule reports its positive example (an in-memory file with one violation, added to the load)", OK: false, Witness: "the fixture program does not load: " + err.Error(), NonTrivial: true, Vanished: true})
		}
		return out
	}
	var rids []string
	for _, f := range fx {
		rids = append(rids, f.Rule)
	}
	res := runRules(p, rids)
	theProg = nil
	for _, f := range fx {
		hit := ""
		for _, o := range res.Obs {
			if o.Rule == f.Rule && !o.OK && (strings.Contains(o.Func, f.Func) || strings.Contains(o.Key, f.Func) || strings.Contains(o.Witness, f.Func)) {
				hit = o.Key
			}
		}
		out = append(out, Obligation{Rule: f.Rule, Key: f.Rule + ":positive fixture", Pos: f.File + " (in memory)", Func: f.Func, What: "the rule reports its positive example (an in-memory file with one violation, added to the load)", OK: hit != "", Witness: ifElse(hit != "", "reported as "+hit, fmt.Sprintf("rule %s stayed silent on its positive example %s", f.Rule, f.Func)), NonTrivial: true, Vanished: hit == ""})
	}
	return out
}
