package main

// Round 7 (held-out wave 7): R144–R150.

import (
	"fmt"
	"go/ast"
	"go/token"
	"go/types"
	"sort"
	"strings"
)

func init() {
	register(&Rule{ID: "R144", Title: "a probing gateway decides in the handler of the probe report: in a node that handles gatewayProbingReport, flow decisions (a flowAction, a call of the distributor) are issued only there — no path hands out candidate flows whose conditions were not evaluated", Min: 2, Run: ruleR144})
	register(&Rule{ID: "R145", Title: "Put replaces: every Put* method of the data containers stores its argument on every path (a registered container is replaced, never merged into or kept)", Min: 4, Run: ruleR145})
	register(&Rule{ID: "R146", Title: "results before conditions: in the token's handling of a flow action nothing stores the answer's results after the conditions of the outgoing flows have been evaluated", Min: 2, Run: ruleR146})
	register(&Rule{ID: "R147", Title: "the error mode is read before anything is stored: every store of an answer's results is dominated by the test of the answer's error", Min: 1, Run: ruleR147})
	register(&Rule{ID: "R148", Title: "configured lists are not scratch space: no append onto a re-slice of a struct field unless the result goes back into that field (the append overwrites the list every other reader of the field sees)", Min: 0, Run: ruleR148})
	register(&Rule{ID: "R149", Title: "a partial copy is read only where it was filled: a field that a copying constructor leaves out is not read through the copy (nor through a node built on it) by the function that made the copy", Min: 1, Run: ruleR149})
	register(&Rule{ID: "R150", Title: "an equality gate is tested after every arrival: between two increments of a counter that releases on == there is a test of it (a batch that steps over the width would never release again)", Min: 1, Run: ruleR150})
}

// ---- shared ----

// reachesCallee: does f (through same-program callees, depth-bounded) contain a call whose callee satisfies pred?
func reachesCallee(p *Prog, f *FuncInfo, pred func(*types.Func) bool, depth int, seen map[*FuncInfo]bool) bool {
	if f == nil || f.Body == nil || seen[f] {
		return false
	}
	seen[f] = true
	in := info(f)
	hit := false
	ast.Inspect(f.Body, func(n ast.Node) bool {
		if hit {
			return false
		}
		if cl, ok := n.(*ast.CallExpr); ok {
			fn := callee(in, cl)
			if fn == nil {
				return true
			}
			if pred(fn) {
				hit = true
				return false
			}
			if depth > 0 {
				if cf := p.byObj[fn]; cf != nil && reachesCallee(p, cf, pred, depth-1, seen) {
					hit = true
					return false
				}
			}
		}
		return true
	})
	return hit
}

func isDataWriter(fn *types.Func) bool {
	if fn == nil || fn.Pkg() == nil || fn.Pkg().Path() != pathData {
		return false
	}
	sig, _ := fn.Type().(*types.Signature)
	if sig == nil || sig.Recv() == nil {
		return false
	}
	nm := fn.Name()
	return nm == "SetVariable" || nm == "Put" || strings.HasPrefix(nm, "Put")
}

func isAnswerPtr(t types.Type) bool {
	if pt, ok := t.(*types.Pointer); ok {
		return isNamed(pt.Elem(), pathBpmn, "FlowActionResponse")
	}
	return false
}

// answerStores: the calls inside list that write an answer's results into a data locator — a writer method of
// pkg/data called directly, or a helper of the package that is handed the answer and reaches such a writer.
func answerStores(p *Prog, f *FuncInfo, list []ast.Stmt) []*ast.CallExpr {
	in := info(f)
	var out []*ast.CallExpr
	for _, st := range list {
		inspectNoLit(st, func(n ast.Node) bool {
			cl, ok := n.(*ast.CallExpr)
			if !ok {
				return true
			}
			fn := callee(in, cl)
			if fn == nil {
				return true
			}
			if isDataWriter(fn) {
				out = append(out, cl)
				return true
			}
			if cf := p.byObj[fn]; cf != nil && cf.Pkg == f.Pkg {
				handed := false
				for _, a := range cl.Args {
					if isAnswerPtr(in.TypeOf(a)) {
						handed = true
					}
				}
				if handed && reachesCallee(p, cf, isDataWriter, 2, map[*FuncInfo]bool{}) {
					out = append(out, cl)
				}
			}
			return true
		})
	}
	return out
}

type actionArm struct {
	F   *FuncInfo
	Arm typeArm
}

// flowActionArms: the arms of dispatches over an IAction that handle a flowAction.
func flowActionArms(p *Prog) []actionArm {
	var out []actionArm
	for _, f := range p.Funcs {
		if f.Body == nil || f.Pkg.PkgPath != pathBpmn {
			continue
		}
		for _, arms := range typeDispatches(p, f, isIAction) {
			for _, a := range arms {
				if len(a.Types) == 1 && isNamed(a.Types[0], pathBpmn, "flowAction") && len(a.Body) > 0 {
					out = append(out, actionArm{f, a})
				}
			}
		}
	}
	return out
}

// ---- R144 ----

func ruleR144(c *Ctx) {
	p := c.P
	what := "an exclusive or inclusive gateway may hand a flow to a token only after the token has evaluated the conditions (the probe) and reported which of them hold; a decision issued anywhere else — a fast path for a single outgoing flow, say — puts a token on a flow whose condition was never looked at"
	dist := distributorFuncs(p)
	isReport := func(t types.Type) bool { return isNamed(t, pathBpmn, "gatewayProbingReport") }
	// node types with a report arm, and the regions of those arms
	type armAt struct {
		f *FuncInfo
		r Region
	}
	arms := map[*types.Named][]armAt{}
	for _, f := range p.Funcs {
		if f.Body == nil || f.Pkg.PkgPath != pathBpmn {
			continue
		}
		r := f.Root()
		if r.Obj == nil || recvNamed(r.Obj) == nil {
			continue
		}
		T := recvNamed(r.Obj)
		for _, d := range typeDispatches(p, f, isIMessage) {
			for _, a := range d {
				if len(a.Types) == 1 && isReport(a.Types[0]) {
					arms[T] = append(arms[T], armAt{f, regionOfStmts(a.Body)})
				}
			}
		}
	}
	var insideArm func(T *types.Named, f *FuncInfo, n ast.Node, depth int) (bool, string)
	insideArm = func(T *types.Named, f *FuncInfo, n ast.Node, depth int) (bool, string) {
		for _, a := range arms[T] {
			if a.f.Root() == f.Root() && a.r.Contains(n) {
				return true, "inside the handler of the probe report"
			}
		}
		if depth == 0 || f.Root().Obj == nil {
			return false, "outside the handler of the probe report"
		}
		// a helper all of whose calls are inside the handler
		calls, ok := 0, true
		for _, h := range p.Funcs {
			if h.Body == nil || h.Pkg != f.Pkg {
				continue
			}
			hin := info(h)
			inspectNoLit(h.Body, func(m ast.Node) bool {
				if cl, isCall := m.(*ast.CallExpr); isCall && callee(hin, cl) == f.Root().Obj {
					calls++
					if in, _ := insideArm(T, h, cl, depth-1); !in {
						ok = false
					}
				}
				return true
			})
		}
		if calls > 0 && ok {
			return true, fmt.Sprintf("in %s, called only from the handler of the probe report", f.Root().QName())
		}
		return false, "outside the handler of the probe report"
	}
	n := 0
	var Ts []*types.Named
	for T := range arms {
		Ts = append(Ts, T)
	}
	sort.Slice(Ts, func(i, j int) bool { return Ts[i].Obj().Name() < Ts[j].Obj().Name() })
	for _, T := range Ts {
		for _, f := range p.Funcs {
			if f.Body == nil || f.Pkg.PkgPath != pathBpmn {
				continue
			}
			r := f.Root()
			if r.Obj == nil || recvNamed(r.Obj) != T {
				continue
			}
			in := info(f)
			inspectNoLit(f.Body, func(m ast.Node) bool {
				desc := ""
				switch x := m.(type) {
				case *ast.CallExpr:
					if fn := callee(in, x); fn != nil && dist[fn] {
						desc = "call of the distributor " + fn.Name()
					}
				case *ast.CompositeLit:
					if isNamed(in.TypeOf(x), pathBpmn, "flowAction") {
						desc = "flowAction issued"
					}
				}
				if desc == "" {
					return true
				}
				n++
				ok, wit := insideArm(T, f, m, 2)
				c.Check(ok, f, m, T.Obj().Name()+": "+desc, what, wit)
				return true
			})
		}
	}
	if n == 0 {
		c.Missing("decisions of probing gateways", "no node type with a gatewayProbingReport handler that issues flow decisions was found")
	}
}

// ---- R145 ----

func ruleR145(c *Ctx) {
	p := c.P
	what := "callers register a new container / item under a key and go on to use the object they registered; a Put that keeps what was there (or returns early) leaves them writing into an object nobody reads"
	n := 0
	for _, f := range p.Funcs {
		if f.Body == nil || f.Obj == nil || f.Pkg.PkgPath != pathData || !strings.HasPrefix(f.Obj.Name(), "Put") || len(f.Body.List) == 0 {
			continue
		}
		sig := f.Obj.Type().(*types.Signature)
		if sig.Recv() == nil || sig.Params().Len() == 0 {
			continue
		}
		if _, isPtr := sig.Recv().Type().(*types.Pointer); !isPtr {
			continue
		}
		val := sig.Params().At(sig.Params().Len() - 1)
		in := info(f)
		g := p.Graph(f)
		stores := func(nd ast.Node) bool {
			as, ok := nd.(*ast.AssignStmt)
			if !ok {
				return false
			}
			for i, l := range as.Lhs {
				if i >= len(as.Rhs) {
					break
				}
				root := rootIdent(l)
				if root == nil || objOf(in, root) != types.Object(sig.Recv()) {
					continue
				}
				if _, isSel := unparen(l).(*ast.Ident); isSel {
					continue
				}
				if mentionsDeep(as.Rhs[i], func(z ast.Node) bool {
					id, ok := z.(*ast.Ident)
					return ok && objOf(in, id) == types.Object(val)
				}) {
					return true
				}
			}
			return false
		}
		n++
		bad := g.MustPassBeforeExit(g.Entry(), true, stores)
		found := false
		for _, pt := range g.AllPoints() {
			if stores(pt.Node()) {
				found = true
			}
		}
		wit := "the argument is stored into the receiver on every path"
		if !found {
			wit = "no statement stores the argument into the receiver"
		} else if len(bad) > 0 {
			wit = fmt.Sprintf("a path returns without storing the argument (lines %v)", g.Lines(bad[0]))
		}
		c.Check(found && len(bad) == 0, f, f.Decl, f.QName()+" stores its argument", what, wit)
	}
	if n == 0 {
		c.Missing("Put methods", "no Put* method with a body was found in pkg/data")
	}
}

// ---- R146, R147 ----

func isConditionEvaluator(fn *types.Func) bool {
	return fn != nil && fn.Name() == "EvaluateExpression" && fn.Pkg() != nil && fn.Pkg().Path() == pathExpr
}

func ruleR146(c *Ctx) {
	p := c.P
	what := "the conditions on the flows leaving an activity are evaluated on the data as the activity left them; if the answer's variables are stored only after handleSequenceFlow has evaluated the conditions, the token takes the branch the old values select"
	n := 0
	for _, aa := range flowActionArms(p) {
		f, in, g := aa.F, info(aa.F), p.Graph(aa.F)
		stores := answerStores(p, f, aa.Arm.Body)
		if len(stores) == 0 {
			continue
		}
		isStore := func(nd ast.Node) *ast.CallExpr {
			for _, cl := range callsIn(nd) {
				for _, s := range stores {
					if s == cl {
						return cl
					}
				}
			}
			return nil
		}
		region := regionOfStmts(aa.Arm.Body)
		for _, st := range aa.Arm.Body {
			inspectNoLit(st, func(m ast.Node) bool {
				cl, ok := m.(*ast.CallExpr)
				if !ok {
					return true
				}
				cf := p.byObj[callee(in, cl)]
				if cf == nil || cf.Pkg != f.Pkg || !reachesCallee(p, cf, isConditionEvaluator, 3, map[*FuncInfo]bool{}) {
					return true
				}
				pt, ok := g.PointOf(cl)
				if !ok {
					return true
				}
				n++
				var late *ast.CallExpr
				found, _ := g.SearchB(pt, false, func(q Point, nd ast.Node) Action {
					if nd == nil {
						return Prune
					}
					if s := isStore(nd); s != nil {
						late = s
						return Found
					}
					return Continue
				}, g.WithinRegion(region))
				wit := "no store of the answer's results is reachable from here within the handling of the action"
				if found {
					wit = fmt.Sprintf("%s at %s runs after this evaluation", exprString(late.Fun), c.pos(late))
				}
				c.Check(!found, f, cl, "condition evaluation "+exprString(cl.Fun)+" sees the stored answer", what, wit)
				return true
			})
		}
	}
	if n == 0 {
		c.Missing("condition evaluation after the store", "no flowAction handler with a store of the answer and an evaluation of the outgoing conditions was found")
	}
}

func ruleR147(c *Ctx) {
	p := c.P
	what := "an answer that carries an error is first classified (no handler / skip: continue; retry: ask again; exit: stop the token). Only an attempt that continues stores results; storing before the mode is read lets a failed attempt that is retried or stops the token leave its partial output in the instance's data"
	n := 0
	for _, aa := range flowActionArms(p) {
		f, in, g := aa.F, info(aa.F), p.Graph(aa.F)
		stores := answerStores(p, f, aa.Arm.Body)
		if len(stores) == 0 {
			continue
		}
		// the tests of the answer's error: conditions that mention the field err of a FlowActionResponse, and calls
		// of helpers that are handed the answer and contain such a condition
		mentionsErr := func(fi *FuncInfo, e ast.Node) bool {
			fin := info(fi)
			return mentionsDeep(e, func(z ast.Node) bool {
				se, ok := z.(*ast.SelectorExpr)
				if !ok {
					return false
				}
				fv := fieldOf(fin, se)
				return fv != nil && fv.Name() == "err" && isAnswerPtr(fin.TypeOf(se.X))
			})
		}
		var tests []Point
		for _, st := range aa.Arm.Body {
			inspectNoLit(st, func(m ast.Node) bool {
				var cond ast.Expr
				switch x := m.(type) {
				case *ast.IfStmt:
					cond = x.Cond
				case *ast.SwitchStmt:
					cond = x.Tag
				case *ast.CallExpr:
					if cf := p.byObj[callee(in, x)]; cf != nil && cf.Pkg == f.Pkg && cf.Body != nil {
						handed := false
						for _, a := range x.Args {
							if isAnswerPtr(in.TypeOf(a)) {
								handed = true
							}
						}
						tested := false
						if handed {
							inspectNoLit(cf.Body, func(z ast.Node) bool {
								if ifs, ok := z.(*ast.IfStmt); ok && mentionsErr(cf, ifs.Cond) {
									tested = true
								}
								return true
							})
						}
						if tested && !reachesCallee(p, cf, isDataWriter, 2, map[*FuncInfo]bool{}) {
							if pt, ok := g.PointOf(x); ok {
								tests = append(tests, pt)
							}
						}
					}
				}
				if cond != nil && mentionsErr(f, cond) {
					if pt, ok := g.PointOf(cond); ok {
						tests = append(tests, pt)
					}
				}
				return true
			})
		}
		for _, s := range stores {
			pt, ok := g.PointOf(s)
			if !ok {
				continue
			}
			n++
			dominated := false
			for _, t := range tests {
				if t != pt && g.Dominates(t, pt) {
					dominated = true
				}
			}
			// a helper that reads the error itself before it writes
			if !dominated {
				if cf := p.byObj[callee(in, s)]; cf != nil && cf.Body != nil && len(cf.Body.List) > 0 {
					if ifs, ok := cf.Body.List[0].(*ast.IfStmt); ok && mentionsErr(cf, ifs.Cond) {
						dominated = true
					}
				}
			}
			c.Check(dominated, f, s, "store "+exprString(s.Fun)+" of the answer", what, ifElse(dominated, "the test of the answer's error dominates the store", fmt.Sprintf("no test of the answer's error precedes this store on every path (%d tests found in the handler)", len(tests))))
		}
	}
	if n == 0 {
		c.Missing("stores of an answer", "no flowAction handler that stores the answer's results was found")
	}
}

// ---- R148 ----

func ruleR148(c *Ctx) {
	p := c.P
	what := "x := obj.list[:0] (or [:k]) shares the field's backing array: appending to x overwrites the elements every other reader of obj.list sees — the gateway's configured flows, a node's subscriptions. Filtering in place is sound only when the result replaces the field"
	for _, f := range p.Funcs {
		if f.Body == nil || !isTargetPkg(p, f.Pkg.PkgPath) {
			continue
		}
		in := info(f)
		// is e a two-index re-slice of a struct field? returns the field expression
		resliceOfField := func(e ast.Expr) ast.Expr {
			se, ok := unparen(e).(*ast.SliceExpr)
			if !ok || se.Slice3 {
				return nil
			}
			if fv := fieldOf(in, se.X); fv != nil {
				if _, isSlice := fv.Type().Underlying().(*types.Slice); isSlice {
					return se.X
				}
			}
			return nil
		}
		inspectNoLit(f.Body, func(m ast.Node) bool {
			cl, ok := m.(*ast.CallExpr)
			if !ok || !isBuiltin(in, cl, "append") || len(cl.Args) < 2 {
				return true
			}
			var fld ast.Expr
			var local types.Object
			if fe := resliceOfField(cl.Args[0]); fe != nil {
				fld = fe
			} else if id, isId := unparen(cl.Args[0]).(*ast.Ident); isId {
				if o := objOf(in, id); o != nil && isLocalVar(f.Root(), o) {
					defs, _ := localDefs(in, f.Root().Body, o)
					for _, d := range defs {
						if fe := resliceOfField(d); fe != nil {
							fld, local = fe, o
						}
					}
				}
			}
			if fld == nil {
				return true
			}
			// where does the result go?
			back := false
			if as, isAs := p.Parent(cl).(*ast.AssignStmt); isAs {
				for i, r := range as.Rhs {
					if unparen(r) == ast.Expr(cl) && i < len(as.Lhs) && sameRef(in, as.Lhs[i], fld) {
						back = true
					}
				}
			}
			if !back && local != nil {
				// the filtered local replaces the field later in the function
				ast.Inspect(f.Root().Body, func(z ast.Node) bool {
					if as, isAs := z.(*ast.AssignStmt); isAs {
						for i, l := range as.Lhs {
							if i < len(as.Rhs) && sameRef(in, l, fld) {
								if id, isId := unparen(as.Rhs[i]).(*ast.Ident); isId && objOf(in, id) == local {
									back = true
								}
							}
						}
					}
					return true
				})
			}
			// a removal `append(s[:i], s[i+1:]...)` into a fresh place is R65's business; here only the aliasing
			c.Check(back, f, cl, "append onto a re-slice of "+exprString(fld), what, ifElse(back, "the result is stored back into the field", "the result does not go back into "+exprString(fld)+": the field's elements are overwritten behind its readers"))
			return true
		})
	}
}

// ---- R149 ----

func ruleR149(c *Ctx) {
	p := c.P
	what := "CloneFor-style constructors copy the receiver field by field; a field they leave out is zero in the copy. Reading it through the copy (or through a node that was built on the copy) yields nil — a token started with such a data locator cannot evaluate or store anything"
	// copying constructors: methods that return a composite literal of the receiver's own struct type in which at
	// least three fields are initialised from the same-named field of the receiver
	type copier struct {
		f       *FuncInfo
		omitted map[*types.Var]bool
	}
	copiers := map[*types.Func]*copier{}
	for _, f := range p.Funcs {
		if f.Body == nil || f.Obj == nil || !isTargetPkg(p, f.Pkg.PkgPath) {
			continue
		}
		T := recvNamed(f.Obj)
		if T == nil {
			continue
		}
		st, ok := T.Underlying().(*types.Struct)
		if !ok {
			continue
		}
		sig := f.Obj.Type().(*types.Signature)
		returnsT := false
		for i := 0; i < sig.Results().Len(); i++ {
			if namedOf(sig.Results().At(i).Type()) == T {
				returnsT = true
			}
		}
		if !returnsT {
			continue
		}
		in := info(f)
		inspectNoLit(f.Body, func(m ast.Node) bool {
			lit, ok := m.(*ast.CompositeLit)
			if !ok || namedOf(in.TypeOf(lit)) != T {
				return true
			}
			set := map[*types.Var]bool{}
			same := 0
			for _, el := range lit.Elts {
				kv, ok := el.(*ast.KeyValueExpr)
				if !ok {
					return true
				}
				id, _ := kv.Key.(*ast.Ident)
				if id == nil {
					continue
				}
				fv, _ := in.Uses[id].(*types.Var)
				if fv == nil {
					continue
				}
				set[fv] = true
				if vf := fieldOf(in, kv.Value); vf == fv {
					if r := rootIdent(kv.Value); r != nil && objOf(in, r) == types.Object(sig.Recv()) {
						same++
					}
				}
			}
			if same < 3 {
				return true
			}
			// later assignments result.f = ...
			ast.Inspect(f.Body, func(z ast.Node) bool {
				if as, ok := z.(*ast.AssignStmt); ok {
					for _, l := range as.Lhs {
						if fv := fieldOf(in, l); fv != nil {
							set[fv] = true
						}
					}
				}
				return true
			})
			cp := &copier{f: f, omitted: map[*types.Var]bool{}}
			for i := 0; i < st.NumFields(); i++ {
				if fv := st.Field(i); !set[fv] {
					// mutexes, once, counters start at zero on purpose
					if n := namedOf(fv.Type()); n != nil && n.Obj().Pkg() != nil && (n.Obj().Pkg().Path() == "sync" || n.Obj().Pkg().Path() == "sync/atomic") {
						continue
					}
					cp.omitted[fv] = true
				}
			}
			if len(cp.omitted) > 0 {
				copiers[f.Obj] = cp
			}
			return true
		})
	}
	n := 0
	for _, f := range p.Funcs {
		if f.Body == nil || f.Parent != nil || !isTargetPkg(p, f.Pkg.PkgPath) {
			continue
		}
		in := info(f)
		// locals that hold a partial copy, or an object constructed from one
		type taint struct {
			cp   *copier
			via  string
			decl ast.Node
		}
		tainted := map[types.Object]*taint{}
		for round := 0; round < 3; round++ {
			ast.Inspect(f.Body, func(m ast.Node) bool {
				as, ok := m.(*ast.AssignStmt)
				if !ok || len(as.Rhs) != 1 {
					return true
				}
				cl, ok := unparen(as.Rhs[0]).(*ast.CallExpr)
				if !ok || len(as.Lhs) == 0 {
					return true
				}
				id, _ := as.Lhs[0].(*ast.Ident)
				if id == nil || id.Name == "_" {
					return true
				}
				o := objOf(in, id)
				if o == nil || tainted[o] != nil {
					return true
				}
				if cp := copiers[callee(in, cl)]; cp != nil {
					tainted[o] = &taint{cp, "the result of " + cp.f.QName(), as}
					return true
				}
				// a constructor of the package that is handed a tainted value
				if cf := p.byObj[callee(in, cl)]; cf != nil && cf.Pkg == f.Pkg {
					for _, a := range cl.Args {
						if aid, ok := unparen(a).(*ast.Ident); ok {
							if t := tainted[objOf(in, aid)]; t != nil {
								tainted[o] = &taint{t.cp, "built by " + cf.QName() + " on " + t.via, as}
							}
						}
					}
				}
				return true
			})
		}
		var objs []types.Object
		for o := range tainted {
			objs = append(objs, o)
		}
		sort.Slice(objs, func(i, j int) bool { return objs[i].Pos() < objs[j].Pos() })
		for _, o := range objs {
			t := tainted[o]
			n++
			var badSel *ast.SelectorExpr
			var badField string
			ast.Inspect(f.Body, func(m ast.Node) bool {
				se, ok := m.(*ast.SelectorExpr)
				if !ok || badSel != nil {
					return true
				}
				r := rootIdent(se)
				if r == nil || objOf(in, r) != o {
					return true
				}
				if sel := in.Selections[se]; sel != nil {
					if fv, ok := sel.Obj().(*types.Var); ok && t.cp.omitted[fv] {
						// a write fills the field
						if as, isAs := p.Parent(se).(*ast.AssignStmt); isAs {
							for _, l := range as.Lhs {
								if l == ast.Expr(se) {
									return true
								}
							}
						}
						badSel, badField = se, fv.Name()
					}
				}
				return true
			})
			var omitted []string
			for fv := range t.cp.omitted {
				omitted = append(omitted, fv.Name())
			}
			sort.Strings(omitted)
			wit := fmt.Sprintf("%s is %s, which leaves out %v; none of them is read through it here", o.Name(), t.via, omitted)
			if badSel != nil {
				wit = fmt.Sprintf("%s at %s reads %s, which %s leaves zero", exprString(badSel), c.pos(badSel), badField, t.cp.f.QName())
			}
			c.Check(badSel == nil, f, t.decl, "partial copy "+o.Name(), what, wit)
		}
	}
	if n == 0 {
		c.Missing("partial copies", "no use of a field-by-field copying constructor that leaves fields out was found")
	}
}

// ---- R150 ----

func ruleR150(c *Ctx) {
	p := c.P
	what := "a join that releases when counter == width must look at the counter after every single arrival: if two arrivals are counted before the test (a drained batch, a deferred check) the counter can step from below the width to above it and the equality never holds again — every parked and every later token is lost"
	dist := distributorFuncs(p)
	// counters that gate a distributor call through ==
	type gate struct {
		cv   *types.Var
		cmpF map[*FuncInfo]bool // functions that contain the comparison
	}
	gates := map[*types.Var]*gate{}
	for _, f := range p.Funcs {
		if f.Pkg.PkgPath != pathBpmn || f.Body == nil {
			continue
		}
		in := info(f)
		inspectNoLit(f.Body, func(nd ast.Node) bool {
			call, isCall := nd.(*ast.CallExpr)
			if !isCall {
				return true
			}
			if fn := callee(in, call); fn == nil || !dist[fn] {
				return true
			}
			for _, pc := range polarConds(p, call) {
				e := unparen(pc.cond)
				pos := pc.positive
				for {
					if u, isNot := e.(*ast.UnaryExpr); isNot && u.Op == token.NOT {
						e, pos = unparen(u.X), !pos
						continue
					}
					break
				}
				be, isBin := e.(*ast.BinaryExpr)
				if !isBin {
					continue
				}
				eq := (be.Op == token.EQL && pos) || (be.Op == token.NEQ && !pos)
				if !eq {
					continue
				}
				for _, side := range []ast.Expr{be.X, be.Y} {
					fv := fieldOf(in, side)
					if fv == nil {
						continue
					}
					if b, ok := fv.Type().Underlying().(*types.Basic); !ok || b.Info()&types.IsInteger == 0 {
						continue
					}
					if !isIncremented(p, fv) {
						continue
					}
					gt := gates[fv]
					if gt == nil {
						gt = &gate{cv: fv, cmpF: map[*FuncInfo]bool{}}
						gates[fv] = gt
					}
					gt.cmpF[f.Root()] = true
				}
			}
			return true
		})
	}
	n := 0
	var gs []*gate
	for _, gt := range gates {
		gs = append(gs, gt)
	}
	sort.Slice(gs, func(i, j int) bool { return gs[i].cv.Name() < gs[j].cv.Name() })
	for _, gt := range gs {
		isInc := func(in *types.Info, nd ast.Node) bool {
			switch x := nd.(type) {
			case *ast.IncDecStmt:
				return x.Tok == token.INC && fieldOf(in, x.X) == gt.cv
			case *ast.AssignStmt:
				if x.Tok == token.ADD_ASSIGN && len(x.Lhs) == 1 && fieldOf(in, x.Lhs[0]) == gt.cv {
					return true
				}
			}
			return false
		}
		// helper summaries: does a call of h count an arrival without testing afterwards?
		var incNoTest func(h *FuncInfo, depth int) bool
		var isTestNode, isIncNode func(f *FuncInfo, nd ast.Node, depth int) bool
		isTestNode = func(f *FuncInfo, nd ast.Node, depth int) bool {
			in := info(f)
			if gt.cmpF[f.Root()] {
				// the comparison itself
				hit := false
				inspectNoLit(nd, func(z ast.Node) bool {
					if be, ok := z.(*ast.BinaryExpr); ok && (fieldOf(in, be.X) == gt.cv || fieldOf(in, be.Y) == gt.cv) {
						hit = true
					}
					return true
				})
				if hit {
					return true
				}
			}
			for _, cl := range callsIn(nd) {
				if cf := p.byObj[callee(in, cl)]; cf != nil && gt.cmpF[cf] {
					return true
				}
			}
			return false
		}
		isIncNode = func(f *FuncInfo, nd ast.Node, depth int) bool {
			in := info(f)
			if isInc(in, nd) {
				return true
			}
			if depth > 0 {
				for _, cl := range callsIn(nd) {
					if cf := p.byObj[callee(in, cl)]; cf != nil && cf.Pkg == f.Pkg && !gt.cmpF[cf] && incNoTest(cf, depth-1) {
						return true
					}
				}
			}
			return false
		}
		incNoTest = func(h *FuncInfo, depth int) bool {
			if h.Body == nil {
				return false
			}
			g := p.Graph(h)
			for _, pt := range g.AllPoints() {
				if !isIncNode(h, pt.Node(), depth) {
					continue
				}
				// a path from the increment to an exit without a test
				bad := g.MustPassBeforeExit(pt, false, func(z ast.Node) bool { return isTestNode(h, z, depth) })
				if len(bad) > 0 {
					return true
				}
				// falling off the end
				reached, _ := g.Search(pt, false, func(q Point, z ast.Node) Action {
					if z != nil && isTestNode(h, z, depth) {
						return Prune
					}
					if len(q.B.Succs) == 0 && q.I == len(q.B.Nodes)-1 {
						return Found
					}
					return Continue
				})
				if reached {
					return true
				}
			}
			return false
		}
		for _, f := range p.Funcs {
			if f.Body == nil || f.Pkg.PkgPath != pathBpmn {
				continue
			}
			g := p.Graph(f)
			for _, pt := range g.AllPoints() {
				if !isIncNode(f, pt.Node(), 2) {
					continue
				}
				n++
				var second ast.Node
				found, _ := g.Search(pt, false, func(q Point, z ast.Node) Action {
					if z == nil {
						return Continue
					}
					if isTestNode(f, z, 2) {
						return Prune
					}
					if isIncNode(f, z, 2) {
						second = z
						return Found
					}
					return Continue
				})
				wit := "every path from this arrival reaches the test of " + gt.cv.Name() + " before the next arrival is counted"
				if found {
					wit = fmt.Sprintf("the arrival counted at %s can follow without a test of %s in between", c.pos(second), gt.cv.Name())
				}
				c.Check(!found, f, pt.Node(), "arrival counted in "+gt.cv.Name(), what, wit)
			}
		}
	}
	if n == 0 {
		c.Missing("equality-gated counters", "no counter that releases a join on == was found")
	}
}

func isIncremented(p *Prog, fv *types.Var) bool {
	for _, f := range p.Funcs {
		if f.Body == nil || f.Pkg.Types != fv.Pkg() {
			continue
		}
		in := info(f)
		hit := false
		ast.Inspect(f.Body, func(n ast.Node) bool {
			if x, ok := n.(*ast.IncDecStmt); ok && x.Tok == token.INC && fieldOf(in, x.X) == fv {
				hit = true
			}
			return !hit
		})
		if hit {
			return true
		}
	}
	return false
}

// ---- R151, R152, R153 ----

func init() {
	register(&Rule{ID: "R151", Title: "a gateway does not end the token that asks it: what a gateway's goroutine sends on the reply channel of a request is a flow or probe action, never completeAction (surplus tokens of a join are completed by the distributor, a losing alternative by its transformer)", Min: 3, Run: ruleR151})
	register(&Rule{ID: "R152", Title: "occurrences are not compared: the engine never tests two event values for identity (the same value delivered twice is two occurrences)", Min: 0, Run: ruleR152})
	register(&Rule{ID: "R153", Title: "a decode target is fresh per use: the destination handed to Unmarshal / Decode inside a loop is declared (or re-initialised) inside that loop", Min: 1, Run: ruleR153})
}

func gatewayType(T *types.Named) bool {
	st, ok := T.Underlying().(*types.Struct)
	if !ok {
		return false
	}
	for i := 0; i < st.NumFields(); i++ {
		if st.Field(i).Name() != "element" {
			continue
		}
		if n := namedOf(st.Field(i).Type()); n != nil && n.Obj().Pkg() != nil && n.Obj().Pkg().Path() == pathSchema && strings.HasSuffix(n.Obj().Name(), "Gateway") {
			return true
		}
	}
	return false
}

func ruleR151(c *Ctx) {
	p := c.P
	what := "every token that reaches a gateway takes part in its decision: it is forked into the alternatives, parked for the join, or asked to probe. A gateway that answers a request with completeAction ('already activated, nothing to do twice') silently ends a token whose visit overlaps another one — the branch it should have started never runs"
	n := 0
	for _, f := range p.Funcs {
		if f.Body == nil || f.Pkg.PkgPath != pathBpmn {
			continue
		}
		r := f.Root()
		if r.Obj == nil || recvNamed(r.Obj) == nil || !gatewayType(recvNamed(r.Obj)) {
			continue
		}
		// transformers (literals that take and return an IAction) decide for the token they belong to
		if f.Lit != nil {
			if ft, ok := info(f).TypeOf(f.Lit).(*types.Signature); ok && ft.Results().Len() == 1 && isIAction(ft.Results().At(0).Type()) {
				continue
			}
		}
		in := info(f)
		inspectNoLit(f.Body, func(m ast.Node) bool {
			s, ok := m.(*ast.SendStmt)
			if !ok || !isReplyChan(in.TypeOf(s.Chan)) {
				return true
			}
			n++
			vt := in.TypeOf(s.Value)
			isComplete := isNamed(vt, pathBpmn, "completeAction")
			if id, isId := unparen(s.Value).(*ast.Ident); isId && !isComplete {
				if o := objOf(in, id); o != nil && isLocalVar(f.Root(), o) {
					defs, _ := localDefs(in, f.Root().Body, o)
					for _, d := range defs {
						if isNamed(in.TypeOf(d), pathBpmn, "completeAction") {
							isComplete = true
						}
					}
				}
			}
			c.Check(!isComplete, f, s, "reply "+exprString(s.Chan)+" <- "+typeString(vt), what, ifElse(isComplete, "the request is answered with completeAction by the gateway itself", "answered with "+typeString(vt)))
			return true
		})
	}
	if n == 0 {
		c.Missing("gateway replies", "no send on a reply channel in a gateway's methods was found")
	}
}

func ruleR152(c *Ctx) {
	p := c.P
	what := "an event value is a description (signal Sig1, message Msg1), not an occurrence: callers deliver the same value again and again. Remembering 'the event I was satisfied by' and ignoring a delivery that compares equal makes a node that was armed again deaf to the very event it waits for"
	isEvent := func(t types.Type) bool { return t != nil && isNamed(t, pathEvent, "IEvent") }
	for _, f := range p.Funcs {
		if f.Body == nil || !isTargetPkg(p, f.Pkg.PkgPath) {
			continue
		}
		in := info(f)
		inspectNoLit(f.Body, func(m ast.Node) bool {
			be, ok := m.(*ast.BinaryExpr)
			if !ok || (be.Op != token.EQL && be.Op != token.NEQ) {
				return true
			}
			if !isEvent(in.TypeOf(be.X)) || !isEvent(in.TypeOf(be.Y)) {
				return true
			}
			// comparison with nil is a presence test
			if tv, ok := in.Types[be.X]; ok && tv.IsNil() {
				return true
			}
			if tv, ok := in.Types[be.Y]; ok && tv.IsNil() {
				return true
			}
			c.Bad(f, be, "identity comparison of events "+exprString(be), what, "two IEvent values are compared with "+be.Op.String())
			return true
		})
	}
}

func ruleR153(c *Ctx) {
	p := c.P
	what := "Unmarshal into a map adds the decoded keys to what the map holds, into a struct it leaves absent fields as they are: a destination that lives across the iterations of a loop hands the content of one element on to the next (a later data object shows the body of an earlier one)"
	isDecode := func(fn *types.Func) bool {
		if fn == nil || fn.Pkg() == nil {
			return false
		}
		// encoding/json, encoding/xml and the drop-in replacements (sonic) share these names
		return fn.Name() == "Unmarshal" || fn.Name() == "UnmarshalString" || fn.Name() == "Decode" || fn.Name() == "DecodeElement"
	}
	n := 0
	for _, f := range p.Funcs {
		if f.Body == nil || !isTargetPkg(p, f.Pkg.PkgPath) {
			continue
		}
		in := info(f)
		inspectNoLit(f.Body, func(m ast.Node) bool {
			cl, ok := m.(*ast.CallExpr)
			if !ok || !isDecode(callee(in, cl)) || len(cl.Args) == 0 {
				return true
			}
			dst := unparen(cl.Args[len(cl.Args)-1])
			if fn := callee(in, cl); fn.Name() == "DecodeElement" && len(cl.Args) == 2 {
				dst = unparen(cl.Args[0])
			}
			if u, isAddr := dst.(*ast.UnaryExpr); isAddr && u.Op == token.AND {
				dst = unparen(u.X)
			}
			id, isId := dst.(*ast.Ident)
			if !isId {
				return true
			}
			o := objOf(in, id)
			if o == nil || !isLocalVar(f.Root(), o) {
				return true
			}
			// innermost enclosing loop (within this function)
			var loop ast.Node
			for cur := p.Parent(cl); cur != nil; cur = p.Parent(cur) {
				if _, isLit := cur.(*ast.FuncLit); isLit {
					break
				}
				if _, isDecl := cur.(*ast.FuncDecl); isDecl {
					break
				}
				switch cur.(type) {
				case *ast.ForStmt, *ast.RangeStmt:
					loop = cur
				}
				if loop != nil {
					break
				}
			}
			if loop == nil {
				return true
			}
			n++
			inside := o.Pos() >= loop.Pos() && o.Pos() < loop.End()
			if !inside {
				// re-initialised in the loop before the call
				ast.Inspect(loop, func(z ast.Node) bool {
					if as, isAs := z.(*ast.AssignStmt); isAs && as.Pos() < cl.Pos() {
						for _, l := range as.Lhs {
							if lid, ok := unparen(l).(*ast.Ident); ok && objOf(in, lid) == o {
								inside = true
							}
						}
					}
					return true
				})
			}
			c.Check(inside, f, cl, "decode into "+id.Name+" inside a loop", what, ifElse(inside, id.Name+" is declared or re-initialised in the loop body", id.Name+" is declared outside the loop at "+c.pos(identAt(o))+" and never re-initialised in it"))
			return true
		})
	}
	if n == 0 {
		c.Missing("decode targets in loops", "no Unmarshal / Decode inside a loop was found")
	}
}

type posNode token.Pos

func (p posNode) Pos() token.Pos { return token.Pos(p) }
func (p posNode) End() token.Pos { return token.Pos(p) }

func identAt(o types.Object) ast.Node { return posNode(o.Pos()) }

// ---- R154, R155, R156 ----

func init() {
	register(&Rule{ID: "R154", Title: "an unsubscription is acknowledged only after the removal: in the broadcaster's unsubscribe clause every send on the request's acknowledgement channel is dominated by a write of the subscriber list", Min: 1, Run: ruleR154})
	register(&Rule{ID: "R155", Title: "copy has somewhere to copy to: the destination of copy() is not a slice that was made with length 0 (nothing would be copied)", Min: 0, Run: ruleR155})
	register(&Rule{ID: "R156", Title: "a new chain can be opened while others are pending: in a satisfier some append to the chain list is not control dependent on the list being empty", Min: 2, Run: ruleR156})
}

func ruleR154(c *Ctx) {
	p := c.P
	what := "a subscriber that was told 'you are unsubscribed' stops draining its channel; if it is still on the list the broadcaster blocks for ever on the first trace that finds the channel's buffer full — every sender hangs in Send, the tracer never terminates"
	n := 0
	for _, f := range p.Funcs {
		if f.Body == nil || f.Pkg.PkgPath != pathTracing {
			continue
		}
		in := info(f)
		_ = p.Graph
		// request clauses: `case x := <-ch` where x is a struct with a field of type chan ITrace and an acknowledgement channel
		type reqClause struct {
			cc      *ast.CommClause
			v       types.Object
			appends *types.Var // the list field the clause appends the channel to (subscribe)
		}
		var clauses []reqClause
		inspectNoLit(f.Body, func(m ast.Node) bool {
			cc, ok := m.(*ast.CommClause)
			if !ok || cc.Comm == nil {
				return true
			}
			as, ok := cc.Comm.(*ast.AssignStmt)
			if !ok || len(as.Lhs) == 0 {
				return true
			}
			id, _ := as.Lhs[0].(*ast.Ident)
			if id == nil {
				return true
			}
			o := objOf(in, id)
			if o == nil {
				return true
			}
			st, ok := o.Type().Underlying().(*types.Struct)
			if !ok {
				return true
			}
			hasChan := false
			for i := 0; i < st.NumFields(); i++ {
				if et, isCh := chanElem(st.Field(i).Type()); isCh && isITrace(et) {
					hasChan = true
				}
			}
			if !hasChan {
				return true
			}
			rc := reqClause{cc: cc, v: o}
			for _, s := range cc.Body {
				inspectNoLit(s, func(z ast.Node) bool {
					if a2, ok := z.(*ast.AssignStmt); ok && len(a2.Rhs) == 1 {
						if cl, ok := unparen(a2.Rhs[0]).(*ast.CallExpr); ok && isBuiltin(in, cl, "append") {
							if fv := fieldOf(in, a2.Lhs[0]); fv != nil {
								rc.appends = fv
							}
						}
					}
					return true
				})
			}
			clauses = append(clauses, rc)
			return true
		})
		var list *types.Var
		for _, rc := range clauses {
			if rc.appends != nil {
				list = rc.appends
			}
		}
		if list == nil {
			continue
		}
		type unit struct {
			f    *FuncInfo
			body []ast.Stmt
			req  types.Object
		}
		var units []unit
		for _, rc := range clauses {
			if rc.appends != nil {
				continue
			}
			units = append(units, unit{f, rc.cc.Body, rc.v})
			// the handling may have been moved into a helper that is handed the request
			for _, st := range rc.cc.Body {
				for _, cl := range callsIn(st) {
					cf := p.byObj[callee(in, cl)]
					if cf == nil || cf.Pkg != f.Pkg || cf.Body == nil || cf.Obj == nil {
						continue
					}
					sig := cf.Obj.Type().(*types.Signature)
					for i, a := range cl.Args {
						if id, ok := unparen(a).(*ast.Ident); ok && objOf(in, id) == rc.v && i < sig.Params().Len() {
							units = append(units, unit{cf, cf.Body.List, sig.Params().At(i)})
						}
					}
				}
			}
		}
		for _, u := range units {
			uin := info(u.f)
			ug := p.Graph(u.f)
			writesList := func(nd ast.Node) bool {
				hit := false
				inspectNoLit(nd, func(z ast.Node) bool {
					switch x := z.(type) {
					case *ast.AssignStmt:
						for _, l := range x.Lhs {
							if fieldOf(uin, l) == list {
								hit = true
							}
						}
					case *ast.CallExpr:
						if cf := p.byObj[callee(uin, x)]; cf != nil && cf.Pkg == f.Pkg && cf.Body != nil {
							cin := info(cf)
							ast.Inspect(cf.Body, func(y ast.Node) bool {
								if a2, ok := y.(*ast.AssignStmt); ok {
									for _, l := range a2.Lhs {
										if fieldOf(cin, l) == list {
											hit = true
										}
									}
								}
								return true
							})
						}
					}
					return true
				})
				return hit
			}
			region := regionOfStmts(u.body)
			for _, s := range u.body {
				inspectNoLit(s, func(z ast.Node) bool {
					snd, ok := z.(*ast.SendStmt)
					if !ok {
						return true
					}
					r := rootIdent(snd.Chan)
					if r == nil || objOf(uin, r) != u.req {
						return true
					}
					pt, ok := ug.PointOf(snd)
					if !ok {
						return true
					}
					n++
					removed := false
					for _, q := range ug.AllPoints() {
						if q != pt && region.Contains(q.Node()) && ug.Dominates(q, pt) && writesList(q.Node()) {
							if _, isAs := q.Node().(*ast.AssignStmt); isAs || len(callsIn(q.Node())) > 0 {
								removed = true
							}
						}
					}
					c.Check(removed, u.f, snd, "acknowledgement "+exprString(snd.Chan)+" of an unsubscription", what, ifElse(removed, "every path to the acknowledgement has written "+list.Name()+" in this handler", "a path reaches the acknowledgement without writing "+list.Name()))
					return true
				})
			}
		}
	}
	if n == 0 {
		c.Missing("unsubscribe acknowledgement", "no acknowledged unsubscription clause was found in pkg/tracing")
	}
}

func ruleR155(c *Ctx) {
	p := c.P
	what := "copy(dst, src) copies min(len(dst), len(src)) elements; a destination made with make(T, 0, n) has length 0, so the copy moves nothing and whatever src held (the open chains of a parallel-multiple catch event) is gone when dst replaces it"
	n := 0
	for _, f := range p.Funcs {
		if f.Body == nil || !isTargetPkg(p, f.Pkg.PkgPath) {
			continue
		}
		in := info(f)
		inspectNoLit(f.Body, func(m ast.Node) bool {
			cl, ok := m.(*ast.CallExpr)
			if !ok || !isBuiltin(in, cl, "copy") || len(cl.Args) != 2 {
				return true
			}
			n++
			id, isId := unparen(cl.Args[0]).(*ast.Ident)
			if !isId {
				c.Ok(f, cl, "copy into "+exprString(cl.Args[0]), what, "destination is not a local made here", false)
				return true
			}
			o := objOf(in, id)
			zero := false
			if o != nil && isLocalVar(f.Root(), o) {
				defs, _ := localDefs(in, f.Root().Body, o)
				zero = len(defs) > 0
				for _, d := range defs {
					mk, ok := unparen(d).(*ast.CallExpr)
					if !ok || !isBuiltin(in, mk, "make") || len(mk.Args) < 2 {
						zero = false
						continue
					}
					if tv, ok := in.Types[mk.Args[1]]; !ok || tv.Value == nil || tv.Value.String() != "0" {
						zero = false
					}
				}
			}
			c.Check(!zero, f, cl, "copy into "+id.Name, what, ifElse(zero, id.Name+" is only ever make(…, 0, …): its length is 0 at the copy", "destination has a length"))
			return true
		})
	}
	_ = n
}

func ruleR156(c *Ctx) {
	p := c.P
	what := "a parallel-multiple event opens a new chain when the arriving definition is already set in every open chain (A,A,B,B fires twice). If the only place that opens a chain requires the list to be empty, the second A is dropped and the event fires once"
	n := 0
	for _, f := range p.Funcs {
		if f.Body == nil || f.Obj == nil || f.Pkg.PkgPath != pathLogic || f.Obj.Name() != "Satisfy" {
			continue
		}
		in := info(f)
		type site struct {
			at        ast.Node
			onlyEmpty bool
		}
		sites := map[*types.Var][]site{}
		// record a creation site (an append to the chain list, or the call of a helper that makes it) with what
		// controls it
		record := func(fv *types.Var, at ast.Node) {
			onlyEmpty := false
			for _, pc := range polarConds(p, at) {
				be, ok := unparen(pc.cond).(*ast.BinaryExpr)
				if !ok {
					continue
				}
				isLen := func(e ast.Expr) bool {
					l, ok := unparen(e).(*ast.CallExpr)
					return ok && isBuiltin(in, l, "len") && len(l.Args) == 1 && fieldOf(in, l.Args[0]) == fv
				}
				isZero := func(e ast.Expr) bool {
					tv, ok := in.Types[e]
					return ok && tv.Value != nil && tv.Value.String() == "0"
				}
				if (isLen(be.X) && isZero(be.Y)) || (isLen(be.Y) && isZero(be.X)) {
					if (be.Op == token.EQL && pc.positive) || (be.Op == token.NEQ && !pc.positive) || (be.Op == token.GTR && !pc.positive && isLen(be.X)) {
						onlyEmpty = true
					}
				}
			}
			sites[fv] = append(sites[fv], site{at, onlyEmpty})
		}
		inspectNoLit(f.Body, func(m ast.Node) bool {
			switch x := m.(type) {
			case *ast.AssignStmt:
				if len(x.Rhs) != 1 {
					return true
				}
				cl, ok := unparen(x.Rhs[0]).(*ast.CallExpr)
				if !ok || !isBuiltin(in, cl, "append") {
					return true
				}
				if fv := fieldOf(in, x.Lhs[0]); fv != nil {
					record(fv, x)
				}
			case *ast.CallExpr:
				// a helper of the same type that opens the chain: its call sites are the creation sites
				cf := p.byObj[callee(in, x)]
				if cf == nil || cf == f || cf.Pkg != f.Pkg || cf.Body == nil || cf.Obj == nil || recvNamed(cf.Obj) == nil || recvNamed(cf.Obj) != recvNamed(f.Obj) {
					return true
				}
				cin := info(cf)
				var opened *types.Var
				inspectNoLit(cf.Body, func(z ast.Node) bool {
					if a2, ok := z.(*ast.AssignStmt); ok && len(a2.Rhs) == 1 {
						if c2, ok := unparen(a2.Rhs[0]).(*ast.CallExpr); ok && isBuiltin(cin, c2, "append") {
							if fv := fieldOf(cin, a2.Lhs[0]); fv != nil {
								opened = fv
							}
						}
					}
					return true
				})
				if opened != nil {
					record(opened, x)
				}
			}
			return true
		})
		for fv, ss := range sites {
			n++
			free := false
			for _, s := range ss {
				if !s.onlyEmpty {
					free = true
				}
			}
			c.Check(free, f, ss[0].at, "opening a chain in "+fv.Name(), what, fmt.Sprintf("%d site(s) open a chain in %s; one that does not require the list to be empty: %v", len(ss), fv.Name(), free))
		}
	}
	if n == 0 {
		c.Missing("chain lists", "no Satisfy method that appends to a chain list was found in pkg/logic")
	}
}

// ---- R157, R158 ----

func init() {
	register(&Rule{ID: "R157", Title: "a snapshot is restored verbatim: between decoding a generator snapshot and handing it to the generator's constructor nothing writes its fields", Min: 1, Run: ruleR157})
	register(&Rule{ID: "R158", Title: "identifiers do not share reusable storage: no address of an element of a slice field is handed out while that field is truncated and refilled elsewhere (a later draw would overwrite an id somebody still holds)", Min: 0, Run: ruleR158})
}

// writesThroughParam: does function cf assign to a field / element reached through its idx-th parameter?
func writesThroughParam(p *Prog, cf *FuncInfo, idx int) bool {
	if cf == nil || cf.Body == nil || cf.Obj == nil {
		return false
	}
	sig := cf.Obj.Type().(*types.Signature)
	if idx >= sig.Params().Len() {
		return false
	}
	pv := sig.Params().At(idx)
	in := info(cf)
	hit := false
	ast.Inspect(cf.Body, func(n ast.Node) bool {
		var lhs []ast.Expr
		switch x := n.(type) {
		case *ast.AssignStmt:
			lhs = x.Lhs
		case *ast.IncDecStmt:
			lhs = []ast.Expr{x.X}
		}
		for _, l := range lhs {
			if _, plain := unparen(l).(*ast.Ident); plain {
				continue
			}
			if r := rootIdent(l); r != nil && objOf(in, r) == types.Object(pv) {
				hit = true
			}
		}
		return !hit
	})
	return hit
}

func ruleR157(c *Ctx) {
	p := c.P
	what := "the snapshot carries exactly the state the generator needs to go on without repeating itself — including states that look odd, like a sequence beyond the pool while a time unit is exhausted. 'Repairing' the decoded snapshot before the constructor sees it makes the restored generator hand out ids the snapshotted one already issued"
	n := 0
	for _, f := range p.Funcs {
		if f.Body == nil || f.Pkg.PkgPath != pathID || f.Parent != nil {
			continue
		}
		in := info(f)
		// locals that are the destination of a decode
		inspectNoLit(f.Body, func(m ast.Node) bool {
			cl, ok := m.(*ast.CallExpr)
			if !ok {
				return true
			}
			fn := callee(in, cl)
			if fn == nil || !(fn.Name() == "Unmarshal" || fn.Name() == "UnmarshalString" || fn.Name() == "Decode") || len(cl.Args) == 0 {
				return true
			}
			dst := unparen(cl.Args[len(cl.Args)-1])
			if u, isAddr := dst.(*ast.UnaryExpr); isAddr && u.Op == token.AND {
				dst = unparen(u.X)
			}
			id, isId := dst.(*ast.Ident)
			if !isId {
				return true
			}
			o := objOf(in, id)
			if o == nil || !isLocalVar(f, o) {
				return true
			}
			n++
			var edit ast.Node
			why := ""
			ast.Inspect(f.Body, func(z ast.Node) bool {
				if edit != nil {
					return false
				}
				switch x := z.(type) {
				case *ast.AssignStmt:
					for _, l := range x.Lhs {
						if _, plain := unparen(l).(*ast.Ident); plain {
							continue
						}
						if r := rootIdent(l); r != nil && objOf(in, r) == o {
							edit, why = x, "assignment to "+exprString(l)
						}
					}
				case *ast.IncDecStmt:
					if r := rootIdent(x.X); r != nil && objOf(in, r) == o {
						if _, plain := unparen(x.X).(*ast.Ident); !plain {
							edit, why = x, "update of "+exprString(x.X)
						}
					}
				case *ast.CallExpr:
					if cf := p.byObj[callee(in, x)]; cf != nil && cf.Pkg == f.Pkg {
						for i, a := range x.Args {
							a = unparen(a)
							if u, isAddr := a.(*ast.UnaryExpr); isAddr && u.Op == token.AND {
								a = unparen(u.X)
							}
							if aid, ok := a.(*ast.Ident); ok && objOf(in, aid) == o && writesThroughParam(p, cf, i) {
								edit, why = x, cf.QName()+" writes through the snapshot it is handed"
							}
						}
					}
				}
				return true
			})
			c.Check(edit == nil, f, cl, "decoded "+id.Name+" reaches the constructor unchanged", what, ifElse(edit == nil, "no write of "+id.Name+"'s fields in "+f.QName(), why+" at "+c.pos(edit)))
			return true
		})
	}
	if n == 0 {
		c.Missing("snapshot decode", "no decode of a snapshot into a local was found in pkg/id")
	}
}

func ruleR158(c *Ctx) {
	p := c.P
	what := "an Id is held by flows, traces and callers long after it was drawn. If ids are carved out of a slice field that is later cut back to [:0] and appended to again, the storage of an id somebody holds is overwritten by a later draw: two holders then see the same id"
	// slice fields that are cut back to a prefix of themselves somewhere
	truncated := map[*types.Var]string{}
	for _, f := range p.Funcs {
		if f.Body == nil || !isTargetPkg(p, f.Pkg.PkgPath) {
			continue
		}
		in := info(f)
		ast.Inspect(f.Body, func(n ast.Node) bool {
			as, ok := n.(*ast.AssignStmt)
			if !ok || len(as.Lhs) != len(as.Rhs) {
				return true
			}
			for i, l := range as.Lhs {
				fv := fieldOf(in, l)
				if fv == nil {
					continue
				}
				if se, ok := unparen(as.Rhs[i]).(*ast.SliceExpr); ok && !se.Slice3 && fieldOf(in, se.X) == fv && se.Low == nil {
					truncated[fv] = p.Pos(as.Pos())
				}
			}
			return true
		})
	}
	for _, f := range p.Funcs {
		// (the schema model's accessors return addresses of elements by design; its lists are never refilled)
		if f.Body == nil || !isTargetPkg(p, f.Pkg.PkgPath) || f.Pkg.PkgPath == pathSchema {
			continue
		}
		in := info(f)
		inspectNoLit(f.Body, func(n ast.Node) bool {
			u, ok := n.(*ast.UnaryExpr)
			if !ok || u.Op != token.AND {
				return true
			}
			ix, ok := unparen(u.X).(*ast.IndexExpr)
			if !ok {
				return true
			}
			fv := fieldOf(in, ix.X)
			if fv == nil {
				return true
			}
			if _, isSlice := fv.Type().Underlying().(*types.Slice); !isSlice {
				return true
			}
			// escapes: returned, stored, sent or passed on
			escapes := false
			switch par := p.Parent(u).(type) {
			case *ast.ReturnStmt, *ast.SendStmt, *ast.CompositeLit, *ast.KeyValueExpr, *ast.CallExpr:
				escapes = true
				_ = par
			case *ast.AssignStmt:
				escapes = true
			}
			if !escapes {
				return true
			}
			at, cut := truncated[fv]
			c.Check(!cut, f, u, "address of an element of "+fv.Name()+" handed out", what, ifElse(cut, fv.Name()+" is cut back and refilled at "+at, fv.Name()+" is never cut back"))
			return true
		})
	}
}

// ---- R159, R160, R161 ----

func init() {
	register(&Rule{ID: "R159", Title: "MarshalXML encodes the value as it is: the copy a MarshalXML method encodes is changed at most by filling an EMPTY field with a constant default", Min: 15, Run: ruleR159})
	register(&Rule{ID: "R160", Title: "a layout is computed from the model alone: AutoLayout and its helpers never read the previous diagram of the builder (laying out twice equals laying out once)", Min: 1, Run: ruleR160})
	register(&Rule{ID: "R161", Title: "no division by an unchecked configuration value: a floating-point division by a field of a configuration parameter is guarded by a test of that field (a zero gap otherwise yields NaN/Inf coordinates)", Min: 0, Run: ruleR161})
}

func ruleR159(c *Ctx) {
	p := c.P
	what := "what a MarshalXML method writes is what the reader gets back. Re-encoding an attribute ('canonical JSON' turns 64-bit numbers into floats), or dropping one because it 'equals the default' (an absent expression language means the document's language, not XPath), changes the re-parsed model"
	n := 0
	for _, f := range p.Funcs {
		if f.Body == nil || f.Obj == nil || f.Obj.Name() != "MarshalXML" || f.Pkg.PkgPath != pathSchema {
			continue
		}
		in := info(f)
		// the encoded value
		var enc types.Object
		inspectNoLit(f.Body, func(m ast.Node) bool {
			cl, ok := m.(*ast.CallExpr)
			if !ok {
				return true
			}
			fn := callee(in, cl)
			if fn == nil || fn.Pkg() == nil || fn.Pkg().Path() != "encoding/xml" || !(fn.Name() == "EncodeElement" || fn.Name() == "Encode") || len(cl.Args) == 0 {
				return true
			}
			a := unparen(cl.Args[0])
			if u, isAddr := a.(*ast.UnaryExpr); isAddr && u.Op == token.AND {
				a = unparen(u.X)
			}
			if id, ok := a.(*ast.Ident); ok {
				if o := objOf(in, id); o != nil && isLocalVar(f, o) {
					enc = o
				}
			}
			return true
		})
		if enc == nil {
			continue
		}
		n++
		var bad ast.Node
		why := ""
		inspectNoLit(f.Body, func(m ast.Node) bool {
			as, ok := m.(*ast.AssignStmt)
			if !ok || bad != nil {
				return true
			}
			for i, l := range as.Lhs {
				if _, plain := unparen(l).(*ast.Ident); plain {
					continue
				}
				r := rootIdent(l)
				if r == nil || objOf(in, r) != enc {
					continue
				}
				// allowed: constant default into a field that is tested empty
				okDefault := false
				if i < len(as.Rhs) && len(as.Lhs) == len(as.Rhs) {
					if tv, has := in.Types[as.Rhs[i]]; has && tv.Value != nil || isConstIdent(in, as.Rhs[i]) {
						for _, pc := range polarConds(p, as) {
							be, isBin := unparen(pc.cond).(*ast.BinaryExpr)
							if !isBin || !pc.positive || be.Op != token.EQL {
								continue
							}
							if sameRef(in, be.X, l) || sameRef(in, be.Y, l) {
								other := be.Y
								if sameRef(in, be.Y, l) {
									other = be.X
								}
								if tv, has := in.Types[other]; has && (tv.IsNil() || (tv.Value != nil && (tv.Value.String() == `""` || tv.Value.String() == "0" || tv.Value.String() == "false"))) {
									okDefault = true
								}
							}
						}
					}
				}
				if !okDefault {
					bad, why = as, "assignment to "+exprString(l)
				}
			}
			return true
		})
		// the address of the copy (or of a field of it) handed to anything but the encoder: the callee can rewrite it
		inspectNoLit(f.Body, func(m ast.Node) bool {
			cl, ok := m.(*ast.CallExpr)
			if !ok || bad != nil {
				return true
			}
			if fn := callee(in, cl); fn != nil && fn.Pkg() != nil && fn.Pkg().Path() == "encoding/xml" {
				return true
			}
			for _, a := range cl.Args {
				u, isAddr := unparen(a).(*ast.UnaryExpr)
				if !isAddr || u.Op != token.AND {
					continue
				}
				if r := rootIdent(u.X); r != nil && objOf(in, r) == enc {
					bad, why = cl, "the address "+exprString(a)+" handed to "+exprString(cl.Fun)
				}
			}
			return true
		})
		c.Check(bad == nil, f, f.Decl, f.QName()+" encodes its value unchanged", what, ifElse(bad == nil, "the encoded copy "+enc.Name()+" is not rewritten", why+" at "+c.pos(bad)+" rewrites the copy that is encoded"))
	}
	if n == 0 {
		c.Missing("MarshalXML methods", "no MarshalXML method that encodes a local copy was found")
	}
}

func isConstIdent(in *types.Info, e ast.Expr) bool {
	switch x := unparen(e).(type) {
	case *ast.Ident:
		_, ok := in.Uses[x].(*types.Const)
		return ok
	case *ast.SelectorExpr:
		_, ok := in.Uses[x.Sel].(*types.Const)
		return ok
	}
	return false
}

func ruleR160(c *Ctx) {
	p := c.P
	what := "AutoLayout may be called again after another AddProcess or with another configuration; it then has to produce the diagram of the current model. A layout that starts from the lists of the previous diagram keeps the old edges (with way points that no longer meet their shapes) next to the new ones"
	n := 0
	for _, f := range p.Funcs {
		if f.Body == nil || f.Obj == nil || f.Obj.Name() != "AutoLayout" || f.Pkg.PkgPath != pathSchema {
			continue
		}
		T := recvNamed(f.Obj)
		if T == nil {
			continue
		}
		// the diagram field: the field of the receiver that AutoLayout assigns on its last path
		in := info(f)
		var diag *types.Var
		inspectNoLit(f.Body, func(m ast.Node) bool {
			if as, ok := m.(*ast.AssignStmt); ok {
				for _, l := range as.Lhs {
					if fv := fieldOf(in, l); fv != nil && strings.Contains(strings.ToLower(fv.Name()), "diagram") {
						diag = fv
					}
				}
			}
			return true
		})
		if diag == nil {
			continue
		}
		// AutoLayout and what it calls in the package
		seen := map[*FuncInfo]bool{}
		var reads []string
		var walk func(h *FuncInfo, depth int)
		walk = func(h *FuncInfo, depth int) {
			if h == nil || h.Body == nil || seen[h] || depth > 3 {
				return
			}
			seen[h] = true
			hin := info(h)
			ast.Inspect(h.Body, func(m ast.Node) bool {
				switch x := m.(type) {
				case *ast.SelectorExpr:
					if fieldOf(hin, x) == diag {
						// a pure write?
						if as, ok := p.Parent(x).(*ast.AssignStmt); ok {
							for _, l := range as.Lhs {
								if l == ast.Expr(x) {
									return true
								}
							}
						}
						reads = append(reads, exprString(x)+" at "+p.Pos(x.Pos()))
					}
				case *ast.CallExpr:
					if cf := p.byObj[callee(hin, x)]; cf != nil && cf.Pkg == h.Pkg {
						// an accessor of the diagram on the builder
						if cf.Obj != nil && recvNamed(cf.Obj) == T && cf.Body != nil {
							cin := info(cf)
							ret := false
							ast.Inspect(cf.Body, func(z ast.Node) bool {
								if rs, ok := z.(*ast.ReturnStmt); ok {
									for _, r := range rs.Results {
										if mentionsDeep(r, func(y ast.Node) bool {
											se, ok := y.(*ast.SelectorExpr)
											return ok && fieldOf(cin, se) == diag
										}) {
											ret = true
										}
									}
								}
								return true
							})
							if ret {
								reads = append(reads, exprString(x.Fun)+"() at "+p.Pos(x.Pos()))
								return true
							}
						}
						walk(cf, depth+1)
					}
				}
				return true
			})
		}
		walk(f, 0)
		n++
		c.Check(len(reads) == 0, f, f.Decl, "AutoLayout does not read "+diag.Name(), what, ifElse(len(reads) == 0, fmt.Sprintf("%d functions reachable from AutoLayout only write %s", len(seen), diag.Name()), "read: "+strings.Join(reads, "; ")))
	}
	if n == 0 {
		c.Missing("AutoLayout", "no AutoLayout method that assigns a diagram field was found")
	}
}

func ruleR161(c *Ctx) {
	p := c.P
	what := "a configuration is caller input: a zero (unset) gap is a legal value. x / cfg.Gap with Gap == 0 is ±Inf or NaN in floating point, it does not panic — the NaN travels into every coordinate computed from it and into the exported diagram"
	for _, f := range p.Funcs {
		if f.Body == nil || !isTargetPkg(p, f.Pkg.PkgPath) {
			continue
		}
		in := info(f)
		inspectNoLit(f.Body, func(m ast.Node) bool {
			be, ok := m.(*ast.BinaryExpr)
			if !ok || be.Op != token.QUO {
				return true
			}
			fv := fieldOf(in, be.Y)
			if fv == nil {
				return true
			}
			if b, isBasic := fv.Type().Underlying().(*types.Basic); !isBasic || b.Info()&types.IsFloat == 0 {
				return true
			}
			r := rootIdent(be.Y)
			if r == nil {
				return true
			}
			pv, isVar := objOf(in, r).(*types.Var)
			if !isVar || !isParam(f.Root(), pv) {
				return true
			}
			// guarded: a controlling condition, or an earlier guard clause / normalising assignment, mentions the field
			guarded := false
			mentions := func(e ast.Node) bool {
				return mentionsDeep(e, func(z ast.Node) bool {
					se, ok := z.(*ast.SelectorExpr)
					return ok && fieldOf(in, se) == fv
				})
			}
			for _, pc := range polarConds(p, be) {
				if mentions(pc.cond) {
					guarded = true
				}
			}
			if !guarded {
				ast.Inspect(f.Root().Body, func(z ast.Node) bool {
					if ifs, ok := z.(*ast.IfStmt); ok && ifs.End() < be.Pos() && mentions(ifs.Cond) {
						guarded = true
					}
					return true
				})
			}
			c.Check(guarded, f, be, "division by "+exprString(be.Y), what, ifElse(guarded, "a test of "+fv.Name()+" precedes or controls the division", "nothing tests "+fv.Name()+" before the division"))
			return true
		})
	}
}

// ---- R162, R163 ----

func init() {
	register(&Rule{ID: "R162", Title: "subscribe and unsubscribe keep the same books: every field of the broadcaster that the subscribe clause writes is also written by the unsubscribe clause", Min: 1, Run: ruleR162})
	register(&Rule{ID: "R163", Title: "one throw, one message: the set's watcher posts a throw message only from the arm of the FlowTrace with which the token leaves the throw event", Min: 1, Run: ruleR163})
}

func ruleR162(c *Ctx) {
	p := c.P
	what := "a record of 'who is subscribed' that is only ever added to makes a channel that left and joins again look subscribed: its subscription is acknowledged but it is not put on the list, receives nothing, and its next Unsubscribe never returns"
	n := 0
	for _, f := range p.Funcs {
		if f.Body == nil || f.Pkg.PkgPath != pathTracing {
			continue
		}
		in := info(f)
		fieldsWritten := func(list []ast.Stmt) map[*types.Var]bool {
			out := map[*types.Var]bool{}
			var visit func(fi *FuncInfo, nd ast.Node, depth int)
			visit = func(fi *FuncInfo, nd ast.Node, depth int) {
				fin := info(fi)
				ast.Inspect(nd, func(z ast.Node) bool {
					switch x := z.(type) {
					case *ast.AssignStmt:
						for _, l := range x.Lhs {
							e := unparen(l)
							if ix, ok := e.(*ast.IndexExpr); ok {
								e = ix.X
							}
							if fv := fieldOf(fin, e); fv != nil {
								out[fv] = true
							}
						}
					case *ast.CallExpr:
						if isBuiltin(fin, x, "delete") && len(x.Args) == 2 {
							if fv := fieldOf(fin, x.Args[0]); fv != nil {
								out[fv] = true
							}
						}
						if depth > 0 {
							if cf := p.byObj[callee(fin, x)]; cf != nil && cf.Pkg == f.Pkg && cf.Body != nil {
								visit(cf, cf.Body, depth-1)
							}
						}
					}
					return true
				})
			}
			for _, st := range list {
				visit(f, st, 1)
			}
			return out
		}
		var sub, unsub *ast.CommClause
		inspectNoLit(f.Body, func(m ast.Node) bool {
			cc, ok := m.(*ast.CommClause)
			if !ok || cc.Comm == nil {
				return true
			}
			as, ok := cc.Comm.(*ast.AssignStmt)
			if !ok || len(as.Lhs) == 0 {
				return true
			}
			id, _ := as.Lhs[0].(*ast.Ident)
			if id == nil {
				return true
			}
			o := objOf(in, id)
			if o == nil {
				return true
			}
			st, ok := o.Type().Underlying().(*types.Struct)
			if !ok {
				return true
			}
			hasChan := false
			for i := 0; i < st.NumFields(); i++ {
				if et, isCh := chanElem(st.Field(i).Type()); isCh && isITrace(et) {
					hasChan = true
				}
			}
			if !hasChan {
				return true
			}
			appends := false
			for _, s := range cc.Body {
				inspectNoLit(s, func(z ast.Node) bool {
					if cl, ok := z.(*ast.CallExpr); ok && isBuiltin(in, cl, "append") {
						appends = true
					}
					return true
				})
			}
			if appends {
				sub = cc
			} else {
				unsub = cc
			}
			return true
		})
		if sub == nil || unsub == nil {
			continue
		}
		n++
		ws, wu := fieldsWritten(sub.Body), fieldsWritten(unsub.Body)
		var missing, all []string
		for fv := range ws {
			all = append(all, fv.Name())
			if !wu[fv] {
				missing = append(missing, fv.Name())
			}
		}
		sort.Strings(missing)
		sort.Strings(all)
		c.Check(len(missing) == 0, f, sub, "books kept by subscribe and unsubscribe", what, ifElse(len(missing) == 0, fmt.Sprintf("subscribe writes %v; unsubscribe writes all of them", all), fmt.Sprintf("subscribe writes %v, which unsubscribe never writes", missing)))
	}
	if n == 0 {
		c.Missing("subscribe / unsubscribe clauses", "the broadcaster's two request clauses were not found in pkg/tracing")
	}
}

func ruleR163(c *Ctx) {
	p := c.P
	what := "a throw event emits its FlowTrace once per throw; a TerminationTrace with the throw event as source is also sent for a token that reaches a throw event which has already fired (and for a throw without outgoing flows). Posting on both instantiates the waiting process, or wakes the catch event, twice for one throw"
	isThrowMsg := func(t types.Type) bool { return isNamed(t, pathBpmn, "throwMessage") }
	n := 0
	// arms of trace dispatches per function
	type armInfo struct {
		r   Region
		typ string
	}
	armsOf := map[*FuncInfo][]armInfo{}
	for _, f := range p.Funcs {
		if f.Body == nil || f.Pkg.PkgPath != pathBpmn {
			continue
		}
		for _, d := range typeDispatches(p, f, isITrace) {
			for _, a := range d {
				nm := "default"
				if len(a.Types) == 1 && a.Types[0] != nil {
					nm = typeString(a.Types[0])
				} else if len(a.Types) > 1 {
					nm = "several"
				}
				armsOf[f] = append(armsOf[f], armInfo{regionOfStmts(a.Body), nm})
			}
		}
	}
	var armOfSite func(f *FuncInfo, nd ast.Node, depth int) []string
	armOfSite = func(f *FuncInfo, nd ast.Node, depth int) []string {
		for _, a := range armsOf[f] {
			if a.r.Contains(nd) {
				return []string{a.typ}
			}
		}
		if depth == 0 || f.Root().Obj == nil {
			return []string{"outside any trace arm"}
		}
		var out []string
		for _, h := range p.Funcs {
			if h.Body == nil || h.Pkg != f.Pkg {
				continue
			}
			hin := info(h)
			inspectNoLit(h.Body, func(m ast.Node) bool {
				if cl, ok := m.(*ast.CallExpr); ok && callee(hin, cl) == f.Root().Obj {
					out = append(out, armOfSite(h, cl, depth-1)...)
				}
				return true
			})
		}
		if len(out) == 0 {
			out = []string{"outside any trace arm"}
		}
		return out
	}
	for _, f := range p.Funcs {
		if f.Body == nil || f.Pkg.PkgPath != pathBpmn {
			continue
		}
		r := f.Root()
		if r.Obj == nil || recvNamed(r.Obj) == nil || recvNamed(r.Obj).Obj().Name() != "ProcessSet" {
			continue
		}
		in := info(f)
		inspectNoLit(f.Body, func(m ast.Node) bool {
			s, ok := m.(*ast.SendStmt)
			if !ok || !isThrowMsg(in.TypeOf(s.Value)) {
				return true
			}
			n++
			arms := armOfSite(f, s, 2)
			ok2 := true
			for _, a := range arms {
				if a != "bpmn.FlowTrace" {
					ok2 = false
				}
			}
			c.Check(ok2, f, s, "post of a throw message", what, fmt.Sprintf("reached from trace arm(s) %v", arms))
			return true
		})
	}
	if n == 0 {
		c.Missing("post of a throw message", "no send of a throwMessage in the methods of ProcessSet was found")
	}
}

// ---- R165 ----

func init() {
	register(&Rule{ID: "R165", Title: "a clock shows the new time to whoever it wakes: either Now() takes the lock that the setter holds while it wakes the waiters, or the setter stores the new time before the first wake-up", Min: 1, Run: ruleR165})
}

func ruleR165(c *Ctx) {
	p := c.P
	what := "a timer goroutine that is woken by a clock jump reads the clock (is the end bound reached? what time is it now?). If the setter publishes the new time only after it has delivered the wake-ups and Now() does not wait for the setter, the woken goroutine still sees the old time: a cycle fires beyond its end bound, a consumer sees a firing 'before' its due time"
	n := 0
	for _, f := range p.Funcs {
		if f.Body == nil || f.Obj == nil || f.Obj.Name() != "Now" || f.Pkg.PkgPath != pathClock {
			continue
		}
		T := recvNamed(f.Obj)
		if T == nil {
			continue
		}
		if _, isStruct := T.Underlying().(*types.Struct); !isStruct {
			continue
		}
		in := info(f)
		// the field(s) Now reads
		nowFields := map[*types.Var]bool{}
		locks := false
		ast.Inspect(f.Body, func(m ast.Node) bool {
			switch x := m.(type) {
			case *ast.SelectorExpr:
				if fv := fieldOf(in, x); fv != nil && !strings.Contains(typeString(fv.Type()), "Mutex") {
					nowFields[fv] = true
				}
			case *ast.CallExpr:
				if fn := callee(in, x); fn != nil && (fn.Name() == "RLock" || fn.Name() == "Lock") && fn.Pkg() != nil && fn.Pkg().Path() == "sync" {
					locks = true
				}
			}
			return true
		})
		if len(nowFields) == 0 {
			continue
		}
		// setters: functions of the type that write a now-field and wake waiters (send on a channel) in the same body
		for _, s := range p.Funcs {
			if s.Body == nil || s.Obj == nil || s.Parent != nil || recvNamed(s.Obj) != T {
				continue
			}
			sin := info(s)
			g := p.Graph(s)
			var writes, sends []Point
			for _, pt := range g.AllPoints() {
				nd := pt.Node()
				if as, ok := nd.(*ast.AssignStmt); ok {
					for _, l := range as.Lhs {
						if fv := fieldOf(sin, l); fv != nil && nowFields[fv] {
							writes = append(writes, pt)
						}
					}
				}
				for _, cl := range callsIn(nd) {
					if se, ok := unparen(cl.Fun).(*ast.SelectorExpr); ok && (se.Sel.Name == "Store" || se.Sel.Name == "Swap") {
						if fv := fieldOf(sin, se.X); fv != nil && nowFields[fv] {
							writes = append(writes, pt)
						}
					}
				}
				if sd, ok := nd.(*ast.SendStmt); ok {
					// wake-ups of waiters: sends on channels kept in the receiver's state
					if r := rootIdent(sd.Chan); r != nil {
						if rv, isVar := objOf(sin, r).(*types.Var); isVar && isParamOrRecv(s, rv) {
							sends = append(sends, pt)
						}
					}
				}
			}
			if len(writes) == 0 || len(sends) == 0 {
				continue
			}
			n++
			early := true
			for _, sd := range sends {
				dom := false
				for _, w := range writes {
					if g.Dominates(w, sd) {
						dom = true
					}
				}
				if !dom {
					early = false
				}
			}
			c.Check(locks || early, s, s.Decl, "time published by "+s.QName(), what, fmt.Sprintf("Now() takes the lock: %v; the store of the new time precedes every wake-up: %v", locks, early))
		}
	}
	if n == 0 {
		c.Missing("clock setters", "no clock type with a Now method and a setter that wakes waiters was found in pkg/clock")
	}
}

// ---- R166 ----

func init() {
	register(&Rule{ID: "R166", Title: "every activation of a re-enterable node gets its own completion monitor: a flow node that launches a one-shot completion monitor (a goroutine that sends CeaseFlowTrace and ends) launches it per request, not under a once-only guard of the node", Min: 1, Run: ruleR166})
}

func ruleR166(c *Ctx) {
	p := c.P
	what := "a sub-process inside a loop is activated once per iteration; each activation waits for the CeaseFlowTrace of its inner tokens. The monitor that sends it ends after one CeaseFlowTrace — if it is launched only the first time the node is reached, the second activation waits for a trace nobody will send and the parent's token never leaves the sub-process"
	// monitors: declared functions in whose body (closures included) a CeaseFlowTrace is sent
	monitors := map[*FuncInfo]bool{}
	for _, f := range p.Funcs {
		if f.Body == nil || f.Pkg.PkgPath != pathBpmn {
			continue
		}
		in := info(f)
		inspectNoLit(f.Body, func(m ast.Node) bool {
			if cl, ok := m.(*ast.CallExpr); ok && isTracerMethod(in, cl, "Send") {
				if t, ok := sentTraceType(in, cl); ok && t == "CeaseFlowTrace" {
					monitors[f.Root()] = true
				}
			}
			return true
		})
	}
	n := 0
	for _, f := range p.Funcs {
		if f.Body == nil || f.Pkg.PkgPath != pathBpmn {
			continue
		}
		r := f.Root()
		if r.Obj == nil || recvNamed(r.Obj) == nil {
			continue
		}
		T := recvNamed(r.Obj)
		// flow nodes: types with a NextAction method
		isNode := false
		ms := types.NewMethodSet(types.NewPointer(T))
		for i := 0; i < ms.Len(); i++ {
			if ms.At(i).Obj().Name() == "NextAction" {
				isNode = true
			}
		}
		if !isNode {
			continue
		}
		in := info(f)
		inspectNoLit(f.Body, func(m ast.Node) bool {
			gs, ok := m.(*ast.GoStmt)
			if !ok {
				return true
			}
			var fn *types.Func
			switch fun := unparen(gs.Call.Fun).(type) {
			case *ast.CallExpr:
				fn = callee(in, fun)
			default:
				fn = callee(in, gs.Call)
			}
			cf := p.byObj[fn]
			if cf == nil || !monitors[cf.Root()] {
				return true
			}
			n++
			once := ""
			for _, pc := range polarConds(p, gs) {
				if mentionsDeep(pc.cond, func(z ast.Node) bool {
					cl, ok := z.(*ast.CallExpr)
					if !ok {
						return false
					}
					se, ok := unparen(cl.Fun).(*ast.SelectorExpr)
					return ok && strings.HasPrefix(se.Sel.Name, "CompareAndSwap")
				}) {
					once = "guarded by " + exprString(pc.cond)
				}
			}
			if f.Lit != nil {
				if cl, ok := p.Parent(f.Lit).(*ast.CallExpr); ok && isSyncMethod(info(f.Parent), cl, "Once", "Do") {
					once = "inside sync.Once.Do"
				}
			}
			c.Check(once == "", f, gs, "launch of the completion monitor "+cf.QName()+" by node "+T.Obj().Name(), what, ifElse(once == "", "launched per request", "launched once per node ("+once+"), and the monitor ends after its CeaseFlowTrace"))
			return true
		})
	}
	if n == 0 {
		c.Missing("monitor launches in flow nodes", "no flow node that launches a completion monitor was found")
	}
}

// ---- R168 ----

func init() {
	register(&Rule{ID: "R168", Title: "a token lives under the context its node was given: the context handed to a flow's Start is a context parameter of the enclosing function, never one the engine derived (WithCancel / WithTimeout) for a part of the instance", Min: 4, Run: ruleR168})
}

func ruleR168(c *Ctx) {
	p := c.P
	what := "a flow keeps the context it was started with for the whole life of its token, hands it to the tokens it forks and to the run loops of the nodes it reaches first. Starting a boundary listener under its own cancellable context ('stop the other listeners when the activity is interrupted') therefore also cancels an exception flow that has already fired and is somewhere down its path"
	n := 0
	for _, f := range p.Funcs {
		if f.Body == nil || f.Pkg.PkgPath != pathBpmn {
			continue
		}
		in := info(f)
		inspectNoLit(f.Body, func(m ast.Node) bool {
			cl, ok := m.(*ast.CallExpr)
			if !ok || len(cl.Args) != 1 {
				return true
			}
			fn := callee(in, cl)
			if fn == nil || fn.Name() != "Start" || recvNamed(fn) == nil || recvNamed(fn).Obj().Name() != "flow" {
				return true
			}
			n++
			good, wit := false, "the argument "+exprString(cl.Args[0])+" is not a context parameter"
			if id, isId := unparen(cl.Args[0]).(*ast.Ident); isId {
				if v, isVar := objOf(in, id).(*types.Var); isVar {
					for cur := f; cur != nil; cur = cur.Parent {
						if isParam(cur, v) {
							good, wit = true, id.Name+" is a parameter of "+cur.QName()
						}
					}
					if !good && isLocalVar(f.Root(), v) {
						defs, _ := localDefs(in, f.Root().Body, v)
						for _, d := range defs {
							if dc, ok := unparen(d).(*ast.CallExpr); ok {
								if dfn := callee(in, dc); dfn != nil && dfn.Pkg() != nil && dfn.Pkg().Path() == "context" {
									wit = id.Name + " is derived with context." + dfn.Name() + " at " + c.pos(dc)
								}
							}
						}
					}
				}
			}
			c.Check(good, f, cl, "context of a started flow", what, wit)
			return true
		})
	}
	if n == 0 {
		c.Missing("flow starts", "no call of (*flow).Start was found")
	}
}

// ---- R169 ----

func init() {
	register(&Rule{ID: "R169", Title: "a function that appends to a field's slice without storing the result back is not run concurrently with itself: it is not reachable from a goroutine launched inside a loop (two runs would write the same spare slot of the shared backing array)", Min: 1, Run: ruleR169})
}

func ruleR169(c *Ctx) {
	p := c.P
	what := "append(obj.opts, x) used as a value (an argument list) writes x into the spare capacity of obj.opts's backing array when there is any. One caller at a time that is harmless; two goroutines doing it at once race on that slot and one of them builds its process with the other's option (the other's tracer)"
	// functions with an aliasing append on a field
	type site struct {
		f  *FuncInfo
		at *ast.CallExpr
		fv *types.Var
	}
	var sites []site
	for _, f := range p.Funcs {
		if f.Body == nil || f.Pkg.PkgPath != pathBpmn {
			continue
		}
		in := info(f)
		inspectNoLit(f.Body, func(m ast.Node) bool {
			cl, ok := m.(*ast.CallExpr)
			if !ok || !isBuiltin(in, cl, "append") || len(cl.Args) < 2 {
				return true
			}
			fv := fieldOf(in, cl.Args[0])
			if fv == nil {
				return true
			}
			if as, isAs := p.Parent(cl).(*ast.AssignStmt); isAs {
				for i, r := range as.Rhs {
					if unparen(r) == ast.Expr(cl) && i < len(as.Lhs) && sameRef(in, as.Lhs[i], cl.Args[0]) {
						return true // stored back
					}
				}
			}
			sites = append(sites, site{f, cl, fv})
			return true
		})
	}
	// functions reachable from a goroutine launched inside a loop
	concurrent := map[*FuncInfo]string{}
	var reach func(h *FuncInfo, why string, depth int)
	reach = func(h *FuncInfo, why string, depth int) {
		if h == nil || h.Body == nil || depth > 3 {
			return
		}
		if _, seen := concurrent[h]; seen {
			return
		}
		concurrent[h] = why
		hin := info(h)
		ast.Inspect(h.Body, func(m ast.Node) bool {
			if cl, ok := m.(*ast.CallExpr); ok {
				if cf := p.byObj[callee(hin, cl)]; cf != nil {
					reach(cf, why, depth+1)
				}
			}
			return true
		})
	}
	for _, f := range p.Funcs {
		if f.Body == nil || f.Pkg.PkgPath != pathBpmn {
			continue
		}
		in := info(f)
		inspectNoLit(f.Body, func(m ast.Node) bool {
			gs, ok := m.(*ast.GoStmt)
			if !ok || innermostLoop(p, gs) == nil {
				return true
			}
			why := "goroutine launched in a loop at " + p.Pos(gs.Pos())
			if lit, isLit := unparen(gs.Call.Fun).(*ast.FuncLit); isLit {
				for _, l := range f.Lits {
					if l.Lit == lit {
						reach(l, why, 0)
					}
				}
			} else if cf := p.byObj[callee(in, gs.Call)]; cf != nil {
				reach(cf, why, 0)
			}
			return true
		})
	}
	for _, s := range sites {
		why, conc := concurrent[s.f]
		if !conc {
			why, conc = concurrent[s.f.Root()]
		}
		c.Check(!conc, s.f, s.at, "append onto "+s.fv.Name()+" used as a value", what, ifElse(conc, s.f.QName()+" is reached from a "+why, s.f.QName()+" is not reached from any goroutine launched in a loop"))
	}
	if len(sites) == 0 {
		c.Missing("aliasing appends", "no append onto a field whose result is used as a value was found")
	}
}

// ---- R170–R173: structural parts of four faults that had been declined as value-level ----

func init() {
	register(&Rule{ID: "R170", Title: "a clock's wake-up carries the clock's time: what Until/After of a clock send on the channel they return is never the instant the caller asked for", Min: 2, Run: ruleR170})
	register(&Rule{ID: "R171", Title: "first fit over the whole list: the loop of a satisfier that looks for the chain which still lacks the event visits every chain from the first one", Min: 2, Run: ruleR171})
	register(&Rule{ID: "R172", Title: "a layout cursor is carried through the loop: a variable that is declared before a loop, handed to the per-item layout inside it and assigned inside it is assigned from itself", Min: 1, Run: ruleR172})
	register(&Rule{ID: "R173", Title: "a text payload is written back whole: what is handed to SetTextPayload outside the accessors derives from the payload through strings.TrimSpace at most", Min: 1, Run: ruleR173})
}

func ruleR170(c *Ctx) {
	p := c.P
	what := "a timer derives its next due time from the time the clock delivers (`case t = <-timer`). If Until reports the requested instant instead of the clock's time when that instant has already passed, a cycle timer walks forward from the schedule instead of from the clock and fires a catch-up burst at one clock instant"
	n := 0
	for _, f := range p.Funcs {
		if f.Body == nil || f.Obj == nil || f.Pkg.PkgPath != pathClock || !(f.Obj.Name() == "Until" || f.Obj.Name() == "After") || recvNamed(f.Obj) == nil {
			continue
		}
		sig := f.Obj.Type().(*types.Signature)
		if sig.Params().Len() != 1 {
			continue
		}
		pv := sig.Params().At(0)
		in := info(f)
		n++
		var bad *ast.SendStmt
		ast.Inspect(f.Body, func(m ast.Node) bool {
			s, ok := m.(*ast.SendStmt)
			if !ok {
				return true
			}
			if id, isId := unparen(s.Value).(*ast.Ident); isId && in.Uses[id] == types.Object(pv) {
				bad = s
			}
			return true
		})
		c.Check(bad == nil, f, f.Decl, f.QName()+" delivers the clock's time", what, ifElse(bad == nil, "no send carries the parameter "+pv.Name(), "a send carries the requested instant "+pv.Name()))
	}
	if n == 0 {
		c.Missing("clock wake-ups", "no Until/After method was found in pkg/clock")
	}
}

func ruleR171(c *Ctx) {
	p := c.P
	what := "an arriving definition goes into the FIRST open chain that lacks it. Removing a completed chain moves the last chain into the freed slot, so the chains that lack a definition do not form a suffix: a scan that skips a prefix opens a new chain although an earlier one could take the event, and the partial sets can no longer be paired up"
	n := 0
	for _, f := range p.Funcs {
		if f.Body == nil || f.Obj == nil || f.Pkg.PkgPath != pathLogic || f.Obj.Name() != "Satisfy" {
			continue
		}
		in := info(f)
		inspectNoLit(f.Body, func(m ast.Node) bool {
			var body *ast.BlockStmt
			whole, how := false, ""
			var over ast.Expr
			switch x := m.(type) {
			case *ast.RangeStmt:
				body, over = x.Body, x.X
				whole, how = true, "range over the whole list"
			case *ast.ForStmt:
				body = x.Body
				if as, ok := x.Init.(*ast.AssignStmt); ok && len(as.Rhs) == 1 {
					if tv, has := in.Types[as.Rhs[0]]; has && tv.Value != nil && tv.Value.String() == "0" {
						whole, how = true, "index loop from 0"
					} else {
						how = "index loop that starts at " + exprString(as.Rhs[0])
					}
				} else {
					how = "loop without a start at 0"
				}
				if be, ok := x.Cond.(*ast.BinaryExpr); ok {
					if cl, ok := unparen(be.Y).(*ast.CallExpr); ok && isBuiltin(in, cl, "len") && len(cl.Args) == 1 {
						over = cl.Args[0]
					}
				}
			default:
				return true
			}
			fv := fieldOf(in, exprOrNil(over))
			if body == nil || fv == nil {
				return true
			}
			if _, isSlice := fv.Type().Underlying().(*types.Slice); !isSlice {
				return true
			}
			// the fitting loop: tests a bit of the chain and sets it
			tests, sets := false, false
			inspectNoLit(body, func(z ast.Node) bool {
				if cl, ok := z.(*ast.CallExpr); ok {
					if se, ok := unparen(cl.Fun).(*ast.SelectorExpr); ok {
						if ix, ok := unparen(se.X).(*ast.IndexExpr); ok && fieldOf(in, ix.X) == fv {
							switch se.Sel.Name {
							case "Test":
								tests = true
							case "Set":
								sets = true
							}
						}
					}
				}
				return true
			})
			if !tests || !sets {
				return true
			}
			n++
			c.Check(whole, f, m, "first-fit scan over "+fv.Name(), what, how)
			return true
		})
	}
	if n == 0 {
		c.Missing("first-fit scans", "no loop over a chain list that tests and sets a bit was found in pkg/logic")
	}
}

func ruleR172(c *Ctx) {
	p := c.P
	what := "processes are stacked one below the other: the vertical cursor of the next process is the cursor of this one plus its height and the gap. Computed from the start value instead of from itself, the third and every later process lands on top of the second"
	n := 0
	for _, f := range p.Funcs {
		if f.Body == nil || f.Pkg.PkgPath != pathSchema || f.File == nil || !strings.HasSuffix(p.Fset.Position(f.File.Pos()).Filename, "builder.go") {
			continue
		}
		in := info(f)
		inspectNoLit(f.Body, func(m ast.Node) bool {
			var body *ast.BlockStmt
			switch x := m.(type) {
			case *ast.RangeStmt:
				body = x.Body
			case *ast.ForStmt:
				body = x.Body
			}
			if body == nil {
				return true
			}
			// locals declared before the loop that are passed to a same-package call inside it
			passed := map[types.Object]bool{}
			inspectNoLit(body, func(z ast.Node) bool {
				if cl, ok := z.(*ast.CallExpr); ok {
					if cf := p.byObj[callee(in, cl)]; cf != nil && cf.Pkg == f.Pkg {
						for _, a := range cl.Args {
							if id, ok := unparen(a).(*ast.Ident); ok {
								if o := objOf(in, id); o != nil && isLocalVar(f.Root(), o) && o.Pos() < m.Pos() {
									if b, isBasic := o.Type().Underlying().(*types.Basic); isBasic && b.Info()&types.IsNumeric != 0 {
										passed[o] = true
									}
								}
							}
						}
					}
				}
				return true
			})
			inspectNoLit(body, func(z ast.Node) bool {
				as, ok := z.(*ast.AssignStmt)
				if !ok || len(as.Lhs) != 1 || len(as.Rhs) != 1 {
					return true
				}
				id, ok := unparen(as.Lhs[0]).(*ast.Ident)
				if !ok {
					return true
				}
				o := objOf(in, id)
				if o == nil || !passed[o] {
					return true
				}
				n++
				self := as.Tok != token.ASSIGN && as.Tok != token.DEFINE
				if !self {
					self = mentionsDeep(as.Rhs[0], func(y ast.Node) bool {
						yid, ok := y.(*ast.Ident)
						return ok && objOf(in, yid) == o
					})
				}
				c.Check(self, f, as, "loop-carried cursor "+id.Name, what, ifElse(self, "assigned from itself ("+as.Tok.String()+")", "assigned from "+exprString(as.Rhs[0])+", which does not mention "+id.Name))
				return true
			})
			return true
		})
	}
	if n == 0 {
		c.Missing("layout cursors", "no loop-carried cursor handed to a per-item layout function was found in schema/builder.go")
	}
}

func ruleR173(c *Ctx) {
	p := c.P
	what := "script bodies, conditions and documentation are text payloads; the reader already strips leading and trailing blanks, everything in between is content (indentation is significant in more than one script language). Writing back a payload that was split, re-joined or otherwise edited changes what the re-parsed model says"
	n := 0
	for _, f := range p.Funcs {
		if f.Body == nil || f.Pkg.PkgPath != pathSchema {
			continue
		}
		// the accessors themselves (methods named SetTextPayload / TextPayload) are not users
		if f.Obj != nil && strings.Contains(f.Obj.Name(), "TextPayload") {
			continue
		}
		in := info(f)
		inspectNoLit(f.Body, func(m ast.Node) bool {
			cl, ok := m.(*ast.CallExpr)
			if !ok || len(cl.Args) != 1 {
				return true
			}
			se, ok := unparen(cl.Fun).(*ast.SelectorExpr)
			if !ok || se.Sel.Name != "SetTextPayload" {
				return true
			}
			n++
			// resolve the argument through locals; collect the functions applied on the way
			var applied []string
			seen := map[types.Object]bool{}
			var walk func(e ast.Expr)
			walk = func(e ast.Expr) {
				ast.Inspect(e, func(z ast.Node) bool {
					switch x := z.(type) {
					case *ast.CallExpr:
						if fn := callee(in, x); fn != nil && fn.Pkg() != nil {
							applied = append(applied, fn.Pkg().Name()+"."+fn.Name())
						}
					case *ast.Ident:
						if o := objOf(in, x); o != nil && isLocalVar(f.Root(), o) && !seen[o] {
							seen[o] = true
							defs, _ := localDefs(in, f.Root().Body, o)
							for _, d := range defs {
								walk(d)
							}
						}
					}
					return true
				})
			}
			walk(cl.Args[0])
			var extra []string
			for _, a := range applied {
				if a != "strings.TrimSpace" && !strings.HasSuffix(a, ".TextPayload") {
					extra = append(extra, a)
				}
			}
			c.Check(len(extra) == 0, f, cl, "payload handed to SetTextPayload", what, ifElse(len(extra) == 0, fmt.Sprintf("derived through %v", applied), fmt.Sprintf("derived through %v", applied)))
			return true
		})
	}
	if n == 0 {
		c.Missing("SetTextPayload users", "no call of SetTextPayload outside the accessors was found in the schema package")
	}
}

// ---- R174 ----

func init() {
	register(&Rule{ID: "R174", Title: "a boundary listener can be armed again: the flows that wait at an activity's boundary events are not started exclusively under the activity's once-only guard (a non-interrupting event has to be caught once per event)", Min: 1, Run: ruleR174})
}

func ruleR174(c *Ctx) {
	p := c.P
	what := "the token that waits at a boundary catch event leaves it when the event fires. For a non-interrupting boundary event the activity goes on and the next event has to be caught as well — that needs a new token at the catch event. If listener flows are only ever started inside the harness's sync.Once, the second event while the activity is still active finds nobody listening"
	n := 0
	doneT := map[*types.Named]bool{}
	for _, f := range p.Funcs {
		if f.Body == nil || f.Pkg.PkgPath != pathBpmn {
			continue
		}
		r := f.Root()
		if r.Obj == nil || recvNamed(r.Obj) == nil {
			continue
		}
		T := recvNamed(r.Obj)
		st, ok := T.Underlying().(*types.Struct)
		if !ok {
			continue
		}
		// the list of listener flows: a slice-of-flows field of a type that also embeds an Activity
		var flowsField *types.Var
		for i := 0; i < st.NumFields(); i++ {
			if sl, isSl := st.Field(i).Type().Underlying().(*types.Slice); isSl {
				if n := namedOf(sl.Elem()); n != nil && n.Obj().Name() == "flow" && n.Obj().Pkg() != nil && n.Obj().Pkg().Path() == pathBpmn {
					flowsField = st.Field(i)
				}
			}
		}
		if flowsField == nil || f != r || doneT[T] {
			continue
		}
		doneT[T] = true
		// all Start calls on elements of that field, in the methods of T (closures included)
		type site struct {
			f    *FuncInfo
			at   *ast.CallExpr
			once bool
		}
		var sites []site
		for _, h := range p.Funcs {
			if h.Body == nil || h.Root().Obj == nil || recvNamed(h.Root().Obj) != T {
				continue
			}
			hin := info(h)
			inspectNoLit(h.Body, func(m ast.Node) bool {
				cl, ok := m.(*ast.CallExpr)
				if !ok {
					return true
				}
				fn := callee(hin, cl)
				if fn == nil || fn.Name() != "Start" || recvNamed(fn) == nil || recvNamed(fn).Obj().Name() != "flow" {
					return true
				}
				se, _ := unparen(cl.Fun).(*ast.SelectorExpr)
				if se == nil {
					return true
				}
				from := false
				if mentionsDeep(se.X, func(z ast.Node) bool { s2, ok := z.(*ast.SelectorExpr); return ok && fieldOf(hin, s2) == flowsField }) {
					from = true
				} else if id, isId := unparen(se.X).(*ast.Ident); isId {
					if o := objOf(hin, id); o != nil {
						defs, _ := localDefs(hin, h.Root().Body, o)
						for _, d := range defs {
							if mentionsDeep(d, func(z ast.Node) bool { s2, ok := z.(*ast.SelectorExpr); return ok && fieldOf(hin, s2) == flowsField }) {
								from = true
							}
						}
						// range variable over the field
						ast.Inspect(h.Root().Body, func(z ast.Node) bool {
							if rs, ok := z.(*ast.RangeStmt); ok && fieldOf(hin, rs.X) == flowsField {
								if vid, ok := rs.Value.(*ast.Ident); ok && objOf(hin, vid) == o {
									from = true
								}
							}
							return true
						})
					}
				}
				if !from {
					return true
				}
				once := false
				for cur := h; cur != nil && cur.Lit != nil; cur = cur.Parent {
					if pc, ok := p.Parent(cur.Lit).(*ast.CallExpr); ok && cur.Parent != nil && isSyncMethod(info(cur.Parent), pc, "Once", "Do") {
						once = true
					}
				}
				sites = append(sites, site{h, cl, once})
				return true
			})
		}
		if len(sites) == 0 {
			continue
		}
		n++
		allOnce := true
		for _, s := range sites {
			if !s.once {
				allOnce = false
			}
		}
		c.Check(!allOnce, sites[0].f, sites[0].at, "start of the boundary listener flows of "+T.Obj().Name(), what, ifElse(allOnce, fmt.Sprintf("%d start site(s), all inside sync.Once.Do: a listener is armed once per activity object", len(sites)), "a start site outside the once-only guard exists"))
	}
	if n == 0 {
		c.Missing("boundary listener starts", "no type that keeps a list of listener flows and starts them was found")
	}
}

// ---- R175 (round 8) ----

func init() {
	register(&Rule{ID: "R175", Title: "sibling lookups agree: in a type that keeps tables in pairs X / XByName, a method named …ByName reads only the ByName member of each pair (and every one whose plain member the …ById twin reads); a …ById method reads only the plain members", Min: 2, Run: ruleR175})
}

func ruleR175(c *Ctx) {
	p := c.P
	what := "ids and names are both strings, so indexing the by-id table with a name compiles; a data object reference that is looked up by name in the by-id table is never found, and the data output of a task is stored in a stray container instead of the object later conditions and tasks read"
	n := 0
	for _, f := range p.Funcs {
		if f.Body == nil || f.Obj == nil || f.Pkg.PkgPath != pathData || f.Parent != nil {
			continue
		}
		T := recvNamed(f.Obj)
		if T == nil {
			continue
		}
		st, ok := T.Underlying().(*types.Struct)
		if !ok {
			continue
		}
		byName := map[*types.Var]*types.Var{} // plain -> ByName
		plainOf := map[*types.Var]*types.Var{}
		fields := map[string]*types.Var{}
		for i := 0; i < st.NumFields(); i++ {
			fields[st.Field(i).Name()] = st.Field(i)
		}
		for nm, fv := range fields {
			if bn := fields[nm+"ByName"]; bn != nil {
				byName[fv] = bn
				plainOf[bn] = fv
			}
		}
		if len(byName) == 0 {
			continue
		}
		name := f.Obj.Name()
		isByName, isById := strings.HasSuffix(name, "ByName"), strings.HasSuffix(name, "ById")
		if !isByName && !isById {
			continue
		}
		reads := func(h *FuncInfo) map[*types.Var]bool {
			out := map[*types.Var]bool{}
			hin := info(h)
			ast.Inspect(h.Body, func(m ast.Node) bool {
				if se, ok := m.(*ast.SelectorExpr); ok {
					if fv := fieldOf(hin, se); fv != nil {
						out[fv] = true
					}
				}
				return true
			})
			return out
		}
		mine := reads(f)
		n++
		var wrong, missing []string
		for fv := range mine {
			if isByName && byName[fv] != nil {
				wrong = append(wrong, fv.Name())
			}
			if isById && plainOf[fv] != nil {
				wrong = append(wrong, fv.Name())
			}
		}
		// agreement with the twin
		twinName := strings.TrimSuffix(strings.TrimSuffix(name, "ByName"), "ById")
		if isByName {
			twinName += "ById"
		} else {
			twinName += "ByName"
		}
		for _, h := range p.Funcs {
			if h.Obj != nil && h.Body != nil && h.Parent == nil && h.Obj.Name() == twinName && recvNamed(h.Obj) == T {
				for fv := range reads(h) {
					var want *types.Var
					if isByName {
						want = byName[fv]
					} else {
						want = plainOf[fv]
					}
					if want != nil && !mine[want] {
						missing = append(missing, want.Name())
					}
				}
			}
		}
		sort.Strings(wrong)
		sort.Strings(missing)
		c.Check(len(wrong) == 0 && len(missing) == 0, f, f.Decl, f.QName()+" reads its own side of the table pairs", what, ifElse(len(wrong) == 0 && len(missing) == 0, "reads only its own side, and every table its twin reads", fmt.Sprintf("reads the other side's %v; does not read %v although %s reads the twin table", wrong, missing, twinName)))
	}
	if n == 0 {
		c.Missing("paired tables", "no …ById / …ByName method on a type with X / XByName field pairs was found in pkg/data")
	}
}

// ---- R176 (round 8, states F15's repaired shape) ----

func init() {
	register(&Rule{ID: "R176", Title: "an event relay is plugged in: every type that both consumes events and lets consumers register with it (a scope: process, sub-process, activity harness) is itself registered as a consumer of some event source", Min: 3, Run: ruleR176})
}

func ruleR176(c *Ctx) {
	p := c.P
	what := "the nodes of a scope register with the scope object and the scope forwards what it is handed (ConsumeEvent -> ForwardEvent). A scope that never registers with the source it is part of is never handed anything: the catch events inside it wait for ever for events the instance was given while they were listening"
	n := 0
	seen := map[*types.Named]bool{}
	for _, f := range p.Funcs {
		if f.Obj == nil || f.Pkg.PkgPath != pathBpmn || f.Obj.Name() != "RegisterEventConsumer" {
			continue
		}
		T := recvNamed(f.Obj)
		if T == nil || seen[T] {
			continue
		}
		ms := types.NewMethodSet(types.NewPointer(T))
		consumes := false
		for i := 0; i < ms.Len(); i++ {
			if ms.At(i).Obj().Name() == "ConsumeEvent" {
				consumes = true
			}
		}
		if !consumes {
			continue
		}
		seen[T] = true
		n++
		var site ast.Node
		var siteF *FuncInfo
		for _, h := range p.Funcs {
			if h.Body == nil || h.Pkg.PkgPath != pathBpmn || site != nil {
				continue
			}
			hin := info(h)
			inspectNoLit(h.Body, func(m ast.Node) bool {
				cl, ok := m.(*ast.CallExpr)
				if !ok || len(cl.Args) != 1 || site != nil {
					return true
				}
				se, ok := unparen(cl.Fun).(*ast.SelectorExpr)
				if !ok || se.Sel.Name != "RegisterEventConsumer" {
					return true
				}
				if namedOf(hin.TypeOf(cl.Args[0])) == T {
					// not with itself
					if namedOf(hin.TypeOf(se.X)) != T {
						site, siteF = cl, h
					}
				}
				return true
			})
		}
		wit := "never registered with an event source"
		if site != nil {
			wit = "registered at " + c.pos(site) + " (" + siteF.QName() + ")"
		}
		// ... and whatever the scope contains: a scope that holds no catch event itself may hold a scope that does
		cond := ""
		if site != nil {
			sin := info(siteF)
			for _, pc := range polarConds(p, site) {
				if isErrTest(sin, pc.cond) {
					continue
				}
				cond = exprString(pc.cond)
			}
			if cond != "" {
				wit = "registered at " + c.pos(site) + " only if " + cond + " (a scope nested inside registers with this one and is cut off with it)"
			}
		}
		c.Check(site != nil && cond == "", f, f.Decl, "event relay "+T.Obj().Name()+" is a consumer of its enclosing scope", what, wit)
	}
	if n == 0 {
		c.Missing("event relays", "no type with both ConsumeEvent and RegisterEventConsumer was found")
	}
}

// ---- R177, R178 (round 8) ----

func init() {
	register(&Rule{ID: "R177", Title: "sibling mailboxes: the mailbox of every flow node is made with room for at least two messages per incoming flow plus one (len(incoming)*k+c, k >= 2, c >= 1), as all its siblings are", Min: 10, Run: ruleR177})
	register(&Rule{ID: "R178", Title: "every token is counted where completion is read: the wait group handed to newFlow is a flowWaitGroup field of the wiring, never a wait group made for the occasion", Min: 4, Run: ruleR178})
}

func ruleR177(c *Ctx) {
	p := c.P
	what := "a token posts its request into the node's mailbox with a plain send (NextAction). While the node's loop is not draining — it is being started, it is busy, or it has just left on cancellation — the posts of all tokens heading for the node must fit, or a token blocks in a send no cancellation can interrupt: its goroutine and its sender handle leak and the tracers never terminate"
	n := 0
	for _, f := range p.Funcs {
		if f.Body == nil || f.Pkg.PkgPath != pathBpmn {
			continue
		}
		in := info(f)
		inspectNoLit(f.Body, func(m ast.Node) bool {
			kv, ok := m.(*ast.KeyValueExpr)
			if !ok {
				return true
			}
			cl, ok := unparen(kv.Value).(*ast.CallExpr)
			if !ok || !isBuiltin(in, cl, "make") || len(cl.Args) != 2 {
				return true
			}
			if !isMailboxChan(in.TypeOf(cl.Args[0])) {
				return true
			}
			// only flow nodes: the literal's type has a NextAction method
			lit, _ := p.Parent(kv).(*ast.CompositeLit)
			if lit == nil {
				return true
			}
			T := namedOf(in.TypeOf(lit))
			if T == nil {
				return true
			}
			isNode := false
			ms := types.NewMethodSet(types.NewPointer(T))
			for i := 0; i < ms.Len(); i++ {
				if ms.At(i).Obj().Name() == "NextAction" {
					isNode = true
				}
			}
			if !isNode {
				return true
			}
			n++
			// shape len(<incoming>)*k + c (possibly held in a local first)
			good := false
			capExpr := unparen(cl.Args[1])
			if id, isId := capExpr.(*ast.Ident); isId {
				if o := objOf(in, id); o != nil && isLocalVar(f.Root(), o) {
					if defs, _ := localDefs(in, f.Root().Body, o); len(defs) == 1 {
						capExpr = unparen(defs[0])
					}
				}
			}
			if add, ok := capExpr.(*ast.BinaryExpr); ok && add.Op == token.ADD {
				cst := func(e ast.Expr) (int64, bool) {
					if tv, has := in.Types[e]; has && tv.Value != nil {
						var v int64
						if _, err := fmt.Sscan(tv.Value.String(), &v); err == nil {
							return v, true
						}
					}
					return 0, false
				}
				mulSide, cSide := add.X, add.Y
				if _, isC := cst(add.X); isC {
					mulSide, cSide = add.Y, add.X
				}
				cv, cok := cst(cSide)
				if mul, ok := unparen(mulSide).(*ast.BinaryExpr); ok && mul.Op == token.MUL && cok && cv >= 1 {
					lenSide, kSide := mul.X, mul.Y
					if _, isC := cst(mul.X); isC {
						lenSide, kSide = mul.Y, mul.X
					}
					kv2, kok := cst(kSide)
					if lc, ok := unparen(lenSide).(*ast.CallExpr); ok && isBuiltin(in, lc, "len") && len(lc.Args) == 1 && kok && kv2 >= 2 {
						if fv := fieldOf(in, lc.Args[0]); fv != nil && strings.Contains(strings.ToLower(fv.Name()), "incoming") {
							good = true
						}
					}
				}
			}
			c.Check(good, f, cl, "mailbox of "+T.Obj().Name(), what, "capacity "+exprString(cl.Args[1]))
			return true
		})
	}
	if n == 0 {
		c.Missing("node mailboxes", "no mailbox made in the literal of a flow node was found")
	}
}

func ruleR178(c *Ctx) {
	p := c.P
	what := "the completion monitor reports CeaseFlowTrace when the wait group of the scope's wiring drains. A flow that is counted on a wait group of its own — 'a boundary listener is not a token' — is invisible to it once its event has fired and it IS a token: the instance reports completion while that token, and everything it forks, is still running"
	n := 0
	for _, f := range p.Funcs {
		if f.Body == nil || f.Pkg.PkgPath != pathBpmn {
			continue
		}
		in := info(f)
		inspectNoLit(f.Body, func(m ast.Node) bool {
			cl, ok := m.(*ast.CallExpr)
			if !ok {
				return true
			}
			fn := callee(in, cl)
			if fn == nil || fn.Name() != "newFlow" || fn.Pkg() == nil || fn.Pkg().Path() != pathBpmn {
				return true
			}
			sig := fn.Type().(*types.Signature)
			for i := 0; i < sig.Params().Len() && i < len(cl.Args); i++ {
				pt, isPtr := sig.Params().At(i).Type().(*types.Pointer)
				if !isPtr || !isNamed(pt.Elem(), "sync", "WaitGroup") {
					continue
				}
				n++
				arg := unparen(cl.Args[i])
				if id, isId := arg.(*ast.Ident); isId {
					if o := objOf(in, id); o != nil && isLocalVar(f.Root(), o) {
						if defs, _ := localDefs(in, f.Root().Body, o); len(defs) == 1 {
							arg = unparen(defs[0])
						}
					}
				}
				fv := fieldOf(in, arg)
				ok := fv != nil && fv.Name() == "flowWaitGroup"
				c.Check(ok, f, cl, "wait group of a new flow", what, ifElse(ok, "the flow is counted on "+exprString(cl.Args[i]), exprString(cl.Args[i])+" is not a flowWaitGroup field of the wiring"))
			}
			return true
		})
	}
	if n == 0 {
		c.Missing("newFlow calls", "no call of newFlow with a wait group argument was found")
	}
}

// ---- R179 (round 8) ----

func init() {
	register(&Rule{ID: "R179", Title: "a latch stays set: a boolean that a loop sets under `if !flag` (or with flag || ...) and that is read after the loop is not plainly overwritten in each iteration", Min: 1, Run: ruleR179})
}

func ruleR179(c *Ctx) {
	p := c.P
	what := "`reachedNode` answers 'did ANY of the flows of this trace enter my gateway?'. Overwritten in every iteration it answers 'did the LAST one?': after a trace whose last flow leads elsewhere the tracker keeps its lock and swallows its notifications, and the join never recomputes what it waits for"
	n := 0
	for _, f := range p.Funcs {
		if f.Body == nil || f.Pkg.PkgPath != pathBpmn {
			continue
		}
		in := info(f)
		inspectNoLit(f.Body, func(m ast.Node) bool {
			var body *ast.BlockStmt
			switch x := m.(type) {
			case *ast.RangeStmt:
				body = x.Body
			case *ast.ForStmt:
				body = x.Body
			}
			if body == nil {
				return true
			}
			inspectNoLit(body, func(z ast.Node) bool {
				as, ok := z.(*ast.AssignStmt)
				if !ok || as.Tok != token.ASSIGN || len(as.Lhs) != 1 || len(as.Rhs) != 1 {
					return true
				}
				id, ok := unparen(as.Lhs[0]).(*ast.Ident)
				if !ok {
					return true
				}
				o, _ := objOf(in, id).(*types.Var)
				if o == nil || o.IsField() || !(o.Pos() < m.Pos()) {
					return true
				}
				if b, isB := o.Type().Underlying().(*types.Basic); !isB || b.Kind() != types.Bool {
					return true
				}
				// only flags whose name or use says "any": read after the loop (in a condition or returned)
				readAfter := false
				ast.Inspect(f.Root().Body, func(y ast.Node) bool {
					if yid, ok := y.(*ast.Ident); ok && yid.Pos() > m.End() && in.Uses[yid] == types.Object(o) {
						readAfter = true
					}
					return true
				})
				if !readAfter {
					return true
				}
				// a constant (flag = true / false) is a plain set or reset
				if tv, has := in.Types[as.Rhs[0]]; has && tv.Value != nil {
					return true
				}
				n++
				ok2, how := false, ""
				if mentionsDeep(as.Rhs[0], func(y ast.Node) bool { yid, ok := y.(*ast.Ident); return ok && in.Uses[yid] == types.Object(o) }) {
					ok2, how = true, "accumulates ("+exprString(as.Rhs[0])+")"
				}
				for _, pc := range polarConds(p, as) {
					e, pos := unparen(pc.cond), pc.positive
					for {
						if u, isNot := e.(*ast.UnaryExpr); isNot && u.Op == token.NOT {
							e, pos = unparen(u.X), !pos
							continue
						}
						break
					}
					if cid, isId := e.(*ast.Ident); isId && in.Uses[cid] == types.Object(o) && !pos && regionOf(body).Contains(pc.cond) {
						ok2, how = true, "assigned only while the flag is still false"
					}
				}
				// the loop is left as soon as the flag is set
				if !ok2 {
					leaves := false
					inspectNoLit(body, func(y ast.Node) bool {
						if ifs, isIf := y.(*ast.IfStmt); isIf && ifs.Pos() > as.End() {
							if cid, isId := unparen(ifs.Cond).(*ast.Ident); isId && in.Uses[cid] == types.Object(o) && leavesBlock(ifs.Body) {
								leaves = true
							}
						}
						return true
					})
					if leaves {
						ok2, how = true, "the loop is left once the flag is set"
					}
				}
				if !ok2 {
					how = "overwritten with " + exprString(as.Rhs[0]) + " in every iteration; read after the loop"
				}
				c.Check(ok2, f, as, "latch "+id.Name, what, how)
				return true
			})
			return true
		})
	}
	if n == 0 {
		c.Missing("latches", "no boolean that a loop assigns and the code after the loop reads was found")
	}
}

// ---- R180, R181 (round 8) ----

func init() {
	register(&Rule{ID: "R180", Title: "a node's loop does not wait for an answer: the mailbox loop of a node receives from a token's or an activity's reply channel only inside a goroutine it launches for that request, never in the loop itself", Min: 1, Run: ruleR180})
	register(&Rule{ID: "R181", Title: "no hand-made XML: the expression engines build the variable document with an encoder, never by concatenating markup literals with values (text would go in unescaped)", Min: 0, Run: ruleR181})
}

func ruleR180(c *Ctx) {
	p := c.P
	what := "several tokens can be inside one activity at the same time; each gets its own request (TaskTrace) and is answered independently. If the harness's loop itself waits for the activity's reply, the second token's request sits in the mailbox until the first one was answered: an enabled activity instance is not requested, and a driver that answers the later request first waits for ever"
	n := 0
	for _, f := range p.Funcs {
		if f.Body == nil || f.Pkg.PkgPath != pathBpmn || f.Obj == nil || f.Obj.Name() != "run" {
			continue
		}
		_ = info(f)
		seenRelay := map[*FuncInfo]bool{}
		// receives on reply channels in the whole declared function, with the literal nesting they occur in
		var visit func(h *FuncInfo, launched bool)
		visit = func(h *FuncInfo, launched bool) {
			inspectNoLit(h.Body, func(m ast.Node) bool {
				var ch ast.Expr
				switch x := m.(type) {
				case *ast.UnaryExpr:
					if x.Op == token.ARROW {
						ch = x.X
					}
				}
				if ch == nil || !isReplyChan(info(h).TypeOf(ch)) {
					return true
				}
				n++
				c.Check(launched, h, m, "receive of an answer "+exprString(ch)+" in "+f.QName(), what, ifElse(launched, "inside a goroutine launched for the request", "in the mailbox loop itself: the loop serves nothing else until the answer arrives"))
				return true
			})
			for _, l := range h.Lits {
				isGo := false
				if cl, ok := p.Parent(l.Lit).(*ast.CallExpr); ok {
					if _, ok := p.Parent(cl).(*ast.GoStmt); ok {
						isGo = true
					}
				}
				visit(l, launched || isGo)
			}
			// a relay that was given a name: `go node.relay(...)`
			hin := info(h)
			inspectNoLit(h.Body, func(m ast.Node) bool {
				if gs, ok := m.(*ast.GoStmt); ok {
					if cf := p.byObj[callee(hin, gs.Call)]; cf != nil && cf.Pkg == f.Pkg && cf.Body != nil && !seenRelay[cf] {
						seenRelay[cf] = true
						visit(cf, true)
					}
				}
				return true
			})
		}
		visit(f, false)
	}
	if n == 0 {
		c.Missing("answer relays", "no receive from a reply channel in a node's run method was found")
	}
}

func ruleR181(c *Ctx) {
	p := c.P
	what := "a variable whose text contains & or < makes a hand-concatenated document malformed: every XPath condition of the instance then fails to evaluate, whether or not it mentions that variable, and the gateway takes the default flow (or none)"
	for _, f := range p.Funcs {
		if f.Body == nil || !strings.HasPrefix(f.Pkg.PkgPath, pathExpr) {
			continue
		}
		in := info(f)
		isMarkup := func(e ast.Expr) bool {
			tv, ok := in.Types[e]
			if !ok || tv.Value == nil {
				return false
			}
			s := tv.Value.String()
			return strings.HasPrefix(s, `"<`) || strings.HasSuffix(s, `>"`)
		}
		inspectNoLit(f.Body, func(m ast.Node) bool {
			switch x := m.(type) {
			case *ast.BinaryExpr:
				if x.Op != token.ADD {
					return true
				}
				if par, ok := p.Parent(x).(*ast.BinaryExpr); ok && par.Op == token.ADD {
					// reported once, at the innermost concatenation that pairs markup with a value
					if isMarkup(x.X) == isMarkup(x.Y) {
						return true
					}
				}
				l, r := isMarkup(x.X), isMarkup(x.Y)
				if l != r { // markup + something that is not a constant markup
					other := x.Y
					if r {
						other = x.X
					}
					if tv, ok := in.Types[other]; ok && tv.Value == nil {
						c.Bad(f, x, "markup concatenated with a value: "+exprString(x), what, exprString(other)+" goes into the document without escaping")
					}
				}
			}
			return true
		})
	}
}

// ---- R182, R183, R184 (round 8) ----

func init() {
	register(&Rule{ID: "R182", Title: "a list indexed by chain numbers is reordered the way the satisfier reorders its chains: where an element is removed at the index Satisfy returned, the last element is moved into the hole (never an order-preserving delete)", Min: 1, Run: ruleR182})
	register(&Rule{ID: "R183", Title: "a forwarding goroutine stays: the goroutine that hands timer firings to the event ingress leaves its loop only on a done-source or when its channel is closed, not because a consumer reported an error", Min: 1, Run: ruleR183})
	register(&Rule{ID: "R184", Title: "search with the order you sorted by: a binary search over a slice looks at the same key its Less compares", Min: 0, Run: ruleR184})
}

func ruleR182(c *Ctx) {
	p := c.P
	what := "Satisfy documents how chains are renumbered when one completes: the last chain is moved to the freed index. A buffer that is kept per chain has to be renumbered the same way; an order-preserving delete shifts every later buffer down by one, and from then on events are buffered under, and replayed from, the wrong partial set"
	n := 0
	for _, f := range p.Funcs {
		if f.Body == nil || !isTargetPkg(p, f.Pkg.PkgPath) {
			continue
		}
		in := info(f)
		// indices returned by Satisfy
		chainVars := map[types.Object]bool{}
		inspectNoLit(f.Body, func(m ast.Node) bool {
			as, ok := m.(*ast.AssignStmt)
			if !ok || len(as.Rhs) != 1 || len(as.Lhs) != 2 {
				return true
			}
			cl, ok := unparen(as.Rhs[0]).(*ast.CallExpr)
			if !ok {
				return true
			}
			if fn := callee(in, cl); fn != nil && fn.Name() == "Satisfy" && fn.Pkg() != nil && fn.Pkg().Path() == pathLogic {
				if id, ok := as.Lhs[1].(*ast.Ident); ok {
					chainVars[objOf(in, id)] = true
				}
			}
			return true
		})
		// a helper that is handed the index: its parameter is a chain number as well
		if f.Obj != nil {
			sig := f.Obj.Type().(*types.Signature)
			for _, h := range p.Funcs {
				if h.Body == nil || h.Pkg != f.Pkg {
					continue
				}
				hin := info(h)
				hChains := map[types.Object]bool{}
				inspectNoLit(h.Body, func(m ast.Node) bool {
					if as, ok := m.(*ast.AssignStmt); ok && len(as.Rhs) == 1 && len(as.Lhs) == 2 {
						if cl, ok := unparen(as.Rhs[0]).(*ast.CallExpr); ok {
							if fn := callee(hin, cl); fn != nil && fn.Name() == "Satisfy" && fn.Pkg() != nil && fn.Pkg().Path() == pathLogic {
								if id, ok := as.Lhs[1].(*ast.Ident); ok {
									hChains[objOf(hin, id)] = true
								}
							}
						}
					}
					return true
				})
				if len(hChains) == 0 {
					continue
				}
				inspectNoLit(h.Body, func(m ast.Node) bool {
					if cl, ok := m.(*ast.CallExpr); ok && callee(hin, cl) == f.Obj {
						for i, a := range cl.Args {
							if id, ok := unparen(a).(*ast.Ident); ok && hChains[objOf(hin, id)] && i < sig.Params().Len() {
								chainVars[sig.Params().At(i)] = true
							}
						}
					}
					return true
				})
			}
		}
		if len(chainVars) == 0 {
			continue
		}
		isChain := func(e ast.Expr) bool {
			id, ok := unparen(e).(*ast.Ident)
			return ok && chainVars[objOf(in, id)]
		}
		inspectNoLit(f.Body, func(m ast.Node) bool {
			as, ok := m.(*ast.AssignStmt)
			if !ok || len(as.Lhs) != 1 || len(as.Rhs) != 1 {
				return true
			}
			fv := fieldOf(in, as.Lhs[0])
			// s.list[chain] = s.list[len-1]  (swap form, first statement)
			if ix, isIx := unparen(as.Lhs[0]).(*ast.IndexExpr); isIx && isChain(ix.Index) {
				if rx, isRx := unparen(as.Rhs[0]).(*ast.IndexExpr); isRx && sameRef(in, rx.X, ix.X) {
					n++
					c.Ok(f, as, "removal at the index Satisfy returned from "+exprString(ix.X), what, "the last element is moved into the hole", true)
				}
				return true
			}
			if fv == nil {
				return true
			}
			// s.list = append(s.list[:chain], s.list[chain+1:]...)
			cl, isCall := unparen(as.Rhs[0]).(*ast.CallExpr)
			if !isCall || !isBuiltin(in, cl, "append") || len(cl.Args) != 2 || !cl.Ellipsis.IsValid() {
				return true
			}
			s1, ok1 := unparen(cl.Args[0]).(*ast.SliceExpr)
			if !ok1 || s1.High == nil || !isChain(s1.High) {
				return true
			}
			n++
			c.Bad(f, as, "removal at the index Satisfy returned from "+exprString(as.Lhs[0]), what, "order-preserving delete "+exprString(as.Rhs[0]))
			return true
		})
	}
	if n == 0 {
		c.Missing("per-chain buffers", "no list that is reduced at the index Satisfy returned was found")
	}
}

func ruleR183(c *Ctx) {
	p := c.P
	what := "one goroutine per timer definition forwards every firing to the event ingress. On a shared bus the forward reports an error as soon as any one subscriber does, although the process took the event: a forwarder that gives up on that error strands the timer goroutine in its next send, and no later firing of the cycle reaches anybody"
	n := 0
	for _, f := range p.Funcs {
		if f.Body == nil || f.Pkg.PkgPath != pathTimer {
			continue
		}
		// goroutine roots that call ConsumeEvent in a loop: a literal launched with go, or a named function that
		// some go statement of the package launches
		if f.Lit != nil {
			if cl, ok := p.Parent(f.Lit).(*ast.CallExpr); !ok {
				continue
			} else if _, isGo := p.Parent(cl).(*ast.GoStmt); !isGo {
				continue
			}
		} else {
			launched := false
			for _, h := range p.Funcs {
				if h.Body == nil || h.Pkg != f.Pkg || f.Obj == nil {
					continue
				}
				hin := info(h)
				inspectNoLit(h.Body, func(m ast.Node) bool {
					if gs, ok := m.(*ast.GoStmt); ok && callee(hin, gs.Call) == f.Obj {
						launched = true
					}
					return true
				})
			}
			if !launched {
				continue
			}
		}
		in := info(f)
		inspectNoLit(f.Body, func(m ast.Node) bool {
			var body *ast.BlockStmt
			switch x := m.(type) {
			case *ast.ForStmt:
				body = x.Body
			case *ast.RangeStmt:
				body = x.Body
			}
			if body == nil {
				return true
			}
			forwards := false
			inspectNoLit(body, func(z ast.Node) bool {
				if cl, ok := z.(*ast.CallExpr); ok {
					if fn := callee(in, cl); fn != nil && fn.Name() == "ConsumeEvent" {
						forwards = true
					}
				}
				return true
			})
			if !forwards {
				return true
			}
			n++
			// every return / break out of the loop sits in a done-source clause or in the `!ok` branch of the receive
			var bad ast.Node
			inspectNoLit(body, func(z ast.Node) bool {
				switch x := z.(type) {
				case *ast.ReturnStmt, *ast.BranchStmt:
					if bs, isBr := x.(*ast.BranchStmt); isBr && (bs.Tok != token.BREAK || bs.Label == nil) && bs.Tok != token.GOTO {
						if bs.Tok != token.BREAK {
							return true
						}
						// an unlabelled break leaves a select or switch, not the loop
						return true
					}
					ok := false
					for cur := p.Parent(z); cur != nil && cur != ast.Node(body); cur = p.Parent(cur) {
						if cc, isCC := cur.(*ast.CommClause); isCC {
							if cc.Comm != nil {
								var rx ast.Expr
								switch cm := cc.Comm.(type) {
								case *ast.ExprStmt:
									if u, isU := cm.X.(*ast.UnaryExpr); isU && u.Op == token.ARROW {
										rx = u.X
									}
								}
								if rx != nil && isCtxDoneCall(in, rx) {
									ok = true
								}
							}
						}
						if ifs, isIf := cur.(*ast.IfStmt); isIf {
							// `if !ok { return }` after `v, ok := <-ch`
							if u, isU := unparen(ifs.Cond).(*ast.UnaryExpr); isU && u.Op == token.NOT {
								if id, isId := unparen(u.X).(*ast.Ident); isId {
									if o := objOf(in, id); o != nil && o.Type() == types.Typ[types.Bool] {
										ok = true
									}
								}
							}
						}
					}
					if !ok && bad == nil {
						bad = z
					}
				}
				return true
			})
			c.Check(bad == nil, f, m, "loop of the goroutine that forwards timer firings", what, ifElse(bad == nil, "left only on a done-source or a closed channel", "left at "+c.pos(bad)+" for another reason"))
			return true
		})
	}
	if n == 0 {
		c.Missing("timer forwarders", "no goroutine in pkg/timer that forwards to ConsumeEvent in a loop was found")
	}
}

func ruleR184(c *Ctx) {
	p := c.P
	what := "sort.Search is only meaningful on a slice that is ordered by the predicate's key. The mock clock sorts its wake-ups by UnixNano (which wraps for instants after 2262) — a search by After/Before over that order puts a far-future wake-up among the due ones, and it fires centuries early"
	for _, f := range p.Funcs {
		if f.Body == nil || !isTargetPkg(p, f.Pkg.PkgPath) {
			continue
		}
		in := info(f)
		inspectNoLit(f.Body, func(m ast.Node) bool {
			cl, ok := m.(*ast.CallExpr)
			if !ok || len(cl.Args) != 2 {
				return true
			}
			fn := callee(in, cl)
			if fn == nil || fn.Pkg() == nil || fn.Pkg().Path() != "sort" || fn.Name() != "Search" {
				return true
			}
			lit, ok := unparen(cl.Args[1]).(*ast.FuncLit)
			if !ok {
				return true
			}
			// the slice the predicate indexes, and the methods it calls on the element
			var sliceT *types.Named
			predKeys := map[string]bool{}
			ast.Inspect(lit.Body, func(z ast.Node) bool {
				if c2, ok := z.(*ast.CallExpr); ok {
					if se, ok := unparen(c2.Fun).(*ast.SelectorExpr); ok {
						if ix, ok := unparen(se.X).(*ast.IndexExpr); ok {
							if nt := namedOf(in.TypeOf(ix.X)); nt != nil {
								sliceT = nt
							}
							predKeys[se.Sel.Name] = true
						}
					}
				}
				return true
			})
			if sliceT == nil {
				return true
			}
			var less *FuncInfo
			for _, h := range p.Funcs {
				if h.Obj != nil && h.Obj.Name() == "Less" && recvNamed(h.Obj) == sliceT && h.Body != nil {
					less = h
				}
			}
			if less == nil {
				return true
			}
			lessKeys := map[string]bool{}
			lin := info(less)
			ast.Inspect(less.Body, func(z ast.Node) bool {
				if c2, ok := z.(*ast.CallExpr); ok {
					if se, ok := unparen(c2.Fun).(*ast.SelectorExpr); ok {
						if mentionsDeep(se.X, func(y ast.Node) bool { _, isIx := y.(*ast.IndexExpr); return isIx }) {
							lessKeys[se.Sel.Name] = true
						}
					}
				}
				_ = lin
				return true
			})
			same := len(lessKeys) > 0
			for k := range predKeys {
				if !lessKeys[k] {
					same = false
				}
			}
			c.Check(same, f, cl, "binary search over "+sliceT.Obj().Name(), what, fmt.Sprintf("predicate looks at %v, %s.Less compares %v", sortedKeys(predKeys), sliceT.Obj().Name(), sortedKeys(lessKeys)))
			return true
		})
	}
}

// ---- R185, R186 (round 8) ----

func init() {
	register(&Rule{ID: "R185", Title: "namespace declarations do not depend on the content: every xmlns attribute the writer adds to the root element is added whenever the root element is written — controlled by the element's type only", Min: 5, Run: ruleR185})
	register(&Rule{ID: "R186", Title: "an event without an operation does not match a definition that names one: the message matcher returns false on a path controlled by both facts", Min: 1, Run: ruleR186})
}

func ruleR185(c *Ctx) {
	p := c.P
	what := "a prefix that is used anywhere below the root has to be declared on it. Declaring the vendor namespace only 'when the model uses the extensions' needs a complete list of the places the prefix can occur — the first one that is forgotten (a data object body, an item) makes the exported document unparsable"
	n := 0
	for _, f := range p.Funcs {
		if f.Body == nil || f.Pkg.PkgPath != pathSchema {
			continue
		}
		in := info(f)
		inspectNoLit(f.Body, func(m ast.Node) bool {
			lit, ok := m.(*ast.CompositeLit)
			if !ok || !isNamed(in.TypeOf(lit), "encoding/xml", "Attr") {
				return true
			}
			// Name: xml.Name{Local: "xmlns:..."}
			isNS := false
			ast.Inspect(lit, func(z ast.Node) bool {
				if kv, ok := z.(*ast.KeyValueExpr); ok {
					if id, ok := kv.Key.(*ast.Ident); ok && id.Name == "Local" {
						if s, ok := constString(in, kv.Value); ok && strings.HasPrefix(s, "xmlns") {
							isNS = true
						}
					}
				}
				return true
			})
			if !isNS {
				return true
			}
			n++
			var extra []string
			for _, pc := range polarConds(p, lit) {
				e := unparen(pc.cond)
				if id, isId := e.(*ast.Ident); isId {
					if o := objOf(in, id); o != nil && o.Type() == types.Typ[types.Bool] {
						// the ok of a type assertion
						continue
					}
				}
				extra = append(extra, exprString(pc.cond))
			}
			c.Check(len(extra) == 0, f, lit, "declaration "+exprString(lit), what, ifElse(len(extra) == 0, "added whenever the root element is written", fmt.Sprintf("added only if %v", extra)))
			return true
		})
	}
	if n == 0 {
		c.Missing("namespace declarations", "no xmlns attribute literal was found in the schema package")
	}
}

func ruleR186(c *Ctx) {
	p := c.P
	what := "a message event that names no operation is a different message from one bound to an operation; matching it against an operation-bound definition lets a multiple catch event fire on the wrong message and credits a parallel-multiple one with a definition it never saw"
	n := 0
	for _, f := range p.Funcs {
		if f.Body == nil || f.Obj == nil || f.Pkg.PkgPath != pathEvent || f.Obj.Name() != "MatchesEventInstance" {
			continue
		}
		rn := recvNamed(f.Obj)
		if rn == nil {
			continue
		}
		st, ok := rn.Underlying().(*types.Struct)
		if !ok {
			continue
		}
		var opField *types.Var
		for i := 0; i < st.NumFields(); i++ {
			if _, isPtr := st.Field(i).Type().(*types.Pointer); isPtr && strings.Contains(strings.ToLower(st.Field(i).Name()), "operation") {
				opField = st.Field(i)
			}
		}
		if opField == nil {
			continue
		}
		in := info(f)
		n++
		// the bool locals that come from OperationRef()
		present := map[types.Object]bool{}
		inspectNoLit(f.Body, func(m ast.Node) bool {
			as, ok := m.(*ast.AssignStmt)
			if !ok || len(as.Rhs) != 1 || len(as.Lhs) != 2 {
				return true
			}
			if cl, ok := unparen(as.Rhs[0]).(*ast.CallExpr); ok {
				if fn := callee(in, cl); fn != nil && fn.Name() == "OperationRef" {
					if id, ok := as.Lhs[1].(*ast.Ident); ok {
						present[objOf(in, id)] = true
					}
				}
			}
			return true
		})
		found := false
		inspectNoLit(f.Body, func(m ast.Node) bool {
			rs, ok := m.(*ast.ReturnStmt)
			if !ok || len(rs.Results) != 1 {
				return true
			}
			tv, has := in.Types[rs.Results[0]]
			negPresent := false
			if u, isNot := unparen(rs.Results[0]).(*ast.UnaryExpr); isNot && u.Op == token.NOT {
				if id, isId := unparen(u.X).(*ast.Ident); isId && present[objOf(in, id)] {
					// `return !present`: false exactly when the definition names an operation
					negPresent = true
				}
			}
			if !negPresent && (!has || tv.Value == nil || tv.Value.String() != "false") {
				return true
			}
			noOp, hasDef := false, negPresent
			var visit func(e ast.Expr, pos bool)
			visit = func(e ast.Expr, pos bool) {
				e = unparen(e)
				switch x := e.(type) {
				case *ast.UnaryExpr:
					if x.Op == token.NOT {
						visit(x.X, !pos)
					}
				case *ast.BinaryExpr:
					if x.Op == token.LAND && pos {
						visit(x.X, pos)
						visit(x.Y, pos)
						return
					}
					if x.Op == token.LOR && !pos {
						visit(x.X, pos)
						visit(x.Y, pos)
						return
					}
					if x.Op == token.EQL || x.Op == token.NEQ {
						isNil := func(y ast.Expr) bool { t, ok := in.Types[y]; return ok && t.IsNil() }
						var other ast.Expr
						if isNil(x.Y) {
							other = x.X
						} else if isNil(x.X) {
							other = x.Y
						}
						if other != nil && fieldOf(in, other) == opField {
							if (x.Op == token.EQL) == pos {
								noOp = true
							}
						}
					}
				case *ast.Ident:
					if present[objOf(in, x)] && pos {
						hasDef = true
					}
				}
			}
			for _, pc := range polarConds(p, rs) {
				visit(pc.cond, pc.positive)
			}
			if noOp && hasDef {
				found = true
			}
			return true
		})
		c.Check(found, f, f.Decl, rn.Obj().Name()+": no operation on the event, operation on the definition", what, ifElse(found, "a `return false` is controlled by "+opField.Name()+" == nil and by the definition's OperationRef being present", "no `return false` is controlled by both "+opField.Name()+" == nil and the presence of the definition's OperationRef"))
	}
	if n == 0 {
		c.Missing("message matcher", "no MatchesEventInstance on a type with an optional operation reference was found")
	}
}

// isErrTest: a condition that only tests error values against nil (err != nil, err == nil, a && of such).
func isErrTest(in *types.Info, e ast.Expr) bool {
	switch x := unparen(e).(type) {
	case *ast.BinaryExpr:
		if x.Op == token.LAND || x.Op == token.LOR {
			return isErrTest(in, x.X) && isErrTest(in, x.Y)
		}
		if x.Op != token.EQL && x.Op != token.NEQ {
			return false
		}
		isErr := func(a ast.Expr) bool {
			t := in.TypeOf(a)
			return t != nil && types.Identical(t, types.Universe.Lookup("error").Type())
		}
		isNil := func(a ast.Expr) bool { tv, ok := in.Types[a]; return ok && tv.IsNil() }
		return (isErr(x.X) && isNil(x.Y)) || (isErr(x.Y) && isNil(x.X))
	}
	return false
}
