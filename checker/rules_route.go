package main

// Tracer routes: R18 sender-covers-sends, R35 trace-route, Rerr dropped
// constructor error. Tracers are identified by access paths relative to their
// owning object ("Process.subTracer", "subProcess.wr.tracer"), unified through
// local assignments, accessor methods and call-site bindings.

import (
	"fmt"
	"go/ast"
	"go/types"
	"sort"
	"strings"
)

func init() {
	register(&Rule{ID: "R18", Title: "sender-covers-sends: a goroutine that sends traces holds a sender handle of the tracer it sends on", Min: 14, Run: ruleR18})
	register(&Rule{ID: "R35", Title: "trace-route: a trace a goroutine waits for is sent on (or relayed into) the tracer it subscribed to", Min: 2, Run: ruleR35})
	register(&Rule{ID: "Rerr", Title: "dropped-constructor-error: the error of NewEventDefinitionInstance is not discarded where the instance is kept", Min: 2, Run: ruleRerr})
}

type pathResolver struct {
	p     *Prog
	depth int
}

// selectionPath renders x.a.b with promoted fields spelled out, rooted at the
// named type of the root identifier.
func (r *pathResolver) selectionPath(f *FuncInfo, e ast.Expr) string {
	in := info(f)
	e = unparen(e)
	switch x := e.(type) {
	case *ast.SelectorExpr:
		s, ok := in.Selections[x]
		if !ok || s.Kind() != types.FieldVal {
			return ""
		}
		base := r.pathOf(f, x.X)
		if base == "" {
			return ""
		}
		// spell out the embedded hops
		t := s.Recv()
		var names []string
		for _, ix := range s.Index() {
			st, ok := structOf(t)
			if !ok {
				return ""
			}
			names = append(names, st.Field(ix).Name())
			t = st.Field(ix).Type()
		}
		return base + "." + strings.Join(names, ".")
	}
	return ""
}

func (r *pathResolver) pathOf(f *FuncInfo, e ast.Expr) string {
	if r.depth > 6 {
		return ""
	}
	r.depth++
	defer func() { r.depth-- }()
	p := r.p
	in := info(f)
	e = unparen(e)
	switch x := e.(type) {
	case *ast.SelectorExpr:
		if sp := r.selectionPath(f, x); sp != "" {
			return sp
		}
	case *ast.CallExpr:
		// accessor method: return recv.<field>
		fn := callee(in, x)
		if cf := p.byObj[fn]; cf != nil && cf.Decl != nil && cf.Decl.Recv != nil && len(x.Args) == 0 {
			var ret ast.Expr
			n := 0
			inspectNoLit(cf.Body, func(m ast.Node) bool {
				if rs, ok := m.(*ast.ReturnStmt); ok && len(rs.Results) == 1 {
					ret = rs.Results[0]
					n++
				}
				return true
			})
			if n == 1 {
				inner := r.pathOf(cf, ret)
				if inner != "" {
					return inner
				}
			}
		}
	case *ast.Ident:
		v, ok := objOf(in, x).(*types.Var)
		if !ok {
			return ""
		}
		// receiver or a variable of a named struct type: root of a path
		if n := namedOf(v.Type()); n != nil && !v.IsField() {
			if _, isStruct := n.Underlying().(*types.Struct); isStruct && n.Obj().Pkg() != nil && isTargetPkg(p, n.Obj().Pkg().Path()) {
				return n.Obj().Name()
			}
		}
		root := f.Root()
		// a local assigned once in the enclosing declared function (or an enclosing literal)
		for fi := f; fi != nil; fi = fi.Parent {
			fin := info(fi)
			var rhs ast.Expr
			var storedTo ast.Expr
			inspectNoLit(fi.Body, func(m ast.Node) bool {
				as, ok := m.(*ast.AssignStmt)
				if !ok || len(as.Lhs) != len(as.Rhs) {
					return true
				}
				for i, l := range as.Lhs {
					if id, ok := unparen(l).(*ast.Ident); ok && objOf(fin, id) == types.Object(v) {
						rhs = as.Rhs[i]
					}
					if id, ok := unparen(as.Rhs[i]).(*ast.Ident); ok && objOf(fin, id) == types.Object(v) {
						if _, isSel := unparen(l).(*ast.SelectorExpr); isSel {
							storedTo = l
						}
					}
				}
				return true
			})
			if storedTo != nil {
				if sp := r.pathOf(fi, storedTo); sp != "" {
					return sp
				}
			}
			if rhs != nil {
				if _, isCall := unparen(rhs).(*ast.CallExpr); !isCall || true {
					if sp := r.pathOf(fi, rhs); sp != "" {
						return sp
					}
				}
			}
			// parameter of fi: bind through call sites
			if isParam(fi, v) {
				idx := -1
				i := 0
				for _, fl := range fi.Type().Params.List {
					for _, nm := range fl.Names {
						if info(fi).Defs[nm] == types.Object(v) {
							idx = i
						}
						i++
					}
				}
				if fi.Obj != nil && idx >= 0 {
					res := map[string]bool{}
					for _, h := range p.Funcs {
						hin := info(h)
						inspectNoLit(h.Body, func(m ast.Node) bool {
							if call, ok := m.(*ast.CallExpr); ok && callee(hin, call) == fi.Obj && idx < len(call.Args) {
								if sp := r.pathOf(h, call.Args[idx]); sp != "" {
									res[sp] = true
								}
							}
							return true
						})
					}
					if len(res) == 1 {
						for k := range res {
							return k
						}
					}
					if len(res) > 1 {
						var ks []string
						for k := range res {
							ks = append(ks, k)
						}
						sort.Strings(ks)
						return strings.Join(ks, "|")
					}
				}
				// parameter of a literal launched by `go lit(args)` or called directly
				if fi.Lit != nil && idx >= 0 {
					if call, ok := p.Parent(fi.Lit).(*ast.CallExpr); ok && unparen(call.Fun) == ast.Expr(fi.Lit) && idx < len(call.Args) && fi.Parent != nil {
						if sp := r.pathOf(fi.Parent, call.Args[idx]); sp != "" {
							return sp
						}
					}
					// literal returned by its parent and invoked as parent(...)(args): go p.ceaseFlowMonitor(x)(ctx, sender)
					if _, isRet := p.Parent(fi.Lit).(*ast.ReturnStmt); isRet && fi.Parent != nil && fi.Parent.Obj != nil {
						for _, h := range p.Funcs {
							hin := info(h)
							var found string
							inspectNoLit(h.Body, func(m ast.Node) bool {
								if outer, ok := m.(*ast.CallExpr); ok {
									if inner, ok := unparen(outer.Fun).(*ast.CallExpr); ok && callee(hin, inner) == fi.Parent.Obj && idx < len(outer.Args) {
										found = r.pathOf(h, outer.Args[idx])
									}
								}
								return true
							})
							if found != "" {
								return found
							}
						}
					}
				}
				return ""
			}
			if fi == root {
				break
			}
		}
	}
	return ""
}

// canonical strips nothing but normalises the two spellings of the process
// options tracer.
func canonicalTracerPath(s string) string {
	return s
}

// ---- R18 ----

func ruleR18(c *Ctx) {
	p := c.P
	ce := chanEngine(p)
	res := &pathResolver{p: p}
	launches := ce.Launches()
	// handle registrations reaching each root (same logic as R17)
	regs := map[*FuncInfo][]string{}
	for _, l := range launches {
		if l.Root == nil {
			continue
		}
		F := l.Site.Func
		in := info(F)
		// handle variables passed to / captured by the launched root
		handleVars := map[types.Object]bool{}
		for _, a := range l.Site.Stmt.Call.Args {
			if id, ok := unparen(a).(*ast.Ident); ok {
				if v := objOf(in, id); v != nil && isNamed(v.Type(), pathTracing, "ISenderHandle") {
					handleVars[v] = true
				}
			}
		}
		if l.Root.Lit != nil {
			ast.Inspect(l.Root.Body, func(m ast.Node) bool {
				if id, ok := m.(*ast.Ident); ok {
					if v := in.Uses[id]; v != nil && isNamed(v.Type(), pathTracing, "ISenderHandle") {
						handleVars[v] = true
					}
				}
				return true
			})
		}
		for fi := F; fi != nil; fi = fi.Parent {
			fin := info(fi)
			inspectNoLit(fi.Body, func(m ast.Node) bool {
				as, ok := m.(*ast.AssignStmt)
				if !ok || len(as.Lhs) != 1 || len(as.Rhs) != 1 {
					return true
				}
				call, ok := unparen(as.Rhs[0]).(*ast.CallExpr)
				if !ok || !isTracerMethod(fin, call, "RegisterSender") {
					return true
				}
				if id, ok := as.Lhs[0].(*ast.Ident); ok && handleVars[objOf(fin, id)] {
					tp := res.pathOf(fi, unparen(call.Fun).(*ast.SelectorExpr).X)
					regs[l.Root] = append(regs[l.Root], tp)
				}
				return true
			})
		}
	}
	seenRoot := map[*FuncInfo]bool{}
	for _, l := range launches {
		R := l.Root
		if R == nil || seenRoot[R] || !inEngineScope(R) {
			continue
		}
		seenRoot[R] = true
		siteFn := l.Site.Func
		if shortPkg(R.Pkg.PkgPath) == "pkg/tracing" {
			// the tracer's own machinery (broadcaster, termination waiter, relay with its handle: R17)
			if R.Root().Obj != nil && recvNamed(R.Root().Obj) != nil {
				continue
			}
		}
		// goroutine-local call tree
		tree := map[*FuncInfo]bool{}
		var add func(f *FuncInfo, d int)
		add = func(f *FuncInfo, d int) {
			if tree[f] || d > 4 {
				return
			}
			tree[f] = true
			in := info(f)
			inspectNoLit(f.Body, func(m ast.Node) bool {
				if _, isGo := m.(*ast.GoStmt); isGo {
					return false
				}
				if call, ok := m.(*ast.CallExpr); ok {
					if lf := syncLitOfCall(p, in, call); lf != nil {
						add(lf, d+1)
					}
					if fn := callee(in, call); fn != nil {
						if cf := p.byObj[fn]; cf != nil && cf.Pkg == R.Pkg && recvNamed(fn) != nil && R.Root().Obj != nil && recvNamed(fn) == recvNamed(R.Root().Obj) {
							add(cf, d+1)
						}
					}
				}
				return true
			})
		}
		add(R, 0)
		sends := map[string]ast.Node{}
		var fns []*FuncInfo
		for f := range tree {
			fns = append(fns, f)
		}
		sort.Slice(fns, func(i, j int) bool { return fns[i].Pos() < fns[j].Pos() })
		for _, f := range fns {
			in := info(f)
			inspectNoLit(f.Body, func(m ast.Node) bool {
				if _, isGo := m.(*ast.GoStmt); isGo {
					return false
				}
				if call, ok := m.(*ast.CallExpr); ok && isTracerMethod(in, call, "Send") {
					tp := res.pathOf(f, unparen(call.Fun).(*ast.SelectorExpr).X)
					if tp == "" {
						tp = "?" + exprStringShort(unparen(call.Fun).(*ast.SelectorExpr).X)
					}
					if _, dup := sends[tp]; !dup {
						sends[tp] = call
					}
				}
				return true
			})
		}
		var tps []string
		for tp := range sends {
			tps = append(tps, tp)
		}
		sort.Strings(tps)
		for _, tp := range tps {
			covered := false
			for _, rp := range regs[R] {
				if rp != "" && rp == tp {
					covered = true
				}
			}
			c.Check(covered, siteFn, sends[tp], "goroutine launched here sends on "+tp, "a goroutine that sends traces on a tracer holds a sender handle registered on that same tracer (the tracer then waits for it before terminating; an unregistered sender can block forever in Send after termination)", fmt.Sprintf("handles held by %s are registered on %v", R.QName(), regs[R]))
		}
	}
}

// ---- R35 ----

func ruleR35(c *Ctx) {
	p := c.P
	res := &pathResolver{p: p}
	// relay edges
	type edge struct{ from, to string }
	var relays []edge
	for _, f := range p.Funcs {
		in := info(f)
		inspectNoLit(f.Body, func(m ast.Node) bool {
			if call, ok := m.(*ast.CallExpr); ok && isPkgFunc(callee(in, call), pathTracing, "NewRelay") && len(call.Args) >= 3 {
				relays = append(relays, edge{res.pathOf(f, call.Args[1]), res.pathOf(f, call.Args[2])})
			}
			return true
		})
	}
	// senders of each trace type
	type sendSite struct {
		f    *FuncInfo
		path string
		at   ast.Node
	}
	sendsOf := map[string][]sendSite{}
	for _, f := range p.Funcs {
		if f.Pkg.PkgPath != pathBpmn {
			continue
		}
		in := info(f)
		inspectNoLit(f.Body, func(m ast.Node) bool {
			if call, ok := m.(*ast.CallExpr); ok {
				if t, ok := sentTraceType(in, call); ok {
					sendsOf[t] = append(sendsOf[t], sendSite{f, res.pathOf(f, unparen(call.Fun).(*ast.SelectorExpr).X), call})
				}
			}
			return true
		})
	}
	n := 0
	for _, f := range p.Funcs {
		if f.Pkg.PkgPath != pathBpmn {
			continue
		}
		in := info(f)
		// subscription made in this body
		var subPath string
		inspectNoLit(f.Body, func(m ast.Node) bool {
			if call, ok := m.(*ast.CallExpr); ok && isTracerMethod(in, call, "Subscribe") {
				subPath = res.pathOf(f, unparen(call.Fun).(*ast.SelectorExpr).X)
			}
			return true
		})
		if subPath == "" && f.Obj != nil {
			// the subscription arrives as a parameter: resolve it at the call / go sites
			for i := 0; ; i++ {
				pv := paramAt(f, i)
				if pv == nil {
					break
				}
				if e, ok := chanElem(pv.Type()); !ok || !isITrace(e) {
					continue
				}
				for _, h := range p.Funcs {
					hin := info(h)
					inspectNoLit(h.Body, func(m ast.Node) bool {
						call, ok := m.(*ast.CallExpr)
						if !ok || callee(hin, call) != f.Obj || i >= len(call.Args) {
							return true
						}
						id, ok := unparen(call.Args[i]).(*ast.Ident)
						if !ok {
							return true
						}
						lv := objOf(hin, id)
						inspectNoLit(h.Body, func(z ast.Node) bool {
							as, ok := z.(*ast.AssignStmt)
							if !ok || len(as.Lhs) != 1 || len(as.Rhs) != 1 {
								return true
							}
							if lid, ok := unparen(as.Lhs[0]).(*ast.Ident); ok && objOf(hin, lid) == lv {
								if sc, ok := unparen(as.Rhs[0]).(*ast.CallExpr); ok && isTracerMethod(hin, sc, "Subscribe") {
									subPath = res.pathOf(h, unparen(sc.Fun).(*ast.SelectorExpr).X)
								}
							}
							return true
						})
						return true
					})
				}
			}
		}
		if subPath == "" {
			continue
		}
		// awaited trace types: cases of a type switch over ITrace whose body leaves the enclosing loop
		for _, cl := range typeSwitches(p, isITrace) {
			if cl.Func != f || len(cl.Types) != 1 {
				continue
			}
			leaves := false
			for _, st := range cl.Clause.Body {
				inspectNoLit(st, func(z ast.Node) bool {
					switch x := z.(type) {
					case *ast.BranchStmt:
						if x.Label != nil && x.Tok.String() == "break" {
							leaves = true
						}
					case *ast.ReturnStmt:
						leaves = true
					}
					return true
				})
			}
			if !leaves {
				continue
			}
			T := namedOf(cl.Types[0])
			if T == nil {
				continue
			}
			n++
			tname := T.Obj().Name()
			owner := strings.SplitN(subPath, ".", 2)[0]
			var cands []string
			okRoute := false
			for _, s := range sendsOf[tname] {
				if s.path == "" {
					continue
				}
				for _, alt := range strings.Split(s.path, "|") {
					if !strings.HasPrefix(alt, owner+".") && alt != owner {
						continue
					}
					cands = append(cands, alt+" ("+s.f.QName()+")")
					if alt == subPath {
						okRoute = true
					}
					for _, e := range relays {
						if e.from == alt && e.to == subPath {
							okRoute = true
						}
					}
				}
			}
			c.Check(okRoute, f, cl.Clause, "waits for "+tname+" on "+subPath,
				"the goroutine leaves its wait loop only when it receives "+tname+" from the tracer it subscribed to ("+subPath+"); some Send("+tname+") of the same owner must be on that tracer or on one relayed into it, otherwise the wait never ends",
				fmt.Sprintf("Send(%s) sites of owner %s are on: %v; relays: %v", tname, owner, cands, relays))
		}
	}
	if n == 0 {
		c.Missing("trace waiters", "no goroutine waits for a trace type on a subscription any more")
	}
}

// ---- Rerr ----

func ruleRerr(c *Ctx) {
	p := c.P
	for _, f := range p.Funcs {
		in := info(f)
		inspectNoLit(f.Body, func(m ast.Node) bool {
			as, ok := m.(*ast.AssignStmt)
			if !ok || len(as.Rhs) != 1 || len(as.Lhs) != 2 {
				return true
			}
			call, ok := unparen(as.Rhs[0]).(*ast.CallExpr)
			if !ok {
				return true
			}
			fn := callee(in, call)
			if fn == nil || fn.Name() != "NewEventDefinitionInstance" {
				return true
			}
			blank := false
			if id, ok := as.Lhs[1].(*ast.Ident); ok && id.Name == "_" {
				blank = true
			}
			c.Check(!blank, f, as, "error of NewEventDefinitionInstance", "the error returned with an event-definition instance is checked where the instance is stored (a failed builder leaves a nil instance that is dereferenced when the next event is matched)", fmt.Sprintf("error assigned to blank: %v", blank))
			return true
		})
	}
}
