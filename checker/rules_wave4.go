package main

// Rules added after the fourth (held-out) wave of seeded faults (letters e, f in /verif/seeded).
//
//	R88 conditions are evaluated against data read from the locator at evaluation time
//	R89 a store into the object locator is visible to the locator's snapshot
//	R90 the threshold a request counter is compared with agrees with the counter's idle value
//	R91 engine code does not arm timers through the clock's uncancellable After
//	R92 a forked token gets its hooks from the action that forked it
//	R93 an expression's own language wins over the definitions' default
//	R94 a node's goroutine never posts into its own mailbox synchronously

import (
	"fmt"
	"go/ast"
	"go/constant"
	"go/token"
	"go/types"
	"sort"
	"strings"
)

func init() {
	register(&Rule{ID: "R88", Title: "fresh evaluation scope: the data a condition is evaluated against is read from the instance's data locator inside the evaluating call, never taken from a field that caches an earlier read", Min: 1, Run: ruleR88})
	register(&Rule{ID: "R89", Title: "stored data is visible: a Put into the object locator made by engine code writes a table that the locator's snapshot (Clone) reads", Min: 1, Run: ruleR89})
	register(&Rule{ID: "R90", Title: "request-counter threshold: a comparison of an activity's atomic request counter separates 'idle' (the value the start guard installs) from 'request in flight' (one more)", Min: 2, Run: ruleR90})
	register(&Rule{ID: "R91", Title: "cancellable timers: engine code arms timers through IClock.Until (the wait stays in the caller's select); IClock.After, whose host implementation parks a goroutine that no context can reach, is not called", Min: 0, Run: ruleR91})
	register(&Rule{ID: "R92", Title: "hooks of the action: the action transformer and the termination hook of every token created or moved while an action is interpreted are the ones that action carries", Min: 3, Run: ruleR92})
	register(&Rule{ID: "R93", Title: "own language first: the definitions' default expression language is used only for an expression that names none", Min: 1, Run: ruleR93})
	register(&Rule{ID: "R94", Title: "no self-post: the goroutine that drains a node's mailbox never sends into that mailbox itself (it is the only receiver; a full mailbox would park it forever)", Min: 10, Run: ruleR94})
}

// methodOn reports whether call is a call of a method called name whose receiver type is declared in a package
// whose import path ends in pkgSuffix.
func methodOn(in *types.Info, call *ast.CallExpr, pkgSuffix string, names ...string) bool {
	fn := callee(in, call)
	if fn == nil {
		return false
	}
	ok := false
	for _, n := range names {
		if fn.Name() == n {
			ok = true
		}
	}
	if !ok {
		return false
	}
	r := recvNamed(fn)
	return r != nil && r.Obj().Pkg() != nil && strings.HasSuffix(r.Obj().Pkg().Path(), pkgSuffix)
}

// localDefs: every expression assigned to local variable v inside body (`v := e`, `v = e`, `var v = e`).
// indexStores: statements `v[k] = e`.
func localDefs(in *types.Info, body ast.Node, v types.Object) (defs []ast.Expr, indexStores []*ast.AssignStmt) {
	ast.Inspect(body, func(n ast.Node) bool {
		switch x := n.(type) {
		case *ast.AssignStmt:
			for i, l := range x.Lhs {
				if id, ok := unparen(l).(*ast.Ident); ok && objOf(in, id) == v {
					if len(x.Rhs) == len(x.Lhs) {
						defs = append(defs, x.Rhs[i])
					} else if len(x.Rhs) == 1 {
						defs = append(defs, x.Rhs[0])
					}
				}
				if ix, ok := unparen(l).(*ast.IndexExpr); ok {
					if id, ok := unparen(ix.X).(*ast.Ident); ok && objOf(in, id) == v {
						indexStores = append(indexStores, x)
					}
				}
			}
		case *ast.ValueSpec:
			for i, nm := range x.Names {
				if in.Defs[nm] == v && i < len(x.Values) {
					defs = append(defs, x.Values[i])
				}
			}
		}
		return true
	})
	return
}

func isLocalVar(f *FuncInfo, o types.Object) bool {
	v, ok := o.(*types.Var)
	if !ok || v.IsField() {
		return false
	}
	return v.Pos() >= f.Body.Pos() && v.Pos() <= f.Body.End()
}

// mentionsField: e reads a struct field (other than through a call on a data locator).
func mentionsForeignState(in *types.Info, f *FuncInfo, e ast.Expr) string {
	bad := ""
	ast.Inspect(e, func(n ast.Node) bool {
		if bad != "" {
			return false
		}
		switch x := n.(type) {
		case *ast.CallExpr:
			if methodOn(in, x, "pkg/data", "CloneVariables", "CloneItems", "Clone", "GetVariable", "FindIItemAwareLocator") {
				return false // a read of the instance data at this moment
			}
		case *ast.SelectorExpr:
			if fv := fieldOf(in, x); fv != nil {
				bad = "field " + fv.Name()
			}
		case *ast.Ident:
			if o := objOf(in, x); o != nil {
				if v, ok := o.(*types.Var); ok && !v.IsField() && v.Parent() != nil && v.Parent() == v.Pkg().Scope() {
					bad = "package-level variable " + v.Name()
				}
			}
		}
		return true
	})
	return bad
}

func ruleR88(c *Ctx) {
	p := c.P
	what := "tokens of one instance share its variables: a value written by a task on a sibling branch must be seen by the next condition any token evaluates; a snapshot kept in a field of the token (or node) and refreshed only where that token itself writes goes stale as soon as another token writes"
	n := 0
	for _, f := range p.Funcs {
		if f.Pkg.PkgPath != pathBpmn || f.Body == nil {
			continue
		}
		in := info(f)
		inspectNoLit(f.Body, func(nd ast.Node) bool {
			call, ok := nd.(*ast.CallExpr)
			if !ok || !methodOn(in, call, "pkg/expression", "EvaluateExpression") || len(call.Args) < 2 {
				return true
			}
			n++
			arg := unparen(call.Args[1])
			id, isId := arg.(*ast.Ident)
			if !isId {
				if bad := mentionsForeignState(in, f, arg); bad != "" {
					c.Bad(f, call, "data handed to EvaluateExpression", what, "the evaluation data is "+exprString(arg)+" ("+bad+")")
				} else {
					c.Ok(f, call, "data handed to EvaluateExpression", what, "built in place: "+exprString(arg), true)
				}
				return true
			}
			o := objOf(in, id)
			if !isLocalVar(f, o) {
				c.Bad(f, call, "data handed to EvaluateExpression", what, "the evaluation data "+id.Name+" is not a local of the evaluating function")
				return true
			}
			defs, stores := localDefs(in, f.Body, o)
			var problems []string
			fromLocator := false
			for _, d := range defs {
				if bad := mentionsForeignState(in, f, d); bad != "" {
					problems = append(problems, fmt.Sprintf("%s is assigned from %s (%s)", id.Name, exprString(d), bad))
				}
				if exprMentions(d, func(m ast.Node) bool {
					cl, ok := m.(*ast.CallExpr)
					return ok && methodOn(in, cl, "pkg/data", "CloneVariables", "CloneItems", "Clone")
				}) {
					fromLocator = true
				}
			}
			for _, st := range stores {
				// the store sits in a range loop: what is ranged over must be a locator read made here
				var rng *ast.RangeStmt
				for cur := p.Parent(st); cur != nil && cur != ast.Node(f.Body); cur = p.Parent(cur) {
					if r, ok := cur.(*ast.RangeStmt); ok {
						rng = r
						break
					}
				}
				if rng == nil {
					for _, r := range st.Rhs {
						if bad := mentionsForeignState(in, f, r); bad != "" {
							problems = append(problems, fmt.Sprintf("element stored from %s (%s)", exprString(r), bad))
						}
					}
					continue
				}
				src := unparen(rng.X)
				if sid, ok := src.(*ast.Ident); ok && isLocalVar(f, objOf(in, sid)) {
					sdefs, _ := localDefs(in, f.Body, objOf(in, sid))
					okAll := len(sdefs) > 0
					for _, d := range sdefs {
						if mentionsForeignState(in, f, d) != "" || !exprMentions(d, func(m ast.Node) bool {
							cl, ok := m.(*ast.CallExpr)
							return ok && methodOn(in, cl, "pkg/data", "CloneVariables", "CloneItems", "Clone")
						}) {
							okAll = false
						}
					}
					if okAll {
						fromLocator = true
					} else {
						problems = append(problems, "filled by ranging over "+sid.Name+", which is not (only) a locator read made in this call")
					}
					continue
				}
				if bad := mentionsForeignState(in, f, src); bad != "" {
					problems = append(problems, "filled by ranging over "+exprString(src)+" ("+bad+")")
				} else if exprMentions(src, func(m ast.Node) bool {
					cl, ok := m.(*ast.CallExpr)
					return ok && methodOn(in, cl, "pkg/data", "CloneVariables", "CloneItems", "Clone")
				}) {
					fromLocator = true
				}
			}
			if len(problems) == 0 && !fromLocator {
				problems = append(problems, "no read of the data locator (CloneVariables / CloneItems) feeds "+id.Name+" in this function")
			}
			sort.Strings(problems)
			c.Check(len(problems) == 0, f, call, "data handed to EvaluateExpression", what, ifElse(len(problems) == 0, id.Name+" is a local filled from a locator read made in this call", strings.Join(problems, "; ")))
			return true
		})
	}
	if n == 0 {
		c.Missing("condition evaluation", "no call of IEngine.EvaluateExpression was found in the engine package")
	}
}

// ---- R89 ----

// mapsWritten / mapsRead: the map-typed fields of the receiver that method m stores into / ranges over or indexes.
func fieldMapsTouched(p *Prog, m *FuncInfo) (written, read map[*types.Var]bool) {
	written, read = map[*types.Var]bool{}, map[*types.Var]bool{}
	in := info(m)
	ast.Inspect(m.Body, func(n ast.Node) bool {
		switch x := n.(type) {
		case *ast.AssignStmt:
			for _, l := range x.Lhs {
				if ix, ok := unparen(l).(*ast.IndexExpr); ok {
					if fv := fieldOf(in, ix.X); fv != nil {
						written[fv] = true
					}
				}
			}
		case *ast.RangeStmt:
			if fv := fieldOf(in, x.X); fv != nil {
				read[fv] = true
			}
		case *ast.IndexExpr:
			if fv := fieldOf(in, x.X); fv != nil {
				if as, ok := p.Parent(x).(*ast.AssignStmt); ok {
					isL := false
					for _, l := range as.Lhs {
						if unparen(l) == ast.Expr(x) {
							isL = true
						}
					}
					if isL {
						return true
					}
				}
				read[fv] = true
			}
		}
		return true
	})
	return
}

func ruleR89(c *Ctx) {
	p := c.P
	what := "a data output that a task answer stores into the instance's object locator must be part of what CloneItems hands to observers and later tasks; the container keeps several tables (by id, by name, references, properties) and its snapshot reads only some of them — a store into a table the snapshot skips is invisible"
	// the locator implementations: types of pkg/data with Put* methods and a Clone method
	type impl struct {
		clone *FuncInfo
		puts  map[string]*FuncInfo
	}
	impls := map[*types.Named]*impl{}
	for _, f := range p.Funcs {
		if f.Obj == nil || f.Body == nil || f.Pkg.PkgPath != pathData {
			continue
		}
		r := recvNamed(f.Obj)
		if r == nil {
			continue
		}
		if impls[r] == nil {
			impls[r] = &impl{puts: map[string]*FuncInfo{}}
		}
		if f.Obj.Name() == "Clone" {
			impls[r].clone = f
		}
		if strings.HasPrefix(f.Obj.Name(), "Put") {
			impls[r].puts[f.Obj.Name()] = f
		}
	}
	n := 0
	for _, f := range p.Funcs {
		if f.Pkg.PkgPath != pathBpmn || f.Body == nil {
			continue
		}
		in := info(f)
		inspectNoLit(f.Body, func(nd ast.Node) bool {
			call, ok := nd.(*ast.CallExpr)
			if !ok {
				return true
			}
			fn := callee(in, call)
			if fn == nil || !strings.HasPrefix(fn.Name(), "Put") || fn.Pkg() == nil || fn.Pkg().Path() != pathData {
				return true
			}
			if _, isIface := recvUnderlyingInterface(fn); !isIface {
				return true
			}
			// only stores into a locator obtained for the *object* kind matter for CloneItems(LocatorObject); the
			// call goes through the interface, so every implementation that has both the Put and a Clone is checked
			var bad, good []string
			for r, im := range impls {
				put := im.puts[fn.Name()]
				if put == nil || im.clone == nil {
					continue
				}
				w, _ := fieldMapsTouched(p, put)
				_, rd := fieldMapsTouched(p, im.clone)
				if len(w) == 0 {
					continue // a no-op default implementation
				}
				vis := false
				var ws []string
				for fv := range w {
					ws = append(ws, fv.Name())
					if rd[fv] {
						vis = true
					}
				}
				sort.Strings(ws)
				if vis {
					good = append(good, r.Obj().Name()+"."+fn.Name()+" writes "+strings.Join(ws, ",")+", which Clone reads")
				} else {
					bad = append(bad, r.Obj().Name()+"."+fn.Name()+" writes "+strings.Join(ws, ",")+", which "+r.Obj().Name()+".Clone does not read")
				}
			}
			if len(bad)+len(good) == 0 {
				return true
			}
			n++
			sort.Strings(bad)
			sort.Strings(good)
			c.Check(len(bad) == 0, f, call, "store into the item-aware locator via "+fn.Name(), what, ifElse(len(bad) == 0, strings.Join(good, "; "), strings.Join(bad, "; ")))
			return true
		})
	}
	if n == 0 {
		c.Missing("locator store", "no Put* call on an item-aware locator was found in the engine package")
	}
}

// ---- R90 ----

func constInt(in *types.Info, e ast.Expr) (int64, bool) {
	tv, ok := in.Types[e]
	if !ok || tv.Value == nil || tv.Value.Kind() != constant.Int {
		return 0, false
	}
	v, ok := constant.Int64Val(tv.Value)
	return v, ok
}

// atomicFieldCall: X.f.M(args) on an atomic.IntNN field, or atomic.MInt32(&X.f, args).
func atomicFieldCall(in *types.Info, call *ast.CallExpr) (fv *types.Var, method string, args []ast.Expr) {
	fn := callee(in, call)
	if fn == nil || fn.Pkg() == nil || fn.Pkg().Path() != "sync/atomic" {
		return nil, "", nil
	}
	if sel, ok := unparen(call.Fun).(*ast.SelectorExpr); ok {
		if recvNamed(fn) != nil {
			if f := fieldOf(in, sel.X); f != nil {
				return f, fn.Name(), call.Args
			}
			return nil, "", nil
		}
	}
	if len(call.Args) >= 1 {
		if u, ok := unparen(call.Args[0]).(*ast.UnaryExpr); ok && u.Op == token.AND {
			if f := fieldOf(in, u.X); f != nil {
				name := fn.Name()
				for _, suf := range []string{"Int32", "Int64", "Uint32", "Uint64"} {
					name = strings.TrimSuffix(name, suf)
				}
				return f, name, call.Args[1:]
			}
		}
	}
	return nil, "", nil
}

func ruleR90(c *Ctx) {
	p := c.P
	what := "the counter is k when the activity's goroutine runs with no request outstanding (the start guard swaps 0 for k) and k+1.. while a request is in flight (each request adds 1); Cancel has to be refused exactly when a request is in flight — a threshold that is off by one either refuses every cancel (the interrupted activity still issues its request and its normal flow is taken) or honours a cancel while the request is out"
	type ctr struct {
		base    int64
		hasBase bool
		hasAdd  bool
	}
	ctrs := map[*types.Var]*ctr{}
	type cmp struct {
		f    *FuncInfo
		n    *ast.BinaryExpr
		fv   *types.Var
		op   token.Token
		cval int64
	}
	var cmps []cmp
	for _, f := range p.Funcs {
		if f.Pkg.PkgPath != pathBpmn || f.Body == nil {
			continue
		}
		in := info(f)
		ast.Inspect(f.Body, func(nd ast.Node) bool {
			if lit, ok := nd.(*ast.FuncLit); ok && lit != f.Lit {
				return false
			}
			switch x := nd.(type) {
			case *ast.CallExpr:
				fv, m, args := atomicFieldCall(in, x)
				if fv == nil {
					return true
				}
				if ctrs[fv] == nil {
					ctrs[fv] = &ctr{}
				}
				switch m {
				case "CompareAndSwap":
					if len(args) == 2 {
						if o, ok := constInt(in, args[0]); ok && o == 0 {
							if k, ok := constInt(in, args[1]); ok {
								ctrs[fv].base, ctrs[fv].hasBase = k, true
							}
						}
					}
				case "Add":
					if len(args) == 1 {
						if d, ok := constInt(in, args[0]); ok && d == 1 {
							ctrs[fv].hasAdd = true
						}
					}
				}
			case *ast.BinaryExpr:
				switch x.Op {
				case token.GTR, token.GEQ, token.LSS, token.LEQ:
				default:
					return true
				}
				lhs, rhs, op := x.X, x.Y, x.Op
				if _, ok := constInt(in, lhs); ok {
					lhs, rhs = rhs, lhs
					op = map[token.Token]token.Token{token.GTR: token.LSS, token.GEQ: token.LEQ, token.LSS: token.GTR, token.LEQ: token.GEQ}[op]
				}
				cv, ok := constInt(in, rhs)
				if !ok {
					return true
				}
				cl, ok := unparen(lhs).(*ast.CallExpr)
				if !ok {
					return true
				}
				fv, m, _ := atomicFieldCall(in, cl)
				if fv == nil || m != "Load" {
					return true
				}
				cmps = append(cmps, cmp{f, x, fv, op, cv})
			}
			return true
		})
	}
	n := 0
	for _, cm := range cmps {
		ct := ctrs[cm.fv]
		if ct == nil || !ct.hasBase || !ct.hasAdd {
			continue
		}
		n++
		// the boundary the comparison draws: values <= lo are on one side, >= lo+1 on the other
		var lo int64
		switch cm.op {
		case token.GTR, token.LEQ:
			lo = cm.cval
		case token.GEQ, token.LSS:
			lo = cm.cval - 1
		}
		ok := lo == ct.base
		c.Check(ok, cm.f, cm.n, "threshold of request counter "+cm.fv.Name(), what, fmt.Sprintf("%s separates <=%d from >=%d; the start guard installs %d and each request adds 1, so 'request in flight' is >=%d", exprString(cm.n), lo, lo+1, ct.base, ct.base+1))
	}
	if n == 0 {
		c.Missing("request counter threshold", "no ordered comparison of an atomic request counter (CompareAndSwap(0,k) start guard, Add(1) per request) was found")
	}
}

// ---- R91 ----

func ruleR91(c *Ctx) {
	p := c.P
	what := "host.After starts a goroutine that waits out the whole duration and listens to no context: called from the engine, every cancelled instance leaves that goroutine behind until the timer's deadline (minutes to days for a BPMN duration timer); IClock.Until returns a plain timer channel whose wait stays in the caller's select beside ctx.Done"
	for _, f := range p.Funcs {
		if f.Body == nil || !isTargetPkg(p, f.Pkg.PkgPath) || f.Pkg.PkgPath == pathClock {
			continue
		}
		in := info(f)
		inspectNoLit(f.Body, func(nd ast.Node) bool {
			call, ok := nd.(*ast.CallExpr)
			if !ok {
				return true
			}
			fn := callee(in, call)
			if fn == nil || fn.Name() != "After" {
				return true
			}
			r := recvNamed(fn)
			if r == nil || r.Obj().Pkg() == nil || r.Obj().Pkg().Path() != pathClock {
				return true
			}
			c.Bad(f, call, "call of "+r.Obj().Name()+".After", what, "engine code calls the clock's After with "+exprString(call.Args[0]))
			return true
		})
	}
	// the obligation that is always there: the implementation's goroutine really has no done-source (if it gets
	// one, this rule has nothing left to say and reports that instead of passing silently)
	found := false
	for _, f := range p.Funcs {
		if f.Obj == nil || f.Body == nil || f.Pkg.PkgPath != pathClock || f.Obj.Name() != "After" {
			continue
		}
		hasGo := false
		inspectNoLit(f.Body, func(nd ast.Node) bool {
			if _, ok := nd.(*ast.GoStmt); ok {
				hasGo = true
			}
			return true
		})
		if hasGo {
			found = true
			c.Ok(f, f.Body, "After parks a goroutine of its own", what, "the reason for the who-may-call rule: "+f.QName()+" launches a goroutine; callers in the engine packages: none", false)
		}
	}
	_ = found
}

// ---- R92 ----

func ruleR92(c *Ctx) {
	p := c.P
	what := "a gateway decides through the hooks it puts into its flowAction (the event-based gateway's winner-deciding transformer and its withdrawal hook): they apply to the tokens that action creates or moves — passed down from the action, not re-read from the parent token, whose own hooks are only replaced when the parent itself moved"
	fa, _ := flowActionType(p)
	if fa == nil {
		c.Missing("flowAction", "the flowAction type was not found")
		return
	}
	st, _ := fa.Underlying().(*types.Struct)
	hook := map[*types.Var]bool{}
	for i := 0; st != nil && i < st.NumFields(); i++ {
		if _, ok := st.Field(i).Type().Underlying().(*types.Signature); ok {
			hook[st.Field(i)] = true
		}
	}
	if len(hook) == 0 {
		c.Missing("action hooks", "flowAction has no function-typed field")
		return
	}
	flowT := (*types.Named)(nil)
	if pk := p.PkgByShort("bpmn"); pk != nil {
		if tn, ok := pk.Types.Scope().Lookup("flow").(*types.TypeName); ok {
			flowT = namedOf(tn.Type())
		}
	}
	if flowT == nil {
		c.Missing("flow type", "type flow was not found")
		return
	}
	fst, _ := flowT.Underlying().(*types.Struct)
	flowHook := map[*types.Var]bool{}
	for i := 0; fst != nil && i < fst.NumFields(); i++ {
		if _, ok := fst.Field(i).Type().Underlying().(*types.Signature); ok {
			flowHook[fst.Field(i)] = true
		}
	}
	// derivesFromAction: e is a.hook, or a parameter of the enclosing declared function that is bound to a.hook at
	// every call site (depth 2)
	var derives func(f *FuncInfo, e ast.Expr, depth int) (bool, string)
	derives = func(f *FuncInfo, e ast.Expr, depth int) (bool, string) {
		in := info(f)
		e = unparen(e)
		if fv := fieldOf(in, e); fv != nil {
			if hook[fv] {
				return true, "the action's " + fv.Name()
			}
			return false, "field " + fieldName(in, e)
		}
		if isNilIdent(e) {
			return false, "nil"
		}
		id, ok := e.(*ast.Ident)
		if !ok {
			return false, exprString(e)
		}
		o, _ := objOf(in, id).(*types.Var)
		if o == nil {
			return false, id.Name
		}
		root := f.Root()
		// a parameter of the declared root function?
		if root.Decl != nil && depth < 3 {
			idx, k := -1, 0
			for _, fld := range root.Decl.Type.Params.List {
				for _, nm := range fld.Names {
					if info(root).Defs[nm] == types.Object(o) {
						idx = k
					}
					k++
				}
			}
			if idx >= 0 {
				sites, all := 0, true
				why := ""
				for _, g := range p.Funcs {
					if g.Body == nil || g.Pkg != root.Pkg {
						continue
					}
					gin := info(g)
					inspectNoLit(g.Body, func(m ast.Node) bool {
						cl, ok := m.(*ast.CallExpr)
						if !ok || callee(gin, cl) != root.Obj || idx >= len(cl.Args) {
							return true
						}
						sites++
						ok2, w := derives(g, cl.Args[idx], depth+1)
						if !ok2 {
							all = false
							why = "call in " + g.QName() + " passes " + w
						}
						return true
					})
				}
				if sites > 0 && all {
					return true, fmt.Sprintf("parameter %s, bound to the action's hook at all %d call sites", id.Name, sites)
				}
				if sites == 0 {
					return false, "parameter " + id.Name + " of a function that is never called statically"
				}
				return false, why
			}
		}
		// a local: all definitions derive
		if isLocalVar(f, o) || (f.Parent != nil && isLocalVar(f.Root(), o)) {
			defs, _ := localDefs(in, f.Root().Body, o)
			if len(defs) == 0 {
				return false, "local " + id.Name + " without a definition"
			}
			for _, d := range defs {
				if ok, w := derives(f, d, depth+1); !ok {
					return false, w
				}
			}
			return true, "local " + id.Name + " defined from the action's hook"
		}
		return false, id.Name
	}
	n := 0
	for _, f := range p.Funcs {
		if f.Pkg.PkgPath != pathBpmn || f.Body == nil {
			continue
		}
		// only functions in the token goroutine's world: methods of flow and their literals
		if r := f.Root(); r.Obj == nil || recvNamed(r.Obj) != flowT {
			continue
		}
		if isConstructorLike(f.Root()) {
			continue
		}
		in := info(f)
		inspectNoLit(f.Body, func(nd ast.Node) bool {
			switch x := nd.(type) {
			case *ast.AssignStmt:
				for i, l := range x.Lhs {
					fv := fieldOf(in, l)
					if fv == nil || !flowHook[fv] || len(x.Rhs) != len(x.Lhs) {
						continue
					}
					if f.Root().Obj != nil && strings.HasPrefix(f.Root().Obj.Name(), "Set") {
						continue // plain setter used by constructors of listener flows
					}
					n++
					ok, w := derives(f, x.Rhs[i], 0)
					c.Check(ok, f, x, "hook "+fv.Name()+" of a token set while an action is interpreted", what, w)
				}
			case *ast.CallExpr:
				fn := callee(in, x)
				if fn == nil || fn.Name() != "newFlow" || fn.Pkg() == nil || fn.Pkg().Path() != pathBpmn {
					return true
				}
				sig := fn.Type().(*types.Signature)
				for i := 0; i < sig.Params().Len() && i < len(x.Args); i++ {
					if _, ok := sig.Params().At(i).Type().Underlying().(*types.Signature); !ok {
						continue
					}
					n++
					ok, w := derives(f, x.Args[i], 0)
					c.Check(ok, f, x, "hook "+sig.Params().At(i).Name()+" of a forked token", what, w)
				}
			}
			return true
		})
	}
	if n == 0 {
		c.Missing("token hooks", "no assignment of a token's hook fields and no newFlow call was found in the methods of flow")
	}
}

// ---- R93 ----

func ruleR93(c *Ctx) {
	p := c.P
	what := "BPMN lets every formal expression name its language; the definitions' expressionLanguage is only the default. If the default is consulted first (it is never absent: the accessor substitutes XPath) an expression's own language is ignored and the expression is compiled by the wrong engine — an error at best, a different truth value when the text is valid in both"
	n := 0
	for _, f := range p.Funcs {
		if f.Pkg.PkgPath != pathBpmn || f.Body == nil {
			continue
		}
		in := info(f)
		g := p.Graph(f)
		inspectNoLit(f.Body, func(nd ast.Node) bool {
			call, ok := nd.(*ast.CallExpr)
			if !ok {
				return true
			}
			fn := callee(in, call)
			if fn == nil || fn.Name() != "GetEngine" || fn.Pkg() == nil || !strings.HasSuffix(fn.Pkg().Path(), "pkg/expression") || len(call.Args) < 2 {
				return true
			}
			id, ok := unparen(call.Args[1]).(*ast.Ident)
			if !ok {
				return true
			}
			o := objOf(in, id)
			// assignments of the language variable
			type asg struct {
				st        ast.Node
				fromOwn   bool
				fromDeflt bool
			}
			var asgs []asg
			ownPresent := map[types.Object]bool{} // the `present` / pointer results of e.Language()
			ast.Inspect(f.Body, func(m ast.Node) bool {
				if as, ok := m.(*ast.AssignStmt); ok && len(as.Rhs) == 1 {
					if cl, ok := unparen(as.Rhs[0]).(*ast.CallExpr); ok && methodOn(in, cl, "/schema", "Language") {
						for _, l := range as.Lhs {
							if lid, ok := l.(*ast.Ident); ok {
								ownPresent[objOf(in, lid)] = true
							}
						}
					}
				}
				return true
			})
			mentionsOwn := func(e ast.Node) bool {
				return exprMentions(e, func(m ast.Node) bool {
					if cl, ok := m.(*ast.CallExpr); ok && methodOn(in, cl, "/schema", "Language") {
						return true
					}
					if mid, ok := m.(*ast.Ident); ok && ownPresent[objOf(in, mid)] {
						return true
					}
					return false
				})
			}
			mentionsDefault := func(e ast.Node) bool {
				return exprMentions(e, func(m ast.Node) bool {
					cl, ok := m.(*ast.CallExpr)
					return ok && methodOn(in, cl, "/schema", "ExpressionLanguage")
				})
			}
			// locals that hold the default (language := defs.ExpressionLanguage())
			defaultVars := map[types.Object]bool{}
			ast.Inspect(f.Body, func(m ast.Node) bool {
				if as, ok := m.(*ast.AssignStmt); ok && len(as.Rhs) == 1 && mentionsDefault(as.Rhs[0]) {
					for _, l := range as.Lhs {
						if lid, ok := l.(*ast.Ident); ok && objOf(in, lid) != o {
							defaultVars[objOf(in, lid)] = true
						}
					}
				}
				return true
			})
			ast.Inspect(f.Body, func(m ast.Node) bool {
				as, ok := m.(*ast.AssignStmt)
				if !ok {
					return true
				}
				for i, l := range as.Lhs {
					lid, ok := unparen(l).(*ast.Ident)
					if !ok || objOf(in, lid) != o || len(as.Rhs) != len(as.Lhs) {
						continue
					}
					r := as.Rhs[i]
					a := asg{st: as}
					a.fromOwn = mentionsOwn(r)
					a.fromDeflt = mentionsDefault(r) || exprMentions(r, func(z ast.Node) bool {
						zid, ok := z.(*ast.Ident)
						return ok && defaultVars[objOf(in, zid)]
					})
					asgs = append(asgs, a)
				}
				return true
			})
			var own, deflt []asg
			for _, a := range asgs {
				if a.fromOwn {
					own = append(own, a)
				} else if a.fromDeflt {
					deflt = append(deflt, a)
				}
			}
			if len(own) == 0 && len(deflt) == 0 {
				return true
			}
			n++
			if len(own) == 0 {
				c.Bad(f, call, "language handed to GetEngine", what, "the expression's own Language() never reaches "+id.Name)
				return true
			}
			okAll, wit := true, ""
			for _, d := range deflt {
				// (i) under "the expression names no language"
				under := enclosingIfWhere(p, d.st, f.Body, func(cond ast.Expr, inThen bool) bool {
					neg := false
					cnd := unparen(cond)
					if u, ok := cnd.(*ast.UnaryExpr); ok && u.Op == token.NOT {
						neg, cnd = true, unparen(u.X)
					}
					if be, ok := cnd.(*ast.BinaryExpr); ok && (be.Op == token.EQL || be.Op == token.NEQ) && (isNilIdent(be.Y) || isNilIdent(be.X)) {
						other := be.X
						if isNilIdent(be.X) {
							other = be.Y
						}
						if !mentionsOwn(other) {
							return false
						}
						absentInThen := be.Op == token.EQL
						if neg {
							absentInThen = !absentInThen
						}
						return absentInThen == inThen
					}
					if !mentionsOwn(cnd) {
						return false
					}
					// cond is "present": default must be in the else side (or then side of !present)
					presentInThen := !neg
					return presentInThen != inThen
				}) != nil
				if under {
					wit += "default assigned only where the expression names no language; "
					continue
				}
				// (ii) default first, own language overrides afterwards: every own assignment is reachable from the
				// default assignment and the default assignment is not reachable from any own assignment
				dpt, ok1 := g.PointOf(d.st)
				overridden := ok1
				for _, oa := range own {
					opt, ok2 := g.PointOf(oa.st)
					if !ok2 {
						overridden = false
						break
					}
					fwd, _ := g.Reaches(dpt, func(z ast.Node) bool { return z == oa.st }, func(z ast.Node) bool { return false })
					back, _ := g.Reaches(opt, func(z ast.Node) bool { return z == d.st }, func(z ast.Node) bool { return false })
					if !fwd || back {
						overridden = false
					}
				}
				if overridden {
					wit += "default assigned first and overridden by the expression's own language; "
					continue
				}
				okAll = false
				wit += "the default (" + p.Pos(d.st.Pos()) + ") is assigned without testing that the expression names no language, and the expression's own language cannot override it afterwards; "
			}
			c.Check(okAll, f, call, "language handed to GetEngine", what, strings.TrimSuffix(wit, "; "))
			return true
		})
	}
	if n == 0 {
		c.Missing("expression language selection", "no GetEngine call fed by Language()/ExpressionLanguage() was found")
	}
}

// ---- R94 ----

func ruleR94(c *Ctx) {
	p := c.P
	what := "the mailbox has one receiver, the node's own goroutine; a send into it from that goroutine (instead of from a helper goroutine) blocks as soon as the buffer is full — with no receiver left the node is wedged for ever and every token that reaches it is parked"
	n := 0
	for _, f := range p.Funcs {
		if f.Obj == nil || f.Body == nil || f.Obj.Name() != "run" || !isTargetPkg(p, f.Pkg.PkgPath) {
			continue
		}
		r := recvNamed(f.Obj)
		if r == nil {
			continue
		}
		st, ok := r.Underlying().(*types.Struct)
		if !ok {
			continue
		}
		var boxes []*types.Var
		for i := 0; i < st.NumFields(); i++ {
			if isMailboxChan(st.Field(i).Type()) {
				boxes = append(boxes, st.Field(i))
			}
		}
		if len(boxes) == 0 {
			continue
		}
		// does run receive from the mailbox? (then it is the draining goroutine)
		tree := goroutineTree(p, f)
		var sends []ast.Node
		var sendF []*FuncInfo
		for t := range tree {
			in := info(t)
			inspectNoLit(t.Body, func(nd ast.Node) bool {
				if _, isGo := nd.(*ast.GoStmt); isGo {
					return false
				}
				if s, ok := nd.(*ast.SendStmt); ok {
					if fv := fieldOf(in, s.Chan); fv != nil {
						for _, b := range boxes {
							if b == fv {
								// a send that is the comm of a select with default cannot park
								if cc := commClauseOf(p, s); cc != nil {
									if sel, ok := p.Parent(p.Parent(cc)).(*ast.SelectStmt); ok {
										for _, cl := range sel.Body.List {
											if cl.(*ast.CommClause).Comm == nil {
												return true
											}
										}
									}
								}
								sends = append(sends, s)
								sendF = append(sendF, t)
							}
						}
					}
				}
				return true
			})
		}
		n++
		if len(sends) == 0 {
			c.Ok(f, f.Body, "no send into "+r.Obj().Name()+"'s own mailbox from its goroutine", what, fmt.Sprintf("%d functions in the goroutine's synchronous call tree, none sends into %s", len(tree), boxes[0].Name()), true)
			continue
		}
		for i, s := range sends {
			c.Bad(sendF[i], s, "send into "+r.Obj().Name()+"'s own mailbox from its goroutine", what, "synchronous send at "+p.Pos(s.Pos())+" in the run goroutine's call tree (a re-queue has to go through a goroutine of its own)")
		}
	}
	if n == 0 {
		c.Missing("node goroutines", "no run method of a type with a mailbox was found")
	}
}

// ---- R95 ----

func init() {
	register(&Rule{ID: "R95", Title: "tested-then-dereferenced: a pointer field that a function compares with nil is dereferenced only where that test (or a flag set under it) has established that it is not nil", Min: 30, Run: ruleR95})
}

// nilTestOf: cond is `E != nil` (neq=true) or `E == nil` for an E that sameRef's target.
func nilTestOf(in *types.Info, cond ast.Expr, target ast.Expr) (isTest, neq bool) {
	be, ok := unparen(cond).(*ast.BinaryExpr)
	if !ok || (be.Op != token.EQL && be.Op != token.NEQ) {
		return false, false
	}
	var other ast.Expr
	switch {
	case isNilIdent(be.Y):
		other = be.X
	case isNilIdent(be.X):
		other = be.Y
	default:
		return false, false
	}
	if !sameRef(in, other, target) {
		return false, false
	}
	return true, be.Op == token.NEQ
}

func ruleR95(c *Ctx) {
	p := c.P
	what := "a function that asks whether a pointer is nil believes it can be nil; dereferencing the same pointer where the answer is not known contradicts that belief and panics for the absent case (an optional attribute that the document or the builder left out)"
	for _, f := range p.Funcs {
		if f.Body == nil || !(isTargetPkg(p, f.Pkg.PkgPath) || strings.HasSuffix(f.Pkg.PkgPath, "/schema")) {
			continue
		}
		in := info(f)
		// pointer fields compared with nil in this function
		var tested []ast.Expr
		inspectNoLit(f.Body, func(nd ast.Node) bool {
			be, ok := nd.(*ast.BinaryExpr)
			if !ok || (be.Op != token.EQL && be.Op != token.NEQ) {
				return true
			}
			var other ast.Expr
			if isNilIdent(be.Y) {
				other = be.X
			} else if isNilIdent(be.X) {
				other = be.Y
			}
			if other == nil || fieldOf(in, other) == nil {
				return true
			}
			if _, isPtr := in.TypeOf(other).Underlying().(*types.Pointer); !isPtr {
				return true
			}
			tested = append(tested, other)
			return true
		})
		if len(tested) == 0 {
			continue
		}
		// flags that are set to true only under `E != nil`
		flagFor := func(v types.Object, target ast.Expr) bool {
			sets, okAll := 0, true
			inspectNoLit(f.Body, func(nd ast.Node) bool {
				as, ok := nd.(*ast.AssignStmt)
				if !ok {
					return true
				}
				for i, l := range as.Lhs {
					id, ok := unparen(l).(*ast.Ident)
					if !ok || objOf(in, id) != v || i >= len(as.Rhs) {
						continue
					}
					if rid, ok := unparen(as.Rhs[i]).(*ast.Ident); ok && rid.Name == "false" {
						continue
					}
					sets++
					under := enclosingIfWhere(p, as, f.Body, func(cond ast.Expr, inThen bool) bool {
						t, neq := nilTestOf(in, cond, target)
						return t && neq == inThen
					}) != nil
					if !under {
						okAll = false
					}
				}
				return true
			})
			return sets > 0 && okAll
		}
		inspectNoLit(f.Body, func(nd ast.Node) bool {
			st, ok := nd.(*ast.StarExpr)
			if !ok {
				return true
			}
			if _, isType := in.Types[st]; isType && in.Types[st].IsType() {
				return true
			}
			var target ast.Expr
			for _, t := range tested {
				if sameRef(in, st.X, t) {
					target = t
				}
			}
			if target == nil {
				return true
			}
			// a write through the pointer (`*t.F = v`) needs the same guarantee; no distinction
			guarded := enclosingIfWhere(p, st, f.Body, func(cond ast.Expr, inThen bool) bool {
				// conjunctions: E != nil && ... in the then-branch
				found := false
				var walk func(e ast.Expr, sense bool)
				walk = func(e ast.Expr, sense bool) {
					e = unparen(e)
					if be, ok := e.(*ast.BinaryExpr); ok {
						if be.Op == token.LAND && sense {
							walk(be.X, sense)
							walk(be.Y, sense)
							return
						}
						if be.Op == token.LOR && !sense {
							walk(be.X, sense)
							walk(be.Y, sense)
							return
						}
					}
					if u, ok := e.(*ast.UnaryExpr); ok && u.Op == token.NOT {
						walk(u.X, !sense)
						return
					}
					if t, neq := nilTestOf(in, e, target); t && neq == sense {
						found = true
					}
					if id, ok := e.(*ast.Ident); ok && sense {
						if v := objOf(in, id); v != nil && flagFor(v, target) {
							found = true
						}
					}
				}
				walk(cond, inThen)
				return found
			}) != nil
			// `E != nil && *E ...` inside one condition
			if !guarded {
				for cur := p.Parent(st); cur != nil && cur != ast.Node(f.Body); cur = p.Parent(cur) {
					if be, ok := cur.(*ast.BinaryExpr); ok && be.Op == token.LAND && be.Y.Pos() <= st.Pos() && st.End() <= be.Y.End() {
						if exprMentions(be.X, func(m ast.Node) bool {
							e, ok := m.(ast.Expr)
							if !ok {
								return false
							}
							t, neq := nilTestOf(in, e, target)
							return t && neq
						}) {
							guarded = true
						}
					}
					if be, ok := cur.(*ast.BinaryExpr); ok && be.Op == token.LOR && be.Y.Pos() <= st.Pos() && st.End() <= be.Y.End() {
						if exprMentions(be.X, func(m ast.Node) bool {
							e, ok := m.(ast.Expr)
							if !ok {
								return false
							}
							t, neq := nilTestOf(in, e, target)
							return t && !neq
						}) {
							guarded = true
						}
					}
				}
			}
			// assigned a non-nil value on the nil path before the dereference (`if E == nil { E = &x }`)
			if !guarded {
				g := p.Graph(f)
				if spt, ok := g.PointOf(enclosingStmt(p, st)); ok {
					healed := false
					inspectNoLit(f.Body, func(m ast.Node) bool {
						as, ok := m.(*ast.AssignStmt)
						if !ok {
							return true
						}
						for _, l := range as.Lhs {
							if sameRef(in, l, target) {
								if apt, ok := g.PointOf(as); ok && g.Dominates(apt, spt) {
									healed = true
								}
								if enclosingIfWhere(p, as, f.Body, func(cond ast.Expr, inThen bool) bool {
									t, neq := nilTestOf(in, cond, target)
									return t && neq != inThen
								}) != nil {
									healed = true
								}
							}
						}
						return true
					})
					guarded = healed
				}
			}
			c.Check(guarded, f, st, "dereference of "+exprString(st.X)+", which this function compares with nil", what, ifElse(guarded, "under the non-nil outcome of the test", "the dereference at "+p.Pos(st.Pos())+" is reached whatever the nil test of "+exprString(target)+" said"))
			return true
		})
	}
}

func enclosingStmt(p *Prog, n ast.Node) ast.Node {
	for cur := n; cur != nil; cur = p.Parent(cur) {
		if _, ok := cur.(ast.Stmt); ok {
			return cur
		}
	}
	return n
}

// ---- R96, R98 ----

func init() {
	register(&Rule{ID: "R96", Title: "instance data is read when it is used: what a node or token reads from the data locator (variables, items, a task's assembled input) is never kept in a field of the node or token", Min: 3, Run: ruleR96})
	register(&Rule{ID: "R98", Title: "activation ownership: the listening flag of an event node changes only in the node's own goroutine, at the point in mailbox order where the token's request is taken out", Min: 5, Run: ruleR98})
}

// longLived: named types of the engine package whose objects live as long as the instance: nodes (a run method and
// a mailbox) and tokens (type flow).
func longLivedTypes(p *Prog) map[*types.Named]bool {
	out := map[*types.Named]bool{}
	for _, f := range p.Funcs {
		if f.Obj == nil || f.Pkg.PkgPath != pathBpmn || f.Obj.Name() != "run" {
			continue
		}
		if r := recvNamed(f.Obj); r != nil {
			if st, ok := r.Underlying().(*types.Struct); ok {
				for i := 0; i < st.NumFields(); i++ {
					if isMailboxChan(st.Field(i).Type()) {
						out[r] = true
					}
				}
			}
		}
	}
	if pk := p.PkgByShort("bpmn"); pk != nil {
		if tn, ok := pk.Types.Scope().Lookup("flow").(*types.TypeName); ok {
			if n := namedOf(tn.Type()); n != nil {
				out[n] = true
			}
		}
	}
	return out
}

// isLocatorRead: a call that reads instance data: a Clone*/Get*/Find* method of a pkg/data type, or an engine
// function that is handed the flow data locator and returns what it read (FetchTaskDataInput and the like).
func isLocatorRead(in *types.Info, call *ast.CallExpr) bool {
	fn := callee(in, call)
	if fn == nil || fn.Pkg() == nil {
		return false
	}
	sig, _ := fn.Type().(*types.Signature)
	if sig == nil || sig.Results().Len() == 0 {
		return false
	}
	if r := recvNamed(fn); r != nil && r.Obj().Pkg() != nil && r.Obj().Pkg().Path() == pathData {
		n := fn.Name()
		if strings.HasPrefix(n, "Clone") || strings.HasPrefix(n, "GetVariable") || n == "Get" || n == "Value" {
			return true
		}
		return false
	}
	if fn.Pkg().Path() == pathBpmn && sig.Recv() == nil {
		for i := 0; i < sig.Params().Len(); i++ {
			if isNamed(sig.Params().At(i).Type(), pathData, "IFlowDataLocator") {
				return true
			}
		}
	}
	return false
}

func ruleR96(c *Ctx) {
	p := c.P
	what := "variables and data objects change while an instance runs (other tokens write them, the same node is reached again in a loop); a node or token that stores what it once read serves stale data to every later use — the task's properties and headers of the first round, the variables as they were before a sibling branch wrote them"
	ll := longLivedTypes(p)
	if len(ll) == 0 {
		c.Missing("node types", "no node type (run method + mailbox) was found")
		return
	}
	reads := 0
	for _, f := range p.Funcs {
		if f.Pkg.PkgPath != pathBpmn || f.Body == nil || isConstructorLike(f.Root()) {
			continue
		}
		in := info(f)
		// locals of this function (and, for literals, of the enclosing functions) defined from a locator read
		tainted := map[types.Object]bool{}
		scopeBody := f.Root().Body
		for iter := 0; iter < 3; iter++ {
			ast.Inspect(scopeBody, func(n ast.Node) bool {
				mention := func(e ast.Expr) bool {
					return exprMentions(e, func(m ast.Node) bool {
						if cl, ok := m.(*ast.CallExpr); ok && isLocatorRead(in, cl) {
							return true
						}
						if id, ok := m.(*ast.Ident); ok && tainted[objOf(in, id)] {
							return true
						}
						return false
					})
				}
				switch x := n.(type) {
				case *ast.AssignStmt:
					for i, l := range x.Lhs {
						id, ok := unparen(l).(*ast.Ident)
						if !ok {
							continue
						}
						var r ast.Expr
						if len(x.Rhs) == len(x.Lhs) {
							r = x.Rhs[i]
						} else if len(x.Rhs) == 1 {
							r = x.Rhs[0]
						}
						if r != nil && mention(r) {
							if o := objOf(in, id); o != nil {
								if v, ok := o.(*types.Var); ok && !v.IsField() {
									tainted[o] = true
								}
							}
						}
					}
				case *ast.RangeStmt:
					if mention(x.X) {
						for _, e := range []ast.Expr{x.Key, x.Value} {
							if id, ok := e.(*ast.Ident); ok && id.Name != "_" {
								tainted[objOf(in, id)] = true
							}
						}
					}
				}
				return true
			})
		}
		inspectNoLit(f.Body, func(n ast.Node) bool {
			if cl, ok := n.(*ast.CallExpr); ok && isLocatorRead(in, cl) {
				reads++
				c.Ok(f, cl, "read of instance data: "+exprString(cl.Fun), what, "its result is checked below wherever it is stored", false)
			}
			// kept through a method of the field's type: node.cache.Store(k, v), node.list = append(...) is an
			// assignment and handled below
			if cl, ok := n.(*ast.CallExpr); ok {
				if se, ok := unparen(cl.Fun).(*ast.SelectorExpr); ok {
					if fv := fieldOf(in, se.X); fv != nil {
						if fsel, ok := unparen(se.X).(*ast.SelectorExpr); ok {
							if owner := namedOf(in.TypeOf(fsel.X)); owner != nil && ll[owner] {
								for _, a := range cl.Args {
									src := ""
									ast.Inspect(a, func(m ast.Node) bool {
										if c2, ok := m.(*ast.CallExpr); ok && isLocatorRead(in, c2) {
											src = exprString(c2.Fun) + "(...)"
										}
										if id, ok := m.(*ast.Ident); ok && tainted[objOf(in, id)] {
											src = id.Name + " (read from the data locator)"
										}
										return src == ""
									})
									if src != "" {
										c.Bad(f, cl, "instance data kept in field "+owner.Obj().Name()+"."+fv.Name(), what, "handed to "+exprString(cl.Fun)+": "+src)
									}
								}
							}
						}
					}
				}
			}
			as, ok := n.(*ast.AssignStmt)
			if !ok {
				return true
			}
			for i, l := range as.Lhs {
				tgt := unparen(l)
				if ix, ok := tgt.(*ast.IndexExpr); ok {
					tgt = unparen(ix.X)
				}
				fv := fieldOf(in, tgt)
				if fv == nil {
					continue
				}
				sel := tgt.(*ast.SelectorExpr)
				owner := namedOf(in.TypeOf(sel.X))
				if owner == nil || !ll[owner] {
					continue
				}
				var r ast.Expr
				if len(as.Rhs) == len(as.Lhs) {
					r = as.Rhs[i]
				} else if len(as.Rhs) == 1 {
					r = as.Rhs[0]
				}
				if r == nil {
					continue
				}
				src := ""
				ast.Inspect(r, func(m ast.Node) bool {
					if cl, ok := m.(*ast.CallExpr); ok && isLocatorRead(in, cl) {
						src = exprString(cl.Fun) + "(...)"
					}
					if id, ok := m.(*ast.Ident); ok && tainted[objOf(in, id)] {
						src = id.Name + " (read from the data locator)"
					}
					return src == ""
				})
				if src != "" {
					c.Bad(f, as, "instance data kept in field "+owner.Obj().Name()+"."+fv.Name(), what, "the field is assigned from "+src)
				}
			}
			return true
		})
	}
	if reads == 0 {
		c.Missing("reads of instance data", "no read of the data locator was found in the engine package")
	}
}

func ruleR98(c *Ctx) {
	p := c.P
	what := "an event node starts to listen when its goroutine takes the token's request out of the mailbox: events queued before that request are then dropped as 'not listening yet'. A flag flipped by the arriving token itself (in NextAction, before its request is even queued) makes the node process those stale events as if it had been listening — it fires on an event that preceded the token, or consumes it, disarms, and leaves the token deaf"
	ll := longLivedTypes(p)
	inRun := map[*FuncInfo]*types.Named{}
	for _, f := range p.Funcs {
		if f.Obj != nil && f.Obj.Name() == "run" && f.Pkg.PkgPath == pathBpmn {
			if r := recvNamed(f.Obj); r != nil && ll[r] {
				for t := range goroutineTree(p, f) {
					inRun[t] = r
				}
			}
		}
	}
	n := 0
	for _, f := range p.Funcs {
		if f.Pkg.PkgPath != pathBpmn || f.Body == nil {
			continue
		}
		in := info(f)
		inspectNoLit(f.Body, func(nd ast.Node) bool {
			call, ok := nd.(*ast.CallExpr)
			if !ok {
				return true
			}
			fv, m, _ := atomicFieldCall(in, call)
			if fv == nil || (m != "Store" && m != "Swap" && m != "CompareAndSwap") {
				return true
			}
			if !isNamed(fv.Type(), "sync/atomic", "Bool") {
				return true
			}
			sel, ok := unparen(call.Fun).(*ast.SelectorExpr)
			if !ok {
				return true
			}
			fsel, ok := unparen(sel.X).(*ast.SelectorExpr)
			if !ok {
				return true
			}
			owner := namedOf(in.TypeOf(fsel.X))
			if owner == nil || !ll[owner] {
				return true
			}
			if existenceFlags(p)[fv] {
				n++
				c.Ok(f, call, "write of "+owner.Obj().Name()+"."+fv.Name()+" ("+m+")", what, "not a listening flag: set only inside the Once.Do that launches the node's goroutine (it says that the mailbox has an owner)", false)
				return true
			}
			n++
			okSite := inRun[f] == owner || inRun[f.Root()] == owner
			c.Check(okSite, f, call, "write of "+owner.Obj().Name()+"."+fv.Name()+" ("+m+")", what, ifElse(okSite, "in the node's own goroutine", "in "+f.QName()+", which runs in the arriving token's (or a caller's) goroutine"))
			return true
		})
	}
	if n == 0 {
		c.Missing("activation flags", "no write of an atomic.Bool field of a node type was found")
	}
}

// ---- R97, R99, R100, R101 ----

func init() {
	register(&Rule{ID: "R97", Title: "references resolve exactly: an element reference is looked up with an exact-id predicate, never by a partial string match", Min: 5, Run: ruleR97})
	register(&Rule{ID: "R99", Title: "start-all is all: the functions that start an instance hand every declared start (and throw) event to the starter, in a loop over the whole collection — the completion monitor counts on all of them", Min: 3, Run: ruleR99})
	register(&Rule{ID: "R100", Title: "one wake-up channel per waiter: the channel a clock hands out for a due time is created by that call", Min: 3, Run: ruleR100})
	register(&Rule{ID: "R101", Title: "instances have identity: types stored in event.IDefinitionInstance are used through pointers (they are matched with ==)", Min: 2, Run: ruleR101})
}

func ruleR97(c *Ctx) {
	p := c.P
	what := "ids are opaque: `check` and `recheck` are different elements. A reference resolved by suffix, prefix, substring or case-insensitive match finds the first element in document order that happens to match — a fork is then wired to the same flow twice and to another not at all"
	partial := map[string]bool{"HasSuffix": true, "HasPrefix": true, "Contains": true, "EqualFold": true, "Index": true, "ContainsAny": true, "LastIndex": true, "TrimPrefix": true, "TrimSuffix": true}
	n := 0
	for _, f := range p.Funcs {
		if f.Body == nil || !(f.Pkg.PkgPath == pathBpmn || shortPkg(f.Pkg.PkgPath) == "model") {
			continue
		}
		in := info(f)
		inspectNoLit(f.Body, func(nd ast.Node) bool {
			call, ok := nd.(*ast.CallExpr)
			if !ok || len(call.Args) != 1 {
				return true
			}
			fn := callee(in, call)
			if fn == nil || fn.Name() != "FindBy" {
				return true
			}
			n++
			arg := call.Args[0]
			usesExact := func(e ast.Node) bool {
				return mentionsDeep(e, func(m ast.Node) bool {
					cl, ok := m.(*ast.CallExpr)
					if !ok {
						return false
					}
					if g := callee(in, cl); g != nil && g.Name() == "ExactId" {
						return true
					}
					// a local that holds ExactId(...)
					if id, ok := unparen(cl.Fun).(*ast.Ident); ok {
						if o := objOf(in, id); o != nil && isLocalVar(f.Root(), o) {
							defs, _ := localDefs(in, f.Root().Body, o)
							for _, d := range defs {
								if dc, ok := unparen(d).(*ast.CallExpr); ok {
									if g := callee(in, dc); g != nil && g.Name() == "ExactId" {
										return true
									}
								}
							}
						}
					}
					return false
				})
			}
			exact := usesExact(arg)
			if id, ok := unparen(arg).(*ast.Ident); ok && !exact {
				if o := objOf(in, id); o != nil {
					defs, _ := localDefs(in, f.Root().Body, o)
					for _, d := range defs {
						if usesExact(d) {
							exact = true
						}
					}
					if _, isParam := o.(*types.Var); isParam && len(defs) == 0 && !isLocalVar(f.Root(), o) {
						exact = true // the predicate is the caller's business (a parameter)
					}
				}
			}
			bad := ""
			ast.Inspect(arg, func(m ast.Node) bool {
				if cl, ok := m.(*ast.CallExpr); ok {
					if g := callee(in, cl); g != nil && g.Pkg() != nil && g.Pkg().Path() == "strings" && partial[g.Name()] {
						bad = "strings." + g.Name()
					}
				}
				return true
			})
			okAll := exact && bad == ""
			c.Check(okAll, f, call, "predicate of FindBy", what, ifElse(okAll, "identity is decided by schema.ExactId", ifElse(bad != "", "the predicate matches with "+bad, "the predicate does not go through schema.ExactId")))
			return true
		})
	}
	// and ExactId itself compares with ==
	for _, f := range p.Funcs {
		if f.Obj == nil || f.Obj.Name() != "ExactId" || !strings.HasSuffix(f.Pkg.PkgPath, "/schema") {
			continue
		}
		in := info(f)
		eq, other := false, ""
		ast.Inspect(f.Body, func(m ast.Node) bool {
			if be, ok := m.(*ast.BinaryExpr); ok && be.Op == token.EQL {
				if b, ok := in.TypeOf(be.X).Underlying().(*types.Basic); ok && b.Info()&types.IsString != 0 {
					eq = true
				}
			}
			if cl, ok := m.(*ast.CallExpr); ok {
				if g := callee(in, cl); g != nil && g.Pkg() != nil && g.Pkg().Path() == "strings" {
					other = "strings." + g.Name()
				}
			}
			return true
		})
		n++
		c.Check(eq && other == "", f, f.Body, "ExactId compares with ==", what, ifElse(eq && other == "", "string equality", "uses "+other))
	}
	if n == 0 {
		c.Missing("reference resolution", "no FindBy call was found")
	}
}

func ruleR99(c *Ctx) {
	p := c.P
	what := "the completion monitor waits until it has seen a flow from every declared start event (len(StartEvents())); a start-all that triggers only some of them (the first, or up to a break) leaves the monitor waiting for ever: the instance — or the parent token of a sub-process — never continues"
	n := 0
	for _, f := range p.Funcs {
		if f.Pkg.PkgPath != pathBpmn || f.Body == nil {
			continue
		}
		in := info(f)
		collOf := func(e ast.Node) string {
			name := ""
			ast.Inspect(e, func(m ast.Node) bool {
				if cl, ok := m.(*ast.CallExpr); ok {
					if g := callee(in, cl); g != nil && (g.Name() == "StartEvents" || g.Name() == "IntermediateThrowEvents") && len(cl.Args) == 0 {
						name = g.Name()
					}
				}
				if id, ok := m.(*ast.Ident); ok && name == "" {
					if o := objOf(in, id); o != nil && isLocalVar(f.Root(), o) {
						defs, _ := localDefs(in, f.Root().Body, o)
						for _, d := range defs {
							ast.Inspect(d, func(z ast.Node) bool {
								if cl, ok := z.(*ast.CallExpr); ok {
									if g := callee(in, cl); g != nil && (g.Name() == "StartEvents" || g.Name() == "IntermediateThrowEvents") && len(cl.Args) == 0 {
										name = g.Name()
									}
								}
								return true
							})
						}
					}
				}
				return true
			})
			return name
		}
		inspectNoLit(f.Body, func(nd ast.Node) bool {
			call, ok := nd.(*ast.CallExpr)
			if !ok {
				return true
			}
			fn := callee(in, call)
			if fn == nil || !(fn.Name() == "StartWith" || fn.Name() == "startWith") || fn.Pkg() == nil || fn.Pkg().Path() != pathBpmn || len(call.Args) < 2 {
				return true
			}
			coll := collOf(call.Args[1])
			if coll == "" {
				return true
			}
			n++
			var loop elemLoop
			found := false
			for cur := p.Parent(call); cur != nil && cur != ast.Node(f.Body); cur = p.Parent(cur) {
				if l, ok := elementLoop(in, cur); ok {
					var over ast.Node
					switch x := l.Stmt.(type) {
					case *ast.RangeStmt:
						over = x.X
					case *ast.ForStmt:
						over = x.Cond
					}
					if collOf(over) == coll {
						loop, found = l, true
						break
					}
				}
			}
			if !found {
				c.Bad(f, call, "start of an element of "+coll+"()", what, "the call is not inside a loop over the whole "+coll+"() collection: "+exprString(call.Args[1]))
				return true
			}
			skips := ""
			inspectNoLit(loop.Body, func(m ast.Node) bool {
				switch x := m.(type) {
				case *ast.BranchStmt:
					if x.Tok == token.BREAK || x.Tok == token.GOTO {
						skips = x.Tok.String()
					}
				case *ast.ReturnStmt:
					// leaving on an error is fine: the instance does not start at all
					under := enclosingIfWhere(p, x, loop.Body, func(cond ast.Expr, inThen bool) bool {
						be, ok := unparen(cond).(*ast.BinaryExpr)
						return ok && inThen && be.Op == token.NEQ && isNilIdent(be.Y)
					}) != nil
					if !under {
						skips = "return"
					}
				case *ast.ForStmt, *ast.RangeStmt, *ast.SwitchStmt, *ast.SelectStmt, *ast.TypeSwitchStmt:
					return false
				}
				return true
			})
			c.Check(skips == "", f, call, "start of an element of "+coll+"()", what, ifElse(skips == "", "inside a loop over every element of "+coll+"() that is left only on an error", "the loop can be left early ("+skips+")"))
			return true
		})
	}
	if n == 0 {
		c.Missing("start-all", "no StartWith/startWith call fed from StartEvents() was found")
	}
}

func ruleR100(c *Ctx) {
	p := c.P
	what := "the channel carries one value for one waiter; two waiters that are handed the same channel (a pending entry re-used for an equal due time) share one wake-up: one of them fires, the other never does"
	n := 0
	for _, f := range p.Funcs {
		if f.Obj == nil || f.Body == nil || f.Pkg.PkgPath != pathClock {
			continue
		}
		sig := f.Obj.Type().(*types.Signature)
		if sig.Results().Len() != 1 {
			continue
		}
		ch, ok := sig.Results().At(0).Type().Underlying().(*types.Chan)
		if !ok || !isNamed(ch.Elem(), "time", "Time") || sig.Recv() == nil {
			continue
		}
		if f.Obj.Name() != "Until" && f.Obj.Name() != "After" {
			continue
		}
		in := info(f)
		inspectNoLit(f.Body, func(nd ast.Node) bool {
			ret, ok := nd.(*ast.ReturnStmt)
			if !ok || len(ret.Results) != 1 {
				return true
			}
			n++
			r := unparen(ret.Results[0])
			fresh, wit := false, exprString(r)
			switch x := r.(type) {
			case *ast.CallExpr:
				fresh, wit = true, "result of "+exprString(x.Fun)
				if fv := fieldOf(in, x.Fun); fv != nil {
					fresh = false
				}
			case *ast.Ident:
				if o := objOf(in, x); o != nil && isLocalVar(f, o) {
					defs, _ := localDefs(in, f.Body, o)
					fresh = len(defs) > 0
					for _, d := range defs {
						dc, ok := unparen(d).(*ast.CallExpr)
						if !ok || !(isBuiltin(in, dc, "make") || callee(in, dc) != nil) {
							fresh = false
						}
					}
					wit = x.Name + " is a local created in this call"
				}
			}
			c.Check(fresh, f, ret, "channel returned by "+f.Obj.Name(), what, ifElse(fresh, wit, "returns "+exprString(r)+", which is not a channel created by this call"))
			return true
		})
	}
	if n == 0 {
		c.Missing("clock wake-up channels", "no Until/After method returning a time channel was found in pkg/clock")
	}
}

func ruleR101(c *Ctx) {
	p := c.P
	what := "a timer event names the definition instance it fired for and the catch event compares that with its own instance using == on the interface values: with pointer-typed instances that is allocation identity; with a value type it is structural equality, and every instance built from the same element — in another process instance, or twice in one model — is 'the same' and fires together"
	var iface *types.Interface
	if pk := p.ByPath[pathEvent]; pk != nil {
		if tn, ok := pk.Types.Scope().Lookup("IDefinitionInstance").(*types.TypeName); ok {
			iface, _ = tn.Type().Underlying().(*types.Interface)
		}
	}
	if iface == nil {
		c.Missing("IDefinitionInstance", "interface event.IDefinitionInstance was not found")
		return
	}
	// is identity comparison used at all?
	cmp := 0
	for _, f := range p.Funcs {
		if f.Body == nil || !isTargetPkg(p, f.Pkg.PkgPath) {
			continue
		}
		in := info(f)
		ast.Inspect(f.Body, func(m ast.Node) bool {
			if be, ok := m.(*ast.BinaryExpr); ok && (be.Op == token.EQL || be.Op == token.NEQ) {
				if isNamed(in.TypeOf(be.X), pathEvent, "IDefinitionInstance") && isNamed(in.TypeOf(be.Y), pathEvent, "IDefinitionInstance") {
					cmp++
				}
			}
			return true
		})
	}
	if cmp == 0 {
		c.Missing("identity comparison of definition instances", "no == between IDefinitionInstance values was found (the rule has nothing to protect)")
		return
	}
	n := 0
	for _, pk := range p.Target {
		sc := pk.Types.Scope()
		for _, name := range sc.Names() {
			tn, ok := sc.Lookup(name).(*types.TypeName)
			if !ok || tn.IsAlias() {
				continue
			}
			nt, ok := tn.Type().(*types.Named)
			if !ok {
				continue
			}
			if _, isIface := nt.Underlying().(*types.Interface); isIface {
				continue
			}
			if !types.Implements(types.NewPointer(nt), iface) {
				continue
			}
			n++
			valueImpl := types.Implements(nt, iface)
			var at *FuncInfo
			for _, f := range p.Funcs {
				if f.Obj != nil && recvNamed(f.Obj) == nt {
					at = f
					break
				}
			}
			var node ast.Node
			if at != nil {
				node = at.Decl
			}
			c.Check(!valueImpl, at, node, "definition instance type "+shortPkg(pk.PkgPath)+"."+name, what, ifElse(!valueImpl, "only *"+name+" implements IDefinitionInstance (pointer receivers): == is identity", name+" implements IDefinitionInstance with value receivers: == compares contents"))
		}
	}
	if n == 0 {
		c.Missing("definition instance types", "no type implementing IDefinitionInstance was found")
	}
}

// mentionsDeep is exprMentions that also looks into function literals.
func mentionsDeep(e ast.Node, pred func(ast.Node) bool) bool {
	found := false
	ast.Inspect(e, func(m ast.Node) bool {
		if m != nil && pred(m) {
			found = true
		}
		return !found
	})
	return found
}

// ---- R102 .. R106, R108 ----

func init() {
	register(&Rule{ID: "R102", Title: "marshal writes: a MarshalXML method decides whether to write an element by what kind of value it holds (type, nil) and by errors only — never by looking at the value's content", Min: 15, Run: ruleR102})
	register(&Rule{ID: "R103", Title: "writer and reader agree on defaults: a field that the reader pre-sets to a non-zero default before decoding is not elided by the writer when it holds the zero value (omitempty)", Min: 4, Run: ruleR103})
	register(&Rule{ID: "R104", Title: "parsed indices are checked: an index that was parsed from text (strconv) is compared with the length of what it indexes before it is used", Min: 0, Run: ruleR104})
	register(&Rule{ID: "R105", Title: "stored items are replaced, not rewritten: an item that the data locator has stored (and hands out in snapshots) is never mutated in place", Min: 3, Run: ruleR105})
	register(&Rule{ID: "R106", Title: "sibling selection: every function that selects the executable processes of a definitions document applies the same test to isExecutable", Min: 2, Run: ruleR106})
	register(&Rule{ID: "R108", Title: "no shared backing store: a package-level slice or map is not stored into a field of an object (every object that appends to it would write the same memory)", Min: 0, Run: ruleR108})
}

func ruleR102(c *Ctx) {
	p := c.P
	what := "an element that is dropped at marshal time takes its id, its attributes and its extension elements with it: an expression with a blank body is still a condition (formal, with a language and an id), a re-parsed model without it behaves differently"
	n := 0
	for _, f := range p.Funcs {
		if f.Obj == nil || f.Body == nil || f.Obj.Name() != "MarshalXML" || !strings.HasSuffix(f.Pkg.PkgPath, "/schema") {
			continue
		}
		in := info(f)
		isEncode := func(nd ast.Node) bool {
			return mentionsDeep(nd, func(m ast.Node) bool {
				cl, ok := m.(*ast.CallExpr)
				if !ok {
					return false
				}
				fn := callee(in, cl)
				return fn != nil && strings.HasPrefix(fn.Name(), "Encode") && fn.Pkg() != nil && fn.Pkg().Path() == "encoding/xml"
			})
		}
		n++
		var bad []string
		inspectNoLit(f.Body, func(nd ast.Node) bool {
			ret, ok := nd.(*ast.ReturnStmt)
			if !ok {
				return true
			}
			if isEncode(ret) {
				return true
			}
			// is an encode guaranteed before this return? (dominating statement that encodes)
			g := p.Graph(f)
			rpt, okp := g.PointOf(ret)
			dominated := false
			if okp {
				for _, pt := range g.AllPoints() {
					if pt.Node() != ast.Node(ret) && isEncode(pt.Node()) && g.Dominates(pt, rpt) {
						dominated = true
					}
				}
			}
			if dominated {
				return true
			}
			// a return that writes nothing: which conditions lead here?
			for _, cnd := range controlConds(p, f, ret) {
				ce, ok := cnd.(ast.Expr)
				if !ok {
					continue
				}
				onlyKind := true
				var walk func(e ast.Expr)
				walk = func(e ast.Expr) {
					e = unparen(e)
					switch x := e.(type) {
					case *ast.BinaryExpr:
						if x.Op == token.LOR || x.Op == token.LAND {
							walk(x.X)
							walk(x.Y)
							return
						}
						if (x.Op == token.EQL || x.Op == token.NEQ) && (isNilIdent(x.X) || isNilIdent(x.Y)) {
							return
						}
						onlyKind = false
					case *ast.UnaryExpr:
						if x.Op == token.NOT {
							walk(x.X)
							return
						}
						onlyKind = false
					case *ast.Ident:
						// ok-flag of a type assertion or the like
					default:
						onlyKind = false
					}
				}
				walk(ce)
				if !onlyKind {
					bad = append(bad, "return at "+p.Pos(ret.Pos())+" writes nothing under the condition "+exprString(ce))
				}
			}
			return true
		})
		sort.Strings(bad)
		c.Check(len(bad) == 0, f, f.Decl, "paths of MarshalXML that write nothing", what, ifElse(len(bad) == 0, "every return either follows an Encode call or is reached through nil / error / kind tests only", strings.Join(bad, "; ")))
	}
	if n == 0 {
		c.Missing("MarshalXML methods", "no MarshalXML method was found in the schema package")
	}
}

func ruleR103(c *Ctx) {
	p := c.P
	what := "`omitempty` makes the writer drop the Go zero value; when the reader fills the same field with a non-zero default for a missing attribute, the zero value (false, 0, \"\") can no longer be expressed: it is written as 'absent' and read back as the default"
	n := 0
	for _, f := range p.Funcs {
		if f.Obj == nil || f.Body == nil || f.Obj.Name() != "UnmarshalXML" || !strings.HasSuffix(f.Pkg.PkgPath, "/schema") {
			continue
		}
		if strings.Contains(p.Pos(f.Body.Pos()), "_generated") {
			continue
		}
		in := info(f)
		recv := recvNamed(f.Obj)
		if recv == nil {
			continue
		}
		rst, ok := recv.Underlying().(*types.Struct)
		if !ok {
			continue
		}
		n++
		var bad []string
		ast.Inspect(f.Body, func(m ast.Node) bool {
			lit, ok := m.(*ast.CompositeLit)
			if !ok {
				return true
			}
			lt := in.TypeOf(lit)
			if lt == nil || !types.Identical(lt.Underlying(), recv.Underlying()) {
				return true
			}
			for _, el := range lit.Elts {
				kv, ok := el.(*ast.KeyValueExpr)
				if !ok {
					continue
				}
				key, ok := kv.Key.(*ast.Ident)
				if !ok {
					continue
				}
				if tv, ok := in.Types[kv.Value]; ok && tv.Value != nil {
					zero := tv.Value.ExactString()
					if zero == "false" || zero == "0" || zero == `""` {
						continue
					}
				}
				for i := 0; i < rst.NumFields(); i++ {
					if rst.Field(i).Name() == key.Name && strings.Contains(rst.Tag(i), "omitempty") {
						bad = append(bad, key.Name+" is pre-set to "+exprString(kv.Value)+" by the reader and tagged `"+rst.Tag(i)+"`")
					}
				}
			}
			return true
		})
		// pre-sets made by assignment before the decode call
		c.Check(len(bad) == 0, f, f.Decl, "reader defaults of "+recv.Obj().Name(), what, ifElse(len(bad) == 0, "no field with a reader-side non-zero default is omitempty", strings.Join(bad, "; ")))
	}
	if n == 0 {
		c.Missing("UnmarshalXML methods", "no hand-written UnmarshalXML method was found")
	}
}

func ruleR104(c *Ctx) {
	p := c.P
	what := "a path like `$items.7` into a stored list comes from the model; the index parsed out of it can be anything. Used without a comparison against the length it panics in the token's goroutine (index out of range) where the reference should simply resolve to nothing"
	for _, f := range p.Funcs {
		if f.Body == nil || !isTargetPkg(p, f.Pkg.PkgPath) {
			continue
		}
		in := info(f)
		parsed := map[types.Object]bool{}
		inspectNoLit(f.Body, func(m ast.Node) bool {
			as, ok := m.(*ast.AssignStmt)
			if !ok || len(as.Rhs) != 1 {
				return true
			}
			cl, ok := unparen(as.Rhs[0]).(*ast.CallExpr)
			if !ok {
				return true
			}
			fn := callee(in, cl)
			if fn == nil || fn.Pkg() == nil || fn.Pkg().Path() != "strconv" || !(fn.Name() == "Atoi" || strings.HasPrefix(fn.Name(), "Parse")) {
				return true
			}
			if id, ok := unparen(as.Lhs[0]).(*ast.Ident); ok && id.Name != "_" {
				parsed[objOf(in, id)] = true
			}
			return true
		})
		if len(parsed) == 0 {
			continue
		}
		inspectNoLit(f.Body, func(m ast.Node) bool {
			ix, ok := m.(*ast.IndexExpr)
			if !ok {
				return true
			}
			switch in.TypeOf(ix.X).Underlying().(type) {
			case *types.Slice, *types.Array, *types.Basic:
			default:
				return true
			}
			var iv types.Object
			ast.Inspect(ix.Index, func(z ast.Node) bool {
				if id, ok := z.(*ast.Ident); ok && parsed[objOf(in, id)] {
					iv = objOf(in, id)
				}
				return true
			})
			if iv == nil {
				return true
			}
			guarded := enclosingIfWhere(p, ix, f.Body, func(cond ast.Expr, inThen bool) bool {
				hasIdx, hasLen := false, false
				ast.Inspect(cond, func(z ast.Node) bool {
					if id, ok := z.(*ast.Ident); ok && objOf(in, id) == iv {
						hasIdx = true
					}
					if cl, ok := z.(*ast.CallExpr); ok && isBuiltin(in, cl, "len") {
						hasLen = true
					}
					return true
				})
				return hasIdx && hasLen
			}) != nil
			c.Check(guarded, f, ix, "index "+exprString(ix.Index)+" parsed from text", what, ifElse(guarded, "compared with a length first", exprString(ix)+" is evaluated without any comparison of "+iv.Name()+" with a length"))
			return true
		})
	}
}

func ruleR105(c *Ctx) {
	p := c.P
	what := "CloneVariables / GetVariable hand the stored item pointers to readers that use them after the locator's lock is released (a condition being evaluated, an observer's snapshot); that is sound only because a stored item is never written again — SetVariable replaces the map entry with a new item. Rewriting the stored item in place is a data race with every such reader and changes snapshots after they were taken"
	// mutators: pointer-receiver methods of schema item types that assign receiver fields
	mut := map[*types.Func]bool{}
	for _, f := range p.Funcs {
		if f.Obj == nil || f.Body == nil || !strings.HasSuffix(f.Pkg.PkgPath, "/schema") || f.Decl == nil || f.Decl.Recv == nil {
			continue
		}
		sig := f.Obj.Type().(*types.Signature)
		if _, ptr := sig.Recv().Type().(*types.Pointer); !ptr || len(f.Decl.Recv.List[0].Names) == 0 {
			continue
		}
		if strings.Contains(p.Pos(f.Body.Pos()), "_generated") {
			continue
		}
		in := info(f)
		rv := in.Defs[f.Decl.Recv.List[0].Names[0]]
		writes := false
		inspectNoLit(f.Body, func(m ast.Node) bool {
			if as, ok := m.(*ast.AssignStmt); ok {
				for _, l := range as.Lhs {
					if sel, ok := unparen(l).(*ast.SelectorExpr); ok && fieldOf(in, sel) != nil {
						if id := rootIdent(sel.X); id != nil && objOf(in, id) == rv {
							writes = true
						}
					}
				}
			}
			return true
		})
		if writes {
			mut[f.Obj] = true
		}
	}
	n := 0
	for _, f := range p.Funcs {
		if f.Body == nil || f.Pkg.PkgPath != pathData {
			continue
		}
		in := info(f)
		// locals that hold an element of a map field of the receiver
		stored := map[types.Object]string{}
		fromMapField := func(e ast.Expr) string {
			e = unparen(e)
			if ta, ok := e.(*ast.TypeAssertExpr); ok {
				e = unparen(ta.X)
			}
			if ix, ok := e.(*ast.IndexExpr); ok {
				if fv := fieldOf(in, ix.X); fv != nil {
					if _, isMap := fv.Type().Underlying().(*types.Map); isMap {
						return fv.Name()
					}
				}
			}
			return ""
		}
		inspectNoLit(f.Body, func(m ast.Node) bool {
			switch x := m.(type) {
			case *ast.AssignStmt:
				if len(x.Rhs) == 1 {
					if src := fromMapField(x.Rhs[0]); src != "" {
						if id, ok := unparen(x.Lhs[0]).(*ast.Ident); ok && id.Name != "_" {
							stored[objOf(in, id)] = src
						}
					}
				}
			case *ast.RangeStmt:
				if fv := fieldOf(in, x.X); fv != nil {
					if _, isMap := fv.Type().Underlying().(*types.Map); isMap {
						if id, ok := x.Value.(*ast.Ident); ok && id.Name != "_" {
							stored[objOf(in, id)] = fv.Name()
						}
					}
				}
			}
			return true
		})
		inspectNoLit(f.Body, func(m ast.Node) bool {
			switch x := m.(type) {
			case *ast.IndexExpr:
				if src := fromMapField(x); src != "" && x == unparen(x) {
					_ = src
				}
			case *ast.CallExpr:
				fn := callee(in, x)
				if fn == nil {
					return true
				}
				sel, ok := unparen(x.Fun).(*ast.SelectorExpr)
				if !ok {
					return true
				}
				src := ""
				if id, ok := unparen(sel.X).(*ast.Ident); ok {
					src = stored[objOf(in, id)]
				}
				if src == "" {
					src = fromMapField(sel.X)
				}
				if src == "" {
					return true
				}
				n++
				isMut := mut[fn]
				if !isMut {
					// through the interface: any implementation's method of that name that mutates
					for mf := range mut {
						if mf.Name() == fn.Name() {
							if _, isIface := recvUnderlyingInterface(fn); isIface {
								isMut = true
							}
						}
					}
				}
				c.Check(!isMut, f, x, "method called on an item stored in "+src, what, ifElse(!isMut, fn.Name()+" does not write the item", fn.Name()+" rewrites the stored item in place"))
			}
			return true
		})
	}
	if n == 0 {
		c.Missing("uses of stored items", "no method call on an element of a locator map was found in pkg/data")
	}
}

// boolTable evaluates a condition over the two results of IsExecutable().
func evalBool(in *types.Info, e ast.Expr, env map[types.Object]bool) (val, ok bool) {
	e = unparen(e)
	switch x := e.(type) {
	case *ast.Ident:
		if x.Name == "true" {
			return true, true
		}
		if x.Name == "false" {
			return false, true
		}
		v, has := env[objOf(in, x)]
		return v, has
	case *ast.UnaryExpr:
		if x.Op == token.NOT {
			v, ok := evalBool(in, x.X, env)
			return !v, ok
		}
	case *ast.BinaryExpr:
		a, ok1 := evalBool(in, x.X, env)
		b, ok2 := evalBool(in, x.Y, env)
		if !ok1 || !ok2 {
			return false, false
		}
		switch x.Op {
		case token.LAND:
			return a && b, true
		case token.LOR:
			return a || b, true
		case token.EQL:
			return a == b, true
		case token.NEQ:
			return a != b, true
		}
	}
	return false, false
}

func ruleR106(c *Ctx) {
	p := c.P
	what := "Engine.NewProcess and NewProcessSet both pick 'the executable processes' of a document; the same document must mean the same thing to both. If one of them treats a process without the isExecutable attribute (every process but the first of DefinitionBuilder output) differently, definitions that run as a set fail to load as a single process ('multiple executable processes') or vice versa"
	type site struct {
		f     *FuncInfo
		n     ast.Node
		table string
	}
	var sites []site
	for _, f := range p.Funcs {
		if f.Pkg.PkgPath != pathBpmn || f.Body == nil {
			continue
		}
		in := info(f)
		inspectNoLit(f.Body, func(m ast.Node) bool {
			as, ok := m.(*ast.AssignStmt)
			if !ok || len(as.Rhs) != 1 || len(as.Lhs) != 2 {
				return true
			}
			cl, ok := unparen(as.Rhs[0]).(*ast.CallExpr)
			if !ok {
				return true
			}
			fn := callee(in, cl)
			if fn == nil || fn.Name() != "IsExecutable" {
				return true
			}
			able, ok1 := as.Lhs[0].(*ast.Ident)
			pres, ok2 := as.Lhs[1].(*ast.Ident)
			if !ok1 || !ok2 {
				return true
			}
			// the if statement that uses them: the one whose init is this assignment, or the next statement
			var ifs *ast.IfStmt
			if pi, ok := p.Parent(as).(*ast.IfStmt); ok && pi.Init == ast.Stmt(as) {
				ifs = pi
			} else if blk, ok := p.Parent(as).(*ast.BlockStmt); ok {
				for i, st := range blk.List {
					if st == ast.Stmt(as) && i+1 < len(blk.List) {
						ifs, _ = blk.List[i+1].(*ast.IfStmt)
					}
				}
			}
			if ifs == nil {
				sites = append(sites, site{f, as, "?"})
				return true
			}
			tbl := ""
			for _, pv := range []bool{false, true} {
				for _, av := range []bool{false, true} {
					env := map[types.Object]bool{}
					if able.Name != "_" {
						env[objOf(in, able)] = av
					}
					if pres.Name != "_" {
						env[objOf(in, pres)] = pv
					}
					v, ok := evalBool(in, ifs.Cond, env)
					if !ok {
						tbl += "?"
						continue
					}
					tbl += ifElse(v, "1", "0")
				}
			}
			// which branch means "executable" differs between the sites (skip / collect as waiting): the tables
			// are compared up to negation, normalised to start with 0
			if strings.HasPrefix(tbl, "1") {
				tbl = strings.Map(func(r rune) rune {
					switch r {
					case '0':
						return '1'
					case '1':
						return '0'
					}
					return r
				}, tbl)
			}
			sites = append(sites, site{f, ifs, tbl})
			return true
		})
	}
	if len(sites) < 2 {
		c.Missing("executable-process selection", "fewer than two functions that test IsExecutable() were found")
		return
	}
	sort.Slice(sites, func(i, j int) bool { return sites[i].f.QName() < sites[j].f.QName() })
	// majority table (ties: the table of the first site)
	count := map[string]int{}
	for _, s := range sites {
		count[s.table]++
	}
	ref := sites[0].table
	for t, k := range count {
		if k > count[ref] {
			ref = t
		}
	}
	for _, s := range sites {
		all := []string{}
		for _, o := range sites {
			all = append(all, o.f.Root().QName()+"="+o.table)
		}
		ok := s.table == ref && !strings.Contains(s.table, "?")
		if count[ref]*2 == len(sites) && len(count) > 1 {
			ok = false // a tie: nobody is right by majority
		}
		c.Check(ok, s.f, s.n, "selection of executable processes", what, "partition of (present,able) = (0,0)(0,1)(1,0)(1,1) drawn by the test, up to negation: "+strings.Join(all, "; "))
	}
}

func ruleR108(c *Ctx) {
	p := c.P
	what := "a package-level slice with spare capacity (or a map) that a constructor stores into each new object is ONE backing array: the first append of every object writes the same slot, so two catch events — or two process instances — record their partial matches in each other's state"
	for _, f := range p.Funcs {
		if f.Body == nil || !isTargetPkg(p, f.Pkg.PkgPath) {
			continue
		}
		in := info(f)
		pkgContainer := func(e ast.Expr) *types.Var {
			id, ok := unparen(e).(*ast.Ident)
			if !ok {
				return nil
			}
			v, ok := in.Uses[id].(*types.Var)
			if !ok || v.IsField() || v.Pkg() == nil || v.Parent() != v.Pkg().Scope() {
				return nil
			}
			switch v.Type().Underlying().(type) {
			case *types.Slice, *types.Map:
				return v
			}
			return nil
		}
		inspectNoLit(f.Body, func(m ast.Node) bool {
			switch x := m.(type) {
			case *ast.KeyValueExpr:
				if v := pkgContainer(x.Value); v != nil {
					if _, inLit := p.Parent(x).(*ast.CompositeLit); inLit {
						c.Bad(f, x, "package-level "+v.Name()+" stored into a field", what, exprString(x.Key)+": "+v.Name()+" in a composite literal")
					}
				}
			case *ast.AssignStmt:
				for i, l := range x.Lhs {
					if i < len(x.Rhs) && fieldOf(in, l) != nil {
						if v := pkgContainer(x.Rhs[i]); v != nil {
							c.Bad(f, x, "package-level "+v.Name()+" stored into a field", what, exprString(l)+" = "+v.Name())
						}
					}
				}
			}
			return true
		})
	}
	c.Ok(nil, nil, "scan for package-level containers stored into fields", what, "every composite literal and field assignment of the target packages was inspected", false)
}

// ---- R107 ----

func init() {
	register(&Rule{ID: "R107", Title: "snapshot after the last write: a table that copies coordinates out of the layout nodes is filled after every write of those coordinates (what is computed from the table would otherwise describe positions the shapes no longer have)", Min: 1, Run: ruleR107})
}

// fieldWriters: declared functions of pkg (by object) -> set of struct fields they assign (directly; callers add transitivity).
func fieldWritersOf(p *Prog, pkgPath string) map[*types.Func]map[*types.Var]bool {
	out := map[*types.Func]map[*types.Var]bool{}
	for _, f := range p.Funcs {
		if f.Obj == nil || f.Body == nil || f.Pkg.PkgPath != pkgPath {
			continue
		}
		in := info(f)
		set := map[*types.Var]bool{}
		ast.Inspect(f.Body, func(m ast.Node) bool {
			switch x := m.(type) {
			case *ast.AssignStmt:
				for _, l := range x.Lhs {
					if fv := fieldOf(in, l); fv != nil {
						set[fv] = true
					}
				}
			case *ast.IncDecStmt:
				if fv := fieldOf(in, x.X); fv != nil {
					set[fv] = true
				}
			}
			return true
		})
		out[f.Obj] = set
	}
	// one round of transitivity
	for _, f := range p.Funcs {
		if f.Obj == nil || f.Body == nil || f.Pkg.PkgPath != pkgPath {
			continue
		}
		in := info(f)
		ast.Inspect(f.Body, func(m ast.Node) bool {
			if cl, ok := m.(*ast.CallExpr); ok {
				if g := callee(in, cl); g != nil && out[g] != nil && g != f.Obj {
					for fv := range out[g] {
						out[f.Obj][fv] = true
					}
				}
			}
			return true
		})
	}
	return out
}

func ruleR107(c *Ctx) {
	p := c.P
	what := "AutoLayout draws every edge from the bounds table, every shape from the nodes: both have to describe the same rectangles. A pass that moves nodes after the table was filled leaves the edges docked to where the shapes used to be"
	n := 0
	for _, f := range p.Funcs {
		if f.Obj == nil || f.Body == nil || !strings.HasSuffix(f.Pkg.PkgPath, "/schema") || strings.Contains(p.Pos(f.Body.Pos()), "_generated") {
			continue
		}
		in := info(f)
		writers := fieldWritersOf(p, f.Pkg.PkgPath)
		g := p.Graph(f)
		inspectNoLit(f.Body, func(m ast.Node) bool {
			as, ok := m.(*ast.AssignStmt)
			if !ok || len(as.Lhs) != 1 || len(as.Rhs) != 1 {
				return true
			}
			ix, ok := unparen(as.Lhs[0]).(*ast.IndexExpr)
			if !ok {
				return true
			}
			sid, ok := unparen(ix.X).(*ast.Ident)
			if !ok || !isLocalVar(f, objOf(in, sid)) {
				return true
			}
			if _, isMap := in.TypeOf(sid).Underlying().(*types.Map); !isMap {
				return true
			}
			// fields copied
			copied := map[*types.Var]bool{}
			ast.Inspect(as.Rhs[0], func(z ast.Node) bool {
				if sel, ok := z.(*ast.SelectorExpr); ok {
					if fv := fieldOf(in, sel); fv != nil {
						if _, isPtr := in.TypeOf(sel.X).Underlying().(*types.Pointer); isPtr {
							copied[fv] = true
						}
					}
				}
				return true
			})
			if len(copied) < 2 {
				return true
			}
			loop := innermostLoop(p, as)
			if loop == nil {
				return true
			}
			n++
			lpt, okl := g.PointOf(loop)
			var late []string
			inspectNoLit(f.Body, func(z ast.Node) bool {
				if z == nil || (z.Pos() >= loop.Pos() && z.End() <= loop.End()) {
					return true
				}
				st, isStmt := z.(ast.Stmt)
				if !isStmt {
					return true
				}
				writes := ""
				switch x := st.(type) {
				case *ast.AssignStmt:
					for _, l := range x.Lhs {
						if fv := fieldOf(in, l); fv != nil && copied[fv] {
							writes = "assigns " + exprString(l)
						}
					}
					for _, r := range x.Rhs {
						if cl, ok := unparen(r).(*ast.CallExpr); ok {
							if gfn := callee(in, cl); gfn != nil {
								for fv := range writers[gfn] {
									if copied[fv] {
										writes = "calls " + gfn.Name() + ", which writes " + fv.Name()
									}
								}
							}
						}
					}
				case *ast.IncDecStmt:
					if fv := fieldOf(in, x.X); fv != nil && copied[fv] {
						writes = "changes " + exprString(x.X)
					}
				case *ast.ExprStmt:
					if cl, ok := unparen(x.X).(*ast.CallExpr); ok {
						if gfn := callee(in, cl); gfn != nil {
							for fv := range writers[gfn] {
								if copied[fv] {
									writes = "calls " + gfn.Name() + ", which writes " + fv.Name()
								}
							}
						}
					}
				}
				if writes == "" || !okl {
					return true
				}
				if spt, ok := g.PointOf(st); ok {
					after, _ := g.Reaches(lpt, func(q ast.Node) bool { return q == ast.Node(st) }, nil)
					if after && spt != lpt {
						// and the table is read afterwards
						readLater, _ := g.Reaches(spt, func(q ast.Node) bool {
							return q != ast.Node(st) && exprMentions(q, func(w ast.Node) bool {
								id, ok := w.(*ast.Ident)
								return ok && objOf(in, id) == objOf(in, sid)
							})
						}, nil)
						if readLater {
							late = append(late, "the statement at "+p.Pos(st.Pos())+" "+writes+" after "+sid.Name+" was filled, and "+sid.Name+" is read later")
						}
					}
				}
				return true
			})
			sort.Strings(late)
			c.Check(len(late) == 0, f, as, "table "+sid.Name+" copied from node fields", what, ifElse(len(late) == 0, "no write of the copied fields is reachable between the fill loop and the later reads of "+sid.Name, strings.Join(late, "; ")))
			return true
		})
	}
	if n == 0 {
		c.Missing("bounds table", "no local map filled from at least two fields of layout nodes inside a loop was found in the schema builder")
	}
}

// ---- R109 ----

func init() {
	register(&Rule{ID: "R109", Title: "gate width: the counter that gates a join's release is compared (== or >=) with the number of the gateway's incoming flows, not with another quantity", Min: 1, Run: ruleR109})
}

func ruleR109(c *Ctx) {
	p := c.P
	what := "a parallel join releases when one token per incoming flow has arrived; the arrival counter must therefore be measured against len(incoming) — a comparison with the number of outgoing flows, a constant, or with > instead of >= / == releases early, late or never"
	dist := distributorFuncs(p)
	n := 0
	for _, f := range p.Funcs {
		if f.Pkg.PkgPath != pathBpmn || f.Body == nil {
			continue
		}
		in := info(f)
		// does a field derive from len(<x>.incoming)? look at every assignment / composite-literal initialisation of it
		fromIncoming := func(fv *types.Var) (bool, string) {
			ok, seen := false, false
			for _, g := range p.Funcs {
				if g.Pkg != f.Pkg || g.Body == nil {
					continue
				}
				gin := info(g)
				ast.Inspect(g.Body, func(m ast.Node) bool {
					var rhs ast.Expr
					switch x := m.(type) {
					case *ast.KeyValueExpr:
						if id, isId := x.Key.(*ast.Ident); isId && gin.Uses[id] == types.Object(fv) {
							rhs = x.Value
						}
					case *ast.AssignStmt:
						for i, l := range x.Lhs {
							if fieldOf(gin, l) == fv && i < len(x.Rhs) {
								rhs = x.Rhs[i]
							}
						}
					}
					if rhs == nil {
						return true
					}
					seen = true
					// the width IS the number of incoming flows: len(<incoming>) itself, or a local that holds it — not
					// a value computed from it (a helper that maps it to something else decides the width, not the wiring)
					isLenIncoming := func(e ast.Expr) bool {
						cl, isCall := unparen(e).(*ast.CallExpr)
						if !isCall || !isBuiltin(gin, cl, "len") || len(cl.Args) != 1 {
							return false
						}
						av := fieldOf(gin, cl.Args[0])
						return av != nil && strings.Contains(strings.ToLower(av.Name()), "incoming")
					}
					good := isLenIncoming(rhs)
					if id, isId := unparen(rhs).(*ast.Ident); isId && !good {
						if o := objOf(gin, id); o != nil && isLocalVar(g.Root(), o) {
							defs, _ := localDefs(gin, g.Root().Body, o)
							good = len(defs) > 0
							for _, d := range defs {
								if !isLenIncoming(d) {
									good = false
								}
							}
						}
					}
					if good {
						ok = true
					} else {
						ok = false
						seen = true
						return false
					}
					return true
				})
			}
			return ok && seen, fv.Name()
		}
		inspectNoLit(f.Body, func(nd ast.Node) bool {
			call, isCall := nd.(*ast.CallExpr)
			if !isCall {
				return true
			}
			fn := callee(in, call)
			if fn == nil || !dist[fn] {
				return true
			}
			for _, pc := range polarConds(p, call) {
				e := unparen(pc.cond)
				pos := pc.positive
				for {
					if u, isNot := e.(*ast.UnaryExpr); isNot && u.Op == token.NOT {
						e, pos = unparen(u.X), !pos
						continue
					}
					break
				}
				be0, isBin := e.(*ast.BinaryExpr)
				if !isBin {
					continue
				}
				// normalise to the condition under which the release happens
				be := &ast.BinaryExpr{X: be0.X, Y: be0.Y, Op: be0.Op, OpPos: be0.OpPos}
				if !pos {
					neg := map[token.Token]token.Token{token.LSS: token.GEQ, token.GEQ: token.LSS, token.GTR: token.LEQ, token.LEQ: token.GTR, token.EQL: token.NEQ, token.NEQ: token.EQL}
					if o, ok := neg[be.Op]; ok {
						be.Op = o
					}
				}
				// width on the left: swap
				if fieldOf(in, be.X) == nil || func() bool { ok, _ := fromIncoming(fieldOf(in, be.X)); return ok }() {
					sw := map[token.Token]token.Token{token.LSS: token.GTR, token.GTR: token.LSS, token.LEQ: token.GEQ, token.GEQ: token.LEQ, token.EQL: token.EQL, token.NEQ: token.NEQ}
					be.X, be.Y, be.Op = be.Y, be.X, sw[be.Op]
				}
				lv, rv := fieldOf(in, be.X), fieldOf(in, be.Y)
				if lv == nil {
					continue
				}
				if b, isBasic := lv.Type().Underlying().(*types.Basic); !isBasic || b.Info()&types.IsInteger == 0 {
					continue
				}
				// which side is the counter (written with ++ / += in this package), which the width?
				n++
				widthOK, widthName := false, exprString(be.Y)
				if rv != nil {
					widthOK, widthName = fromIncoming(rv)
				} else if cl, isLen := unparen(be.Y).(*ast.CallExpr); isLen && isBuiltin(in, cl, "len") && len(cl.Args) == 1 {
					if av := fieldOf(in, cl.Args[0]); av != nil && strings.Contains(strings.ToLower(av.Name()), "incoming") {
						widthOK = true
					}
				}
				opOK := be.Op == token.EQL || be.Op == token.GEQ
				c.Check(widthOK && opOK, f, be0, "release condition of the join", what, fmt.Sprintf("released when %s %s %s (written %s, %s branch); width derives from len(incoming): %v", exprString(be.X), be.Op, widthName, exprString(be0), ifElse(pc.positive, "taken", "guard / else"), widthOK))
			}
			return true
		})
	}
	if n == 0 {
		c.Missing("join release condition", "no integer comparison controlling a distributor call was found")
	}
}

func cndExpr(n ast.Node) ast.Expr {
	if e, ok := n.(ast.Expr); ok {
		return e
	}
	return nil
}

type polarCond struct {
	cond     ast.Expr
	positive bool
}

// polarConds: the conditions that control node n together with the sense in which they hold at n: the condition of
// an enclosing if (then-branch: positive, else-branch: negative), of an enclosing for loop (positive), and of
// earlier guard clauses `if c { return|continue|break|goto|panic }` in the enclosing blocks (negative).
func polarConds(p *Prog, n ast.Node) []polarCond {
	var out []polarCond
	var child ast.Node = n
	for cur := p.Parent(n); cur != nil; cur = p.Parent(cur) {
		switch x := cur.(type) {
		case *ast.FuncLit, *ast.FuncDecl:
			return out
		case *ast.IfStmt:
			if child == ast.Node(x.Body) {
				out = append(out, polarCond{x.Cond, true})
			} else if x.Else != nil && child == ast.Node(x.Else) {
				out = append(out, polarCond{x.Cond, false})
			}
		case *ast.ForStmt:
			if x.Cond != nil && child == ast.Node(x.Body) {
				out = append(out, polarCond{x.Cond, true})
			}
		case *ast.BlockStmt, *ast.CaseClause, *ast.CommClause:
			var list []ast.Stmt
			switch y := x.(type) {
			case *ast.BlockStmt:
				list = y.List
			case *ast.CaseClause:
				list = y.Body
			case *ast.CommClause:
				list = y.Body
			}
			for _, st := range list {
				if st.End() > child.Pos() {
					break
				}
				if ifs, ok := st.(*ast.IfStmt); ok && ifs.Else == nil && leavesBlock(ifs.Body) {
					out = append(out, polarCond{ifs.Cond, false})
				}
			}
		}
		child = cur
	}
	return out
}

// ---- R110 ----

func init() {
	register(&Rule{ID: "R110", Title: "decisions are made in the node's goroutine: every NextAction posts the token's request into the node's mailbox on every path and never answers the token itself", Min: 10, Run: ruleR110})
}

func ruleR110(c *Ctx) {
	p := c.P
	what := "a node serialises what it decides in its own goroutine (probe and report for a gateway, activation for an event, the request bookkeeping of a task); a NextAction that answers a token directly — a 'fast path' for a seemingly trivial case — bypasses that: the gateway's error report for 'no flow is true' is lost, join counters and activation flags are not updated, and the answer races the node's own"
	n := 0
	for _, f := range p.Funcs {
		if f.Obj == nil || f.Body == nil || f.Pkg.PkgPath != pathBpmn || f.Obj.Name() != "NextAction" || recvNamed(f.Obj) == nil {
			continue
		}
		sig := f.Obj.Type().(*types.Signature)
		if sig.Results().Len() != 1 || !isReplyChan(sig.Results().At(0).Type()) {
			continue
		}
		n++
		in := info(f)
		g := p.Graph(f)
		isPost := func(nd ast.Node) bool {
			found := false
			ast.Inspect(nd, func(m ast.Node) bool {
				if s, ok := m.(*ast.SendStmt); ok && isMailboxChan(in.TypeOf(s.Chan)) {
					found = true
				}
				return !found
			})
			return found
		}
		// a path that observed the cancellation of the token's context leaves without posting: the node's loop may
		// be gone, and the token sees the cancellation in its own select
		isCancel := func(nd ast.Node) bool {
			found := false
			ast.Inspect(nd, func(m ast.Node) bool {
				if u, ok := m.(*ast.UnaryExpr); ok && u.Op == token.ARROW && isCtxDoneCall(in, u.X) {
					found = true
				}
				return !found
			})
			return found
		}
		bad := g.MustPassBeforeExit(g.Entry(), true, func(nd ast.Node) bool { return nd != nil && (isPost(nd) || isCancel(nd)) })
		direct := ""
		ast.Inspect(f.Body, func(m ast.Node) bool {
			if s, ok := m.(*ast.SendStmt); ok && isReplyChan(in.TypeOf(s.Chan)) {
				if _, isAct := in.TypeOf(s.Value).Underlying().(*types.Chan); !isAct {
					direct = p.Pos(s.Pos())
				}
			}
			return true
		})
		ok := len(bad) == 0 && direct == ""
		wit := "every path posts the request into the mailbox (or leaves on the cancellation of its context); no action is sent from NextAction"
		if len(bad) > 0 {
			wit = "a path returns without posting the request: " + witnessLines(g, bad)
		}
		if direct != "" {
			wit += "; NextAction itself sends an action at " + direct
		}
		c.Check(ok, f, f.Decl, "NextAction of "+recvNamed(f.Obj).Obj().Name(), what, wit)
	}
	if n == 0 {
		c.Missing("NextAction implementations", "no method NextAction returning a reply channel was found")
	}
}
