package main

// Rules added after the fourth (held-out) wave of seeded faults (letters e, f in /verif/seeded).
//
//	R88 conditions are evaluated against data read from the locator at evaluation time
//	R89 a store into the object locator is visible to the locator's snapshot
//	R90 the threshold a request counter is compared with agrees with the counter's idle value
//	R91 engine code does not arm timers through the clock's uncancellable After
//	R92 a forked token gets its hooks from the action that forked it
//	R93 an expression's own language wins over the definitions' default
//	R94 a node's goroutine never posts into its own mailbox synchronously

import (
	"fmt"
	"go/ast"
	"go/constant"
	"go/token"
	"go/types"
	"sort"
	"strings"
)

func init() {
	register(&Rule{ID: "R88", Title: "fresh evaluation scope: the data a condition is evaluated against is read from the instance's data locator inside the evaluating call, never taken from a field that caches an earlier read", Min: 1, Run: ruleR88})
	register(&Rule{ID: "R89", Title: "stored data is visible: a Put into the object locator made by engine code writes a table that the locator's snapshot (Clone) reads", Min: 1, Run: ruleR89})
	register(&Rule{ID: "R90", Title: "request-counter threshold: a comparison of an activity's atomic request counter separates 'idle' (the value the start guard installs) from 'request in flight' (one more)", Min: 2, Run: ruleR90})
	register(&Rule{ID: "R91", Title: "cancellable timers: engine code arms timers through IClock.Until (the wait stays in the caller's select); IClock.After, whose host implementation parks a goroutine that no context can reach, is not called", Min: 0, Run: ruleR91})
	register(&Rule{ID: "R92", Title: "hooks of the action: the action transformer and the termination hook of every token created or moved while an action is interpreted are the ones that action carries", Min: 3, Run: ruleR92})
	register(&Rule{ID: "R93", Title: "own language first: the definitions' default expression language is used only for an expression that names none", Min: 1, Run: ruleR93})
	register(&Rule{ID: "R94", Title: "no self-post: the goroutine that drains a node's mailbox never sends into that mailbox itself (it is the only receiver; a full mailbox would park it forever)", Min: 10, Run: ruleR94})
}

// methodOn reports whether call is a call of a method called name whose receiver type is declared in a package
// whose import path ends in pkgSuffix.
func methodOn(in *types.Info, call *ast.CallExpr, pkgSuffix string, names ...string) bool {
	fn := callee(in, call)
	if fn == nil {
		return false
	}
	ok := false
	for _, n := range names {
		if fn.Name() == n {
			ok = true
		}
	}
	if !ok {
		return false
	}
	r := recvNamed(fn)
	return r != nil && r.Obj().Pkg() != nil && strings.HasSuffix(r.Obj().Pkg().Path(), pkgSuffix)
}

// localDefs: every expression assigned to local variable v inside body (`v := e`, `v = e`, `var v = e`).
// indexStores: statements `v[k] = e`.
func localDefs(in *types.Info, body ast.Node, v types.Object) (defs []ast.Expr, indexStores []*ast.AssignStmt) {
	ast.Inspect(body, func(n ast.Node) bool {
		switch x := n.(type) {
		case *ast.AssignStmt:
			for i, l := range x.Lhs {
				if id, ok := unparen(l).(*ast.Ident); ok && objOf(in, id) == v {
					if len(x.Rhs) == len(x.Lhs) {
						defs = append(defs, x.Rhs[i])
					} else if len(x.Rhs) == 1 {
						defs = append(defs, x.Rhs[0])
					}
				}
				if ix, ok := unparen(l).(*ast.IndexExpr); ok {
					if id, ok := unparen(ix.X).(*ast.Ident); ok && objOf(in, id) == v {
						indexStores = append(indexStores, x)
					}
				}
			}
		case *ast.ValueSpec:
			for i, nm := range x.Names {
				if in.Defs[nm] == v && i < len(x.Values) {
					defs = append(defs, x.Values[i])
				}
			}
		}
		return true
	})
	return
}

func isLocalVar(f *FuncInfo, o types.Object) bool {
	v, ok := o.(*types.Var)
	if !ok || v.IsField() {
		return false
	}
	return v.Pos() >= f.Body.Pos() && v.Pos() <= f.Body.End()
}

// mentionsField: e reads a struct field (other than through a call on a data locator).
func mentionsForeignState(in *types.Info, f *FuncInfo, e ast.Expr) string {
	bad := ""
	ast.Inspect(e, func(n ast.Node) bool {
		if bad != "" {
			return false
		}
		switch x := n.(type) {
		case *ast.CallExpr:
			if methodOn(in, x, "pkg/data", "CloneVariables", "CloneItems", "Clone", "GetVariable", "FindIItemAwareLocator") {
				return false // a read of the instance data at this moment
			}
		case *ast.SelectorExpr:
			if fv := fieldOf(in, x); fv != nil {
				bad = "field " + fv.Name()
			}
		case *ast.Ident:
			if o := objOf(in, x); o != nil {
				if v, ok := o.(*types.Var); ok && !v.IsField() && v.Parent() != nil && v.Parent() == v.Pkg().Scope() {
					bad = "package-level variable " + v.Name()
				}
			}
		}
		return true
	})
	return bad
}

func ruleR88(c *Ctx) {
	p := c.P
	what := "tokens of one instance share its variables: a value written by a task on a sibling branch must be seen by the next condition any token evaluates; a snapshot kept in a field of the token (or node) and refreshed only where that token itself writes goes stale as soon as another token writes"
	n := 0
	for _, f := range p.Funcs {
		if f.Pkg.PkgPath != pathBpmn || f.Body == nil {
			continue
		}
		in := info(f)
		inspectNoLit(f.Body, func(nd ast.Node) bool {
			call, ok := nd.(*ast.CallExpr)
			if !ok || !methodOn(in, call, "pkg/expression", "EvaluateExpression") || len(call.Args) < 2 {
				return true
			}
			n++
			arg := unparen(call.Args[1])
			id, isId := arg.(*ast.Ident)
			if !isId {
				if bad := mentionsForeignState(in, f, arg); bad != "" {
					c.Bad(f, call, "data handed to EvaluateExpression", what, "the evaluation data is "+exprString(arg)+" ("+bad+")")
				} else {
					c.Ok(f, call, "data handed to EvaluateExpression", what, "built in place: "+exprString(arg), true)
				}
				return true
			}
			o := objOf(in, id)
			if !isLocalVar(f, o) {
				c.Bad(f, call, "data handed to EvaluateExpression", what, "the evaluation data "+id.Name+" is not a local of the evaluating function")
				return true
			}
			defs, stores := localDefs(in, f.Body, o)
			var problems []string
			fromLocator := false
			for _, d := range defs {
				if bad := mentionsForeignState(in, f, d); bad != "" {
					problems = append(problems, fmt.Sprintf("%s is assigned from %s (%s)", id.Name, exprString(d), bad))
				}
				if exprMentions(d, func(m ast.Node) bool {
					cl, ok := m.(*ast.CallExpr)
					return ok && methodOn(in, cl, "pkg/data", "CloneVariables", "CloneItems", "Clone")
				}) {
					fromLocator = true
				}
			}
			for _, st := range stores {
				// the store sits in a range loop: what is ranged over must be a locator read made here
				var rng *ast.RangeStmt
				for cur := p.Parent(st); cur != nil && cur != ast.Node(f.Body); cur = p.Parent(cur) {
					if r, ok := cur.(*ast.RangeStmt); ok {
						rng = r
						break
					}
				}
				if rng == nil {
					for _, r := range st.Rhs {
						if bad := mentionsForeignState(in, f, r); bad != "" {
							problems = append(problems, fmt.Sprintf("element stored from %s (%s)", exprString(r), bad))
						}
					}
					continue
				}
				src := unparen(rng.X)
				if sid, ok := src.(*ast.Ident); ok && isLocalVar(f, objOf(in, sid)) {
					sdefs, _ := localDefs(in, f.Body, objOf(in, sid))
					okAll := len(sdefs) > 0
					for _, d := range sdefs {
						if mentionsForeignState(in, f, d) != "" || !exprMentions(d, func(m ast.Node) bool {
							cl, ok := m.(*ast.CallExpr)
							return ok && methodOn(in, cl, "pkg/data", "CloneVariables", "CloneItems", "Clone")
						}) {
							okAll = false
						}
					}
					if okAll {
						fromLocator = true
					} else {
						problems = append(problems, "filled by ranging over "+sid.Name+", which is not (only) a locator read made in this call")
					}
					continue
				}
				if bad := mentionsForeignState(in, f, src); bad != "" {
					problems = append(problems, "filled by ranging over "+exprString(src)+" ("+bad+")")
				} else if exprMentions(src, func(m ast.Node) bool {
					cl, ok := m.(*ast.CallExpr)
					return ok && methodOn(in, cl, "pkg/data", "CloneVariables", "CloneItems", "Clone")
				}) {
					fromLocator = true
				}
			}
			if len(problems) == 0 && !fromLocator {
				problems = append(problems, "no read of the data locator (CloneVariables / CloneItems) feeds "+id.Name+" in this function")
			}
			sort.Strings(problems)
			c.Check(len(problems) == 0, f, call, "data handed to EvaluateExpression", what, ifElse(len(problems) == 0, id.Name+" is a local filled from a locator read made in this call", strings.Join(problems, "; ")))
			return true
		})
	}
	if n == 0 {
		c.Missing("condition evaluation", "no call of IEngine.EvaluateExpression was found in the engine package")
	}
}

// ---- R89 ----

// mapsWritten / mapsRead: the map-typed fields of the receiver that method m stores into / ranges over or indexes.
func fieldMapsTouched(p *Prog, m *FuncInfo) (written, read map[*types.Var]bool) {
	written, read = map[*types.Var]bool{}, map[*types.Var]bool{}
	in := info(m)
	ast.Inspect(m.Body, func(n ast.Node) bool {
		switch x := n.(type) {
		case *ast.AssignStmt:
			for _, l := range x.Lhs {
				if ix, ok := unparen(l).(*ast.IndexExpr); ok {
					if fv := fieldOf(in, ix.X); fv != nil {
						written[fv] = true
					}
				}
			}
		case *ast.RangeStmt:
			if fv := fieldOf(in, x.X); fv != nil {
				read[fv] = true
			}
		case *ast.IndexExpr:
			if fv := fieldOf(in, x.X); fv != nil {
				if as, ok := p.Parent(x).(*ast.AssignStmt); ok {
					isL := false
					for _, l := range as.Lhs {
						if unparen(l) == ast.Expr(x) {
							isL = true
						}
					}
					if isL {
						return true
					}
				}
				read[fv] = true
			}
		}
		return true
	})
	return
}

func ruleR89(c *Ctx) {
	p := c.P
	what := "a data output that a task answer stores into the instance's object locator must be part of what CloneItems hands to observers and later tasks; the container keeps several tables (by id, by name, references, properties) and its snapshot reads only some of them — a store into a table the snapshot skips is invisible"
	// the locator implementations: types of pkg/data with Put* methods and a Clone method
	type impl struct {
		clone *FuncInfo
		puts  map[string]*FuncInfo
	}
	impls := map[*types.Named]*impl{}
	for _, f := range p.Funcs {
		if f.Obj == nil || f.Body == nil || f.Pkg.PkgPath != pathData {
			continue
		}
		r := recvNamed(f.Obj)
		if r == nil {
			continue
		}
		if impls[r] == nil {
			impls[r] = &impl{puts: map[string]*FuncInfo{}}
		}
		if f.Obj.Name() == "Clone" {
			impls[r].clone = f
		}
		if strings.HasPrefix(f.Obj.Name(), "Put") {
			impls[r].puts[f.Obj.Name()] = f
		}
	}
	n := 0
	for _, f := range p.Funcs {
		if f.Pkg.PkgPath != pathBpmn || f.Body == nil {
			continue
		}
		in := info(f)
		inspectNoLit(f.Body, func(nd ast.Node) bool {
			call, ok := nd.(*ast.CallExpr)
			if !ok {
				return true
			}
			fn := callee(in, call)
			if fn == nil || !strings.HasPrefix(fn.Name(), "Put") || fn.Pkg() == nil || fn.Pkg().Path() != pathData {
				return true
			}
			if _, isIface := recvUnderlyingInterface(fn); !isIface {
				return true
			}
			// only stores into a locator obtained for the *object* kind matter for CloneItems(LocatorObject); the
			// call goes through the interface, so every implementation that has both the Put and a Clone is checked
			var bad, good []string
			for r, im := range impls {
				put := im.puts[fn.Name()]
				if put == nil || im.clone == nil {
					continue
				}
				w, _ := fieldMapsTouched(p, put)
				_, rd := fieldMapsTouched(p, im.clone)
				if len(w) == 0 {
					continue // a no-op default implementation
				}
				vis := false
				var ws []string
				for fv := range w {
					ws = append(ws, fv.Name())
					if rd[fv] {
						vis = true
					}
				}
				sort.Strings(ws)
				if vis {
					good = append(good, r.Obj().Name()+"."+fn.Name()+" writes "+strings.Join(ws, ",")+", which Clone reads")
				} else {
					bad = append(bad, r.Obj().Name()+"."+fn.Name()+" writes "+strings.Join(ws, ",")+", which "+r.Obj().Name()+".Clone does not read")
				}
			}
			if len(bad)+len(good) == 0 {
				return true
			}
			n++
			sort.Strings(bad)
			sort.Strings(good)
			c.Check(len(bad) == 0, f, call, "store into the item-aware locator via "+fn.Name(), what, ifElse(len(bad) == 0, strings.Join(good, "; "), strings.Join(bad, "; ")))
			return true
		})
	}
	if n == 0 {
		c.Missing("locator store", "no Put* call on an item-aware locator was found in the engine package")
	}
}

// ---- R90 ----

func constInt(in *types.Info, e ast.Expr) (int64, bool) {
	tv, ok := in.Types[e]
	if !ok || tv.Value == nil || tv.Value.Kind() != constant.Int {
		return 0, false
	}
	v, ok := constant.Int64Val(tv.Value)
	return v, ok
}

// atomicFieldCall: X.f.M(args) on an atomic.IntNN field, or atomic.MInt32(&X.f, args).
func atomicFieldCall(in *types.Info, call *ast.CallExpr) (fv *types.Var, method string, args []ast.Expr) {
	fn := callee(in, call)
	if fn == nil || fn.Pkg() == nil || fn.Pkg().Path() != "sync/atomic" {
		return nil, "", nil
	}
	if sel, ok := unparen(call.Fun).(*ast.SelectorExpr); ok {
		if recvNamed(fn) != nil {
			if f := fieldOf(in, sel.X); f != nil {
				return f, fn.Name(), call.Args
			}
			return nil, "", nil
		}
	}
	if len(call.Args) >= 1 {
		if u, ok := unparen(call.Args[0]).(*ast.UnaryExpr); ok && u.Op == token.AND {
			if f := fieldOf(in, u.X); f != nil {
				name := fn.Name()
				for _, suf := range []string{"Int32", "Int64", "Uint32", "Uint64"} {
					name = strings.TrimSuffix(name, suf)
				}
				return f, name, call.Args[1:]
			}
		}
	}
	return nil, "", nil
}

func ruleR90(c *Ctx) {
	p := c.P
	what := "the counter is k when the activity's goroutine runs with no request outstanding (the start guard swaps 0 for k) and k+1.. while a request is in flight (each request adds 1); Cancel has to be refused exactly when a request is in flight — a threshold that is off by one either refuses every cancel (the interrupted activity still issues its request and its normal flow is taken) or honours a cancel while the request is out"
	type ctr struct {
		base    int64
		hasBase bool
		hasAdd  bool
	}
	ctrs := map[*types.Var]*ctr{}
	type cmp struct {
		f    *FuncInfo
		n    *ast.BinaryExpr
		fv   *types.Var
		op   token.Token
		cval int64
	}
	var cmps []cmp
	for _, f := range p.Funcs {
		if f.Pkg.PkgPath != pathBpmn || f.Body == nil {
			continue
		}
		in := info(f)
		ast.Inspect(f.Body, func(nd ast.Node) bool {
			if lit, ok := nd.(*ast.FuncLit); ok && lit != f.Lit {
				return false
			}
			switch x := nd.(type) {
			case *ast.CallExpr:
				fv, m, args := atomicFieldCall(in, x)
				if fv == nil {
					return true
				}
				if ctrs[fv] == nil {
					ctrs[fv] = &ctr{}
				}
				switch m {
				case "CompareAndSwap":
					if len(args) == 2 {
						if o, ok := constInt(in, args[0]); ok && o == 0 {
							if k, ok := constInt(in, args[1]); ok {
								ctrs[fv].base, ctrs[fv].hasBase = k, true
							}
						}
					}
				case "Add":
					if len(args) == 1 {
						if d, ok := constInt(in, args[0]); ok && d == 1 {
							ctrs[fv].hasAdd = true
						}
					}
				}
			case *ast.BinaryExpr:
				switch x.Op {
				case token.GTR, token.GEQ, token.LSS, token.LEQ:
				default:
					return true
				}
				lhs, rhs, op := x.X, x.Y, x.Op
				if _, ok := constInt(in, lhs); ok {
					lhs, rhs = rhs, lhs
					op = map[token.Token]token.Token{token.GTR: token.LSS, token.GEQ: token.LEQ, token.LSS: token.GTR, token.LEQ: token.GEQ}[op]
				}
				cv, ok := constInt(in, rhs)
				if !ok {
					return true
				}
				cl, ok := unparen(lhs).(*ast.CallExpr)
				if !ok {
					return true
				}
				fv, m, _ := atomicFieldCall(in, cl)
				if fv == nil || m != "Load" {
					return true
				}
				cmps = append(cmps, cmp{f, x, fv, op, cv})
			}
			return true
		})
	}
	n := 0
	for _, cm := range cmps {
		ct := ctrs[cm.fv]
		if ct == nil || !ct.hasBase || !ct.hasAdd {
			continue
		}
		n++
		// the boundary the comparison draws: values <= lo are on one side, >= lo+1 on the other
		var lo int64
		switch cm.op {
		case token.GTR, token.LEQ:
			lo = cm.cval
		case token.GEQ, token.LSS:
			lo = cm.cval - 1
		}
		ok := lo == ct.base
		c.Check(ok, cm.f, cm.n, "threshold of request counter "+cm.fv.Name(), what, fmt.Sprintf("%s separates <=%d from >=%d; the start guard installs %d and each request adds 1, so 'request in flight' is >=%d", exprString(cm.n), lo, lo+1, ct.base, ct.base+1))
	}
	if n == 0 {
		c.Missing("request counter threshold", "no ordered comparison of an atomic request counter (CompareAndSwap(0,k) start guard, Add(1) per request) was found")
	}
}

// ---- R91 ----

func ruleR91(c *Ctx) {
	p := c.P
	what := "host.After starts a goroutine that waits out the whole duration and listens to no context: called from the engine, every cancelled instance leaves that goroutine behind until the timer's deadline (minutes to days for a BPMN duration timer); IClock.Until returns a plain timer channel whose wait stays in the caller's select beside ctx.Done"
	for _, f := range p.Funcs {
		if f.Body == nil || !isTargetPkg(p, f.Pkg.PkgPath) || f.Pkg.PkgPath == pathClock {
			continue
		}
		in := info(f)
		inspectNoLit(f.Body, func(nd ast.Node) bool {
			call, ok := nd.(*ast.CallExpr)
			if !ok {
				return true
			}
			fn := callee(in, call)
			if fn == nil || fn.Name() != "After" {
				return true
			}
			r := recvNamed(fn)
			if r == nil || r.Obj().Pkg() == nil || r.Obj().Pkg().Path() != pathClock {
				return true
			}
			c.Bad(f, call, "call of "+r.Obj().Name()+".After", what, "engine code calls the clock's After with "+exprString(call.Args[0]))
			return true
		})
	}
	// the obligation that is always there: the implementation's goroutine really has no done-source (if it gets
	// one, this rule has nothing left to say and reports that instead of passing silently)
	found := false
	for _, f := range p.Funcs {
		if f.Obj == nil || f.Body == nil || f.Pkg.PkgPath != pathClock || f.Obj.Name() != "After" {
			continue
		}
		hasGo := false
		inspectNoLit(f.Body, func(nd ast.Node) bool {
			if _, ok := nd.(*ast.GoStmt); ok {
				hasGo = true
			}
			return true
		})
		if hasGo {
			found = true
			c.Ok(f, f.Body, "After parks a goroutine of its own", what, "the reason for the who-may-call rule: "+f.QName()+" launches a goroutine; callers in the engine packages: none", false)
		}
	}
	_ = found
}

// ---- R92 ----

func ruleR92(c *Ctx) {
	p := c.P
	what := "a gateway decides through the hooks it puts into its flowAction (the event-based gateway's winner-deciding transformer and its withdrawal hook): they apply to the tokens that action creates or moves — passed down from the action, not re-read from the parent token, whose own hooks are only replaced when the parent itself moved"
	fa, _ := flowActionType(p)
	if fa == nil {
		c.Missing("flowAction", "the flowAction type was not found")
		return
	}
	st, _ := fa.Underlying().(*types.Struct)
	hook := map[*types.Var]bool{}
	for i := 0; st != nil && i < st.NumFields(); i++ {
		if _, ok := st.Field(i).Type().Underlying().(*types.Signature); ok {
			hook[st.Field(i)] = true
		}
	}
	if len(hook) == 0 {
		c.Missing("action hooks", "flowAction has no function-typed field")
		return
	}
	flowT := (*types.Named)(nil)
	if pk := p.PkgByShort("bpmn"); pk != nil {
		if tn, ok := pk.Types.Scope().Lookup("flow").(*types.TypeName); ok {
			flowT = namedOf(tn.Type())
		}
	}
	if flowT == nil {
		c.Missing("flow type", "type flow was not found")
		return
	}
	fst, _ := flowT.Underlying().(*types.Struct)
	flowHook := map[*types.Var]bool{}
	for i := 0; fst != nil && i < fst.NumFields(); i++ {
		if _, ok := fst.Field(i).Type().Underlying().(*types.Signature); ok {
			flowHook[fst.Field(i)] = true
		}
	}
	// derivesFromAction: e is a.hook, or a parameter of the enclosing declared function that is bound to a.hook at
	// every call site (depth 2)
	var derives func(f *FuncInfo, e ast.Expr, depth int) (bool, string)
	derives = func(f *FuncInfo, e ast.Expr, depth int) (bool, string) {
		in := info(f)
		e = unparen(e)
		if fv := fieldOf(in, e); fv != nil {
			if hook[fv] {
				return true, "the action's " + fv.Name()
			}
			return false, "field " + fieldName(in, e)
		}
		if isNilIdent(e) {
			return false, "nil"
		}
		id, ok := e.(*ast.Ident)
		if !ok {
			return false, exprString(e)
		}
		o, _ := objOf(in, id).(*types.Var)
		if o == nil {
			return false, id.Name
		}
		root := f.Root()
		// a parameter of the declared root function?
		if root.Decl != nil && depth < 3 {
			idx, k := -1, 0
			for _, fld := range root.Decl.Type.Params.List {
				for _, nm := range fld.Names {
					if info(root).Defs[nm] == types.Object(o) {
						idx = k
					}
					k++
				}
			}
			if idx >= 0 {
				sites, all := 0, true
				why := ""
				for _, g := range p.Funcs {
					if g.Body == nil || g.Pkg != root.Pkg {
						continue
					}
					gin := info(g)
					inspectNoLit(g.Body, func(m ast.Node) bool {
						cl, ok := m.(*ast.CallExpr)
						if !ok || callee(gin, cl) != root.Obj || idx >= len(cl.Args) {
							return true
						}
						sites++
						ok2, w := derives(g, cl.Args[idx], depth+1)
						if !ok2 {
							all = false
							why = "call in " + g.QName() + " passes " + w
						}
						return true
					})
				}
				if sites > 0 && all {
					return true, fmt.Sprintf("parameter %s, bound to the action's hook at all %d call sites", id.Name, sites)
				}
				if sites == 0 {
					return false, "parameter " + id.Name + " of a function that is never called statically"
				}
				return false, why
			}
		}
		// a local: all definitions derive
		if isLocalVar(f, o) || (f.Parent != nil && isLocalVar(f.Root(), o)) {
			defs, _ := localDefs(in, f.Root().Body, o)
			if len(defs) == 0 {
				return false, "local " + id.Name + " without a definition"
			}
			for _, d := range defs {
				if ok, w := derives(f, d, depth+1); !ok {
					return false, w
				}
			}
			return true, "local " + id.Name + " defined from the action's hook"
		}
		return false, id.Name
	}
	n := 0
	for _, f := range p.Funcs {
		if f.Pkg.PkgPath != pathBpmn || f.Body == nil {
			continue
		}
		// only functions in the token goroutine's world: methods of flow and their literals
		if r := f.Root(); r.Obj == nil || recvNamed(r.Obj) != flowT {
			continue
		}
		if isConstructorLike(f.Root()) {
			continue
		}
		in := info(f)
		inspectNoLit(f.Body, func(nd ast.Node) bool {
			switch x := nd.(type) {
			case *ast.AssignStmt:
				for i, l := range x.Lhs {
					fv := fieldOf(in, l)
					if fv == nil || !flowHook[fv] || len(x.Rhs) != len(x.Lhs) {
						continue
					}
					if f.Root().Obj != nil && strings.HasPrefix(f.Root().Obj.Name(), "Set") {
						continue // plain setter used by constructors of listener flows
					}
					n++
					ok, w := derives(f, x.Rhs[i], 0)
					c.Check(ok, f, x, "hook "+fv.Name()+" of a token set while an action is interpreted", what, w)
				}
			case *ast.CallExpr:
				fn := callee(in, x)
				if fn == nil || fn.Name() != "newFlow" || fn.Pkg() == nil || fn.Pkg().Path() != pathBpmn {
					return true
				}
				sig := fn.Type().(*types.Signature)
				for i := 0; i < sig.Params().Len() && i < len(x.Args); i++ {
					if _, ok := sig.Params().At(i).Type().Underlying().(*types.Signature); !ok {
						continue
					}
					n++
					ok, w := derives(f, x.Args[i], 0)
					c.Check(ok, f, x, "hook "+sig.Params().At(i).Name()+" of a forked token", what, w)
				}
			}
			return true
		})
	}
	if n == 0 {
		c.Missing("token hooks", "no assignment of a token's hook fields and no newFlow call was found in the methods of flow")
	}
}

// ---- R93 ----

func ruleR93(c *Ctx) {
	p := c.P
	what := "BPMN lets every formal expression name its language; the definitions' expressionLanguage is only the default. If the default is consulted first (it is never absent: the accessor substitutes XPath) an expression's own language is ignored and the expression is compiled by the wrong engine — an error at best, a different truth value when the text is valid in both"
	n := 0
	for _, f := range p.Funcs {
		if f.Pkg.PkgPath != pathBpmn || f.Body == nil {
			continue
		}
		in := info(f)
		g := p.Graph(f)
		inspectNoLit(f.Body, func(nd ast.Node) bool {
			call, ok := nd.(*ast.CallExpr)
			if !ok {
				return true
			}
			fn := callee(in, call)
			if fn == nil || fn.Name() != "GetEngine" || fn.Pkg() == nil || !strings.HasSuffix(fn.Pkg().Path(), "pkg/expression") || len(call.Args) < 2 {
				return true
			}
			id, ok := unparen(call.Args[1]).(*ast.Ident)
			if !ok {
				return true
			}
			o := objOf(in, id)
			// assignments of the language variable
			type asg struct {
				st        ast.Node
				fromOwn   bool
				fromDeflt bool
			}
			var asgs []asg
			ownPresent := map[types.Object]bool{} // the `present` / pointer results of e.Language()
			ast.Inspect(f.Body, func(m ast.Node) bool {
				if as, ok := m.(*ast.AssignStmt); ok && len(as.Rhs) == 1 {
					if cl, ok := unparen(as.Rhs[0]).(*ast.CallExpr); ok && methodOn(in, cl, "/schema", "Language") {
						for _, l := range as.Lhs {
							if lid, ok := l.(*ast.Ident); ok {
								ownPresent[objOf(in, lid)] = true
							}
						}
					}
				}
				return true
			})
			mentionsOwn := func(e ast.Node) bool {
				return exprMentions(e, func(m ast.Node) bool {
					if cl, ok := m.(*ast.CallExpr); ok && methodOn(in, cl, "/schema", "Language") {
						return true
					}
					if mid, ok := m.(*ast.Ident); ok && ownPresent[objOf(in, mid)] {
						return true
					}
					return false
				})
			}
			mentionsDefault := func(e ast.Node) bool {
				return exprMentions(e, func(m ast.Node) bool {
					cl, ok := m.(*ast.CallExpr)
					return ok && methodOn(in, cl, "/schema", "ExpressionLanguage")
				})
			}
			// locals that hold the default (language := defs.ExpressionLanguage())
			defaultVars := map[types.Object]bool{}
			ast.Inspect(f.Body, func(m ast.Node) bool {
				if as, ok := m.(*ast.AssignStmt); ok && len(as.Rhs) == 1 && mentionsDefault(as.Rhs[0]) {
					for _, l := range as.Lhs {
						if lid, ok := l.(*ast.Ident); ok && objOf(in, lid) != o {
							defaultVars[objOf(in, lid)] = true
						}
					}
				}
				return true
			})
			ast.Inspect(f.Body, func(m ast.Node) bool {
				as, ok := m.(*ast.AssignStmt)
				if !ok {
					return true
				}
				for i, l := range as.Lhs {
					lid, ok := unparen(l).(*ast.Ident)
					if !ok || objOf(in, lid) != o || len(as.Rhs) != len(as.Lhs) {
						continue
					}
					r := as.Rhs[i]
					a := asg{st: as}
					a.fromOwn = mentionsOwn(r)
					a.fromDeflt = mentionsDefault(r) || exprMentions(r, func(z ast.Node) bool {
						zid, ok := z.(*ast.Ident)
						return ok && defaultVars[objOf(in, zid)]
					})
					asgs = append(asgs, a)
				}
				return true
			})
			var own, deflt []asg
			for _, a := range asgs {
				if a.fromOwn {
					own = append(own, a)
				} else if a.fromDeflt {
					deflt = append(deflt, a)
				}
			}
			if len(own) == 0 && len(deflt) == 0 {
				return true
			}
			n++
			if len(own) == 0 {
				c.Bad(f, call, "language handed to GetEngine", what, "the expression's own Language() never reaches "+id.Name)
				return true
			}
			okAll, wit := true, ""
			for _, d := range deflt {
				// (i) under "the expression names no language"
				under := enclosingIfWhere(p, d.st, f.Body, func(cond ast.Expr, inThen bool) bool {
					neg := false
					cnd := unparen(cond)
					if u, ok := cnd.(*ast.UnaryExpr); ok && u.Op == token.NOT {
						neg, cnd = true, unparen(u.X)
					}
					if be, ok := cnd.(*ast.BinaryExpr); ok && (be.Op == token.EQL || be.Op == token.NEQ) && (isNilIdent(be.Y) || isNilIdent(be.X)) {
						other := be.X
						if isNilIdent(be.X) {
							other = be.Y
						}
						if !mentionsOwn(other) {
							return false
						}
						absentInThen := be.Op == token.EQL
						if neg {
							absentInThen = !absentInThen
						}
						return absentInThen == inThen
					}
					if !mentionsOwn(cnd) {
						return false
					}
					// cond is "present": default must be in the else side (or then side of !present)
					presentInThen := !neg
					return presentInThen != inThen
				}) != nil
				if under {
					wit += "default assigned only where the expression names no language; "
					continue
				}
				// (ii) default first, own language overrides afterwards: every own assignment is reachable from the
				// default assignment and the default assignment is not reachable from any own assignment
				dpt, ok1 := g.PointOf(d.st)
				overridden := ok1
				for _, oa := range own {
					opt, ok2 := g.PointOf(oa.st)
					if !ok2 {
						overridden = false
						break
					}
					fwd, _ := g.Reaches(dpt, func(z ast.Node) bool { return z == oa.st }, func(z ast.Node) bool { return false })
					back, _ := g.Reaches(opt, func(z ast.Node) bool { return z == d.st }, func(z ast.Node) bool { return false })
					if !fwd || back {
						overridden = false
					}
				}
				if overridden {
					wit += "default assigned first and overridden by the expression's own language; "
					continue
				}
				okAll = false
				wit += "the default (" + p.Pos(d.st.Pos()) + ") is assigned without testing that the expression names no language, and the expression's own language cannot override it afterwards; "
			}
			c.Check(okAll, f, call, "language handed to GetEngine", what, strings.TrimSuffix(wit, "; "))
			return true
		})
	}
	if n == 0 {
		c.Missing("expression language selection", "no GetEngine call fed by Language()/ExpressionLanguage() was found")
	}
}

// ---- R94 ----

func ruleR94(c *Ctx) {
	p := c.P
	what := "the mailbox has one receiver, the node's own goroutine; a send into it from that goroutine (instead of from a helper goroutine) blocks as soon as the buffer is full — with no receiver left the node is wedged for ever and every token that reaches it is parked"
	n := 0
	for _, f := range p.Funcs {
		if f.Obj == nil || f.Body == nil || f.Obj.Name() != "run" || !isTargetPkg(p, f.Pkg.PkgPath) {
			continue
		}
		r := recvNamed(f.Obj)
		if r == nil {
			continue
		}
		st, ok := r.Underlying().(*types.Struct)
		if !ok {
			continue
		}
		var boxes []*types.Var
		for i := 0; i < st.NumFields(); i++ {
			if isMailboxChan(st.Field(i).Type()) {
				boxes = append(boxes, st.Field(i))
			}
		}
		if len(boxes) == 0 {
			continue
		}
		// does run receive from the mailbox? (then it is the draining goroutine)
		tree := goroutineTree(p, f)
		var sends []ast.Node
		var sendF []*FuncInfo
		for t := range tree {
			in := info(t)
			inspectNoLit(t.Body, func(nd ast.Node) bool {
				if _, isGo := nd.(*ast.GoStmt); isGo {
					return false
				}
				if s, ok := nd.(*ast.SendStmt); ok {
					if fv := fieldOf(in, s.Chan); fv != nil {
						for _, b := range boxes {
							if b == fv {
								// a send that is the comm of a select with default cannot park
								if cc := commClauseOf(p, s); cc != nil {
									if sel, ok := p.Parent(p.Parent(cc)).(*ast.SelectStmt); ok {
										for _, cl := range sel.Body.List {
											if cl.(*ast.CommClause).Comm == nil {
												return true
											}
										}
									}
								}
								sends = append(sends, s)
								sendF = append(sendF, t)
							}
						}
					}
				}
				return true
			})
		}
		n++
		if len(sends) == 0 {
			c.Ok(f, f.Body, "no send into "+r.Obj().Name()+"'s own mailbox from its goroutine", what, fmt.Sprintf("%d functions in the goroutine's synchronous call tree, none sends into %s", len(tree), boxes[0].Name()), true)
			continue
		}
		for i, s := range sends {
			c.Bad(sendF[i], s, "send into "+r.Obj().Name()+"'s own mailbox from its goroutine", what, "synchronous send at "+p.Pos(s.Pos())+" in the run goroutine's call tree (a re-queue has to go through a goroutine of its own)")
		}
	}
	if n == 0 {
		c.Missing("node goroutines", "no run method of a type with a mailbox was found")
	}
}

// ---- R95 ----

func init() {
	register(&Rule{ID: "R95", Title: "tested-then-dereferenced: a pointer field that a function compares with nil is dereferenced only where that test (or a flag set under it) has established that it is not nil", Min: 30, Run: ruleR95})
}

// nilTestOf: cond is `E != nil` (neq=true) or `E == nil` for an E that sameRef's target.
func nilTestOf(in *types.Info, cond ast.Expr, target ast.Expr) (isTest, neq bool) {
	be, ok := unparen(cond).(*ast.BinaryExpr)
	if !ok || (be.Op != token.EQL && be.Op != token.NEQ) {
		return false, false
	}
	var other ast.Expr
	switch {
	case isNilIdent(be.Y):
		other = be.X
	case isNilIdent(be.X):
		other = be.Y
	default:
		return false, false
	}
	if !sameRef(in, other, target) {
		return false, false
	}
	return true, be.Op == token.NEQ
}

func ruleR95(c *Ctx) {
	p := c.P
	what := "a function that asks whether a pointer is nil believes it can be nil; dereferencing the same pointer where the answer is not known contradicts that belief and panics for the absent case (an optional attribute that the document or the builder left out)"
	for _, f := range p.Funcs {
		if f.Body == nil || !(isTargetPkg(p, f.Pkg.PkgPath) || strings.HasSuffix(f.Pkg.PkgPath, "/schema")) {
			continue
		}
		in := info(f)
		// pointer fields compared with nil in this function
		var tested []ast.Expr
		inspectNoLit(f.Body, func(nd ast.Node) bool {
			be, ok := nd.(*ast.BinaryExpr)
			if !ok || (be.Op != token.EQL && be.Op != token.NEQ) {
				return true
			}
			var other ast.Expr
			if isNilIdent(be.Y) {
				other = be.X
			} else if isNilIdent(be.X) {
				other = be.Y
			}
			if other == nil || fieldOf(in, other) == nil {
				return true
			}
			if _, isPtr := in.TypeOf(other).Underlying().(*types.Pointer); !isPtr {
				return true
			}
			tested = append(tested, other)
			return true
		})
		if len(tested) == 0 {
			continue
		}
		// flags that are set to true only under `E != nil`
		flagFor := func(v types.Object, target ast.Expr) bool {
			sets, okAll := 0, true
			inspectNoLit(f.Body, func(nd ast.Node) bool {
				as, ok := nd.(*ast.AssignStmt)
				if !ok {
					return true
				}
				for i, l := range as.Lhs {
					id, ok := unparen(l).(*ast.Ident)
					if !ok || objOf(in, id) != v || i >= len(as.Rhs) {
						continue
					}
					if rid, ok := unparen(as.Rhs[i]).(*ast.Ident); ok && rid.Name == "false" {
						continue
					}
					sets++
					under := enclosingIfWhere(p, as, f.Body, func(cond ast.Expr, inThen bool) bool {
						t, neq := nilTestOf(in, cond, target)
						return t && neq == inThen
					}) != nil
					if !under {
						okAll = false
					}
				}
				return true
			})
			return sets > 0 && okAll
		}
		inspectNoLit(f.Body, func(nd ast.Node) bool {
			st, ok := nd.(*ast.StarExpr)
			if !ok {
				return true
			}
			if _, isType := in.Types[st]; isType && in.Types[st].IsType() {
				return true
			}
			var target ast.Expr
			for _, t := range tested {
				if sameRef(in, st.X, t) {
					target = t
				}
			}
			if target == nil {
				return true
			}
			// a write through the pointer (`*t.F = v`) needs the same guarantee; no distinction
			guarded := enclosingIfWhere(p, st, f.Body, func(cond ast.Expr, inThen bool) bool {
				// conjunctions: E != nil && ... in the then-branch
				found := false
				var walk func(e ast.Expr, sense bool)
				walk = func(e ast.Expr, sense bool) {
					e = unparen(e)
					if be, ok := e.(*ast.BinaryExpr); ok {
						if be.Op == token.LAND && sense {
							walk(be.X, sense)
							walk(be.Y, sense)
							return
						}
						if be.Op == token.LOR && !sense {
							walk(be.X, sense)
							walk(be.Y, sense)
							return
						}
					}
					if u, ok := e.(*ast.UnaryExpr); ok && u.Op == token.NOT {
						walk(u.X, !sense)
						return
					}
					if t, neq := nilTestOf(in, e, target); t && neq == sense {
						found = true
					}
					if id, ok := e.(*ast.Ident); ok && sense {
						if v := objOf(in, id); v != nil && flagFor(v, target) {
							found = true
						}
					}
				}
				walk(cond, inThen)
				return found
			}) != nil
			// `E != nil && *E ...` inside one condition
			if !guarded {
				for cur := p.Parent(st); cur != nil && cur != ast.Node(f.Body); cur = p.Parent(cur) {
					if be, ok := cur.(*ast.BinaryExpr); ok && be.Op == token.LAND && be.Y.Pos() <= st.Pos() && st.End() <= be.Y.End() {
						if exprMentions(be.X, func(m ast.Node) bool {
							e, ok := m.(ast.Expr)
							if !ok {
								return false
							}
							t, neq := nilTestOf(in, e, target)
							return t && neq
						}) {
							guarded = true
						}
					}
					if be, ok := cur.(*ast.BinaryExpr); ok && be.Op == token.LOR && be.Y.Pos() <= st.Pos() && st.End() <= be.Y.End() {
						if exprMentions(be.X, func(m ast.Node) bool {
							e, ok := m.(ast.Expr)
							if !ok {
								return false
							}
							t, neq := nilTestOf(in, e, target)
							return t && !neq
						}) {
							guarded = true
						}
					}
				}
			}
			// assigned a non-nil value on the nil path before the dereference (`if E == nil { E = &x }`)
			if !guarded {
				g := p.Graph(f)
				if spt, ok := g.PointOf(enclosingStmt(p, st)); ok {
					healed := false
					inspectNoLit(f.Body, func(m ast.Node) bool {
						as, ok := m.(*ast.AssignStmt)
						if !ok {
							return true
						}
						for _, l := range as.Lhs {
							if sameRef(in, l, target) {
								if apt, ok := g.PointOf(as); ok && g.Dominates(apt, spt) {
									healed = true
								}
								if enclosingIfWhere(p, as, f.Body, func(cond ast.Expr, inThen bool) bool {
									t, neq := nilTestOf(in, cond, target)
									return t && neq != inThen
								}) != nil {
									healed = true
								}
							}
						}
						return true
					})
					guarded = healed
				}
			}
			c.Check(guarded, f, st, "dereference of "+exprString(st.X)+", which this function compares with nil", what, ifElse(guarded, "under the non-nil outcome of the test", "the dereference at "+p.Pos(st.Pos())+" is reached whatever the nil test of "+exprString(target)+" said"))
			return true
		})
	}
}

func enclosingStmt(p *Prog, n ast.Node) ast.Node {
	for cur := n; cur != nil; cur = p.Parent(cur) {
		if _, ok := cur.(ast.Stmt); ok {
			return cur
		}
	}
	return n
}

// ---- R96, R98 ----

func init() {
	register(&Rule{ID: "R96", Title: "instance data is read when it is used: what a node or token reads from the data locator (variables, items, a task's assembled input) is never kept in a field of the node or token", Min: 3, Run: ruleR96})
	register(&Rule{ID: "R98", Title: "activation ownership: the listening flag of an event node changes only in the node's own goroutine, at the point in mailbox order where the token's request is taken out", Min: 5, Run: ruleR98})
}

// longLived: named types of the engine package whose objects live as long as the instance: nodes (a run method and
// a mailbox) and tokens (type flow).
func longLivedTypes(p *Prog) map[*types.Named]bool {
	out := map[*types.Named]bool{}
	for _, f := range p.Funcs {
		if f.Obj == nil || f.Pkg.PkgPath != pathBpmn || f.Obj.Name() != "run" {
			continue
		}
		if r := recvNamed(f.Obj); r != nil {
			if st, ok := r.Underlying().(*types.Struct); ok {
				for i := 0; i < st.NumFields(); i++ {
					if isMailboxChan(st.Field(i).Type()) {
						out[r] = true
					}
				}
			}
		}
	}
	if pk := p.PkgByShort("bpmn"); pk != nil {
		if tn, ok := pk.Types.Scope().Lookup("flow").(*types.TypeName); ok {
			if n := namedOf(tn.Type()); n != nil {
				out[n] = true
			}
		}
	}
	return out
}

// isLocatorRead: a call that reads instance data: a Clone*/Get*/Find* method of a pkg/data type, or an engine
// function that is handed the flow data locator and returns what it read (FetchTaskDataInput and the like).
func isLocatorRead(in *types.Info, call *ast.CallExpr) bool {
	fn := callee(in, call)
	if fn == nil || fn.Pkg() == nil {
		return false
	}
	sig, _ := fn.Type().(*types.Signature)
	if sig == nil || sig.Results().Len() == 0 {
		return false
	}
	if r := recvNamed(fn); r != nil && r.Obj().Pkg() != nil && r.Obj().Pkg().Path() == pathData {
		n := fn.Name()
		if strings.HasPrefix(n, "Clone") || strings.HasPrefix(n, "GetVariable") || n == "Get" || n == "Value" {
			return true
		}
		return false
	}
	if fn.Pkg().Path() == pathBpmn && sig.Recv() == nil {
		for i := 0; i < sig.Params().Len(); i++ {
			if isNamed(sig.Params().At(i).Type(), pathData, "IFlowDataLocator") {
				return true
			}
		}
	}
	return false
}

func ruleR96(c *Ctx) {
	p := c.P
	what := "variables and data objects change while an instance runs (other tokens write them, the same node is reached again in a loop); a node or token that stores what it once read serves stale data to every later use — the task's properties and headers of the first round, the variables as they were before a sibling branch wrote them"
	ll := longLivedTypes(p)
	if len(ll) == 0 {
		c.Missing("node types", "no node type (run method + mailbox) was found")
		return
	}
	reads := 0
	for _, f := range p.Funcs {
		if f.Pkg.PkgPath != pathBpmn || f.Body == nil || isConstructorLike(f.Root()) {
			continue
		}
		in := info(f)
		// locals of this function (and, for literals, of the enclosing functions) defined from a locator read
		tainted := map[types.Object]bool{}
		scopeBody := f.Root().Body
		for iter := 0; iter < 3; iter++ {
			ast.Inspect(scopeBody, func(n ast.Node) bool {
				mention := func(e ast.Expr) bool {
					return exprMentions(e, func(m ast.Node) bool {
						if cl, ok := m.(*ast.CallExpr); ok && isLocatorRead(in, cl) {
							return true
						}
						if id, ok := m.(*ast.Ident); ok && tainted[objOf(in, id)] {
							return true
						}
						return false
					})
				}
				switch x := n.(type) {
				case *ast.AssignStmt:
					for i, l := range x.Lhs {
						id, ok := unparen(l).(*ast.Ident)
						if !ok {
							continue
						}
						var r ast.Expr
						if len(x.Rhs) == len(x.Lhs) {
							r = x.Rhs[i]
						} else if len(x.Rhs) == 1 {
							r = x.Rhs[0]
						}
						if r != nil && mention(r) {
							if o := objOf(in, id); o != nil {
								if v, ok := o.(*types.Var); ok && !v.IsField() {
									tainted[o] = true
								}
							}
						}
					}
				case *ast.RangeStmt:
					if mention(x.X) {
						for _, e := range []ast.Expr{x.Key, x.Value} {
							if id, ok := e.(*ast.Ident); ok && id.Name != "_" {
								tainted[objOf(in, id)] = true
							}
						}
					}
				}
				return true
			})
		}
		inspectNoLit(f.Body, func(n ast.Node) bool {
			if cl, ok := n.(*ast.CallExpr); ok && isLocatorRead(in, cl) {
				reads++
				c.Ok(f, cl, "read of instance data: "+exprString(cl.Fun), what, "its result is checked below wherever it is stored", false)
			}
			as, ok := n.(*ast.AssignStmt)
			if !ok {
				return true
			}
			for i, l := range as.Lhs {
				tgt := unparen(l)
				if ix, ok := tgt.(*ast.IndexExpr); ok {
					tgt = unparen(ix.X)
				}
				fv := fieldOf(in, tgt)
				if fv == nil {
					continue
				}
				sel := tgt.(*ast.SelectorExpr)
				owner := namedOf(in.TypeOf(sel.X))
				if owner == nil || !ll[owner] {
					continue
				}
				var r ast.Expr
				if len(as.Rhs) == len(as.Lhs) {
					r = as.Rhs[i]
				} else if len(as.Rhs) == 1 {
					r = as.Rhs[0]
				}
				if r == nil {
					continue
				}
				src := ""
				ast.Inspect(r, func(m ast.Node) bool {
					if cl, ok := m.(*ast.CallExpr); ok && isLocatorRead(in, cl) {
						src = exprString(cl.Fun) + "(...)"
					}
					if id, ok := m.(*ast.Ident); ok && tainted[objOf(in, id)] {
						src = id.Name + " (read from the data locator)"
					}
					return src == ""
				})
				if src != "" {
					c.Bad(f, as, "instance data kept in field "+owner.Obj().Name()+"."+fv.Name(), what, "the field is assigned from "+src)
				}
			}
			return true
		})
	}
	if reads == 0 {
		c.Missing("reads of instance data", "no read of the data locator was found in the engine package")
	}
}

func ruleR98(c *Ctx) {
	p := c.P
	what := "an event node starts to listen when its goroutine takes the token's request out of the mailbox: events queued before that request are then dropped as 'not listening yet'. A flag flipped by the arriving token itself (in NextAction, before its request is even queued) makes the node process those stale events as if it had been listening — it fires on an event that preceded the token, or consumes it, disarms, and leaves the token deaf"
	ll := longLivedTypes(p)
	inRun := map[*FuncInfo]*types.Named{}
	for _, f := range p.Funcs {
		if f.Obj != nil && f.Obj.Name() == "run" && f.Pkg.PkgPath == pathBpmn {
			if r := recvNamed(f.Obj); r != nil && ll[r] {
				for t := range goroutineTree(p, f) {
					inRun[t] = r
				}
			}
		}
	}
	n := 0
	for _, f := range p.Funcs {
		if f.Pkg.PkgPath != pathBpmn || f.Body == nil {
			continue
		}
		in := info(f)
		inspectNoLit(f.Body, func(nd ast.Node) bool {
			call, ok := nd.(*ast.CallExpr)
			if !ok {
				return true
			}
			fv, m, _ := atomicFieldCall(in, call)
			if fv == nil || (m != "Store" && m != "Swap" && m != "CompareAndSwap") {
				return true
			}
			if !isNamed(fv.Type(), "sync/atomic", "Bool") {
				return true
			}
			sel, ok := unparen(call.Fun).(*ast.SelectorExpr)
			if !ok {
				return true
			}
			fsel, ok := unparen(sel.X).(*ast.SelectorExpr)
			if !ok {
				return true
			}
			owner := namedOf(in.TypeOf(fsel.X))
			if owner == nil || !ll[owner] {
				return true
			}
			n++
			okSite := inRun[f] == owner || inRun[f.Root()] == owner
			c.Check(okSite, f, call, "write of "+owner.Obj().Name()+"."+fv.Name()+" ("+m+")", what, ifElse(okSite, "in the node's own goroutine", "in "+f.QName()+", which runs in the arriving token's (or a caller's) goroutine"))
			return true
		})
	}
	if n == 0 {
		c.Missing("activation flags", "no write of an atomic.Bool field of a node type was found")
	}
}
