package main

// Pairing rules: R1 wait-group, R17 sender handle, R19 subscription.

import (
	"fmt"
	"go/ast"
	"go/types"
	"strings"
)

func init() {
	register(&Rule{ID: "R1", Title: "wg-pair: WaitGroup.Add before go is matched by exactly one Done on every exit of the goroutine", Min: 3, Run: ruleR1})
	register(&Rule{ID: "R17", Title: "sender-pair: every RegisterSender handle reaches one goroutine that calls Done on all exits", Min: 10, Run: ruleR17})
	register(&Rule{ID: "R19", Title: "subscription-pair: every Subscribe is Unsubscribed on all exits of its owner", Min: 4, Run: ruleR19})
}

// callsIn lists calls at the top level of a CFG node (no nested literals).
func callsIn(n ast.Node) []*ast.CallExpr {
	var out []*ast.CallExpr
	if n == nil {
		return nil
	}
	inspectNoLit(n, func(m ast.Node) bool {
		if c, ok := m.(*ast.CallExpr); ok {
			out = append(out, c)
		}
		return true
	})
	return out
}

// nodeHasCall reports whether CFG node n contains a call satisfying pred. A
// defer statement counts through its deferred call; a deferred *literal*
// counts if the literal's body contains such a call at its top level.
func nodeHasCall(p *Prog, n ast.Node, pred func(*ast.CallExpr) bool) bool {
	if n == nil {
		return false
	}
	if d, ok := n.(*ast.DeferStmt); ok {
		if pred(d.Call) {
			return true
		}
		if lit, ok := unparen(d.Call.Fun).(*ast.FuncLit); ok {
			found := false
			inspectNoLit(lit.Body, func(m ast.Node) bool {
				if c, ok := m.(*ast.CallExpr); ok && pred(c) {
					found = true
				}
				return !found
			})
			return found
		}
		return false
	}
	if _, ok := n.(*ast.GoStmt); ok {
		return false
	}
	for _, c := range callsIn(n) {
		if pred(c) {
			return true
		}
	}
	return false
}

// releasesVar: CFG node n of function f releases the tracked variable tv — directly (rel) or by
// handing it to a same-package function that releases its parameter on every exit (depth <= 2).
func releasesVar(p *Prog, f *FuncInfo, n ast.Node, tv *types.Var, rel func(fi *FuncInfo, call *ast.CallExpr, v *types.Var) bool, depth int) bool {
	if n == nil || tv == nil {
		return false
	}
	if nodeHasCall(p, n, func(call *ast.CallExpr) bool { return rel(f, call, tv) }) {
		return true
	}
	if depth >= 2 {
		return false
	}
	if _, isGo := n.(*ast.GoStmt); isGo {
		return false
	}
	in := info(f)
	var calls []*ast.CallExpr
	if d, ok := n.(*ast.DeferStmt); ok {
		calls = []*ast.CallExpr{d.Call}
	} else {
		calls = callsIn(n)
	}
	for _, call := range calls {
		fn := callee(in, call)
		cf := p.byObj[fn]
		if cf == nil || fn == nil {
			continue
		}
		if _, isIface := recvUnderlyingInterface(fn); isIface {
			continue
		}
		for i, a := range call.Args {
			id, ok := unparen(a).(*ast.Ident)
			if !ok || objOf(in, id) != types.Object(tv) {
				continue
			}
			pv := paramAt(cf, i)
			if pv == nil {
				continue
			}
			g := p.Graph(cf)
			bad := g.MustPassBeforeExit(g.Entry(), true, func(m ast.Node) bool { return releasesVar(p, cf, m, pv, rel, depth+1) })
			if len(bad) == 0 {
				return true
			}
		}
	}
	return false
}

func witnessLines(g *Graph, paths [][]Point) string {
	var parts []string
	for _, w := range paths {
		ls := g.Lines(w)
		strs := make([]string, len(ls))
		for i, l := range ls {
			strs[i] = fmt.Sprint(l)
		}
		parts = append(parts, "path lines "+strings.Join(strs, ">"))
	}
	return strings.Join(parts, "; ")
}

// exactlyOnceOnAllExits checks, in root, that a call satisfying pred runs on
// every path from `from` to exit, and never twice on one path.
func exactlyOnceOnAllExits(p *Prog, root *FuncInfo, from Point, inclusive bool, pred func(*ast.CallExpr) bool) (ok bool, witness string) {
	g := p.Graph(root)
	has := func(n ast.Node) bool { return nodeHasCall(p, n, pred) }
	bad := g.MustPassBeforeExit(from, inclusive, has)
	if len(bad) > 0 {
		return false, "exit reached without the release: " + witnessLines(g, bad)
	}
	// at most once: count defers + reachability between plain calls
	var deferPts, plainPts []Point
	for _, pt := range g.AllPoints() {
		n := pt.Node()
		if !has(n) {
			continue
		}
		if _, isDefer := n.(*ast.DeferStmt); isDefer {
			deferPts = append(deferPts, pt)
		} else {
			plainPts = append(plainPts, pt)
		}
	}
	if len(deferPts) > 1 {
		return false, fmt.Sprintf("%d deferred releases", len(deferPts))
	}
	if len(deferPts) == 1 && len(plainPts) > 0 {
		for _, pp := range plainPts {
			if g.Dominates(deferPts[0], pp) {
				return false, "explicit release at line " + fmt.Sprint(g.Lines([]Point{pp})) + " in addition to the deferred one"
			}
			if r, _ := g.Reaches(pp, func(n ast.Node) bool { return n == deferPts[0].Node() }, nil); r {
				return false, "explicit release followed by a deferred one"
			}
		}
	}
	for _, pp := range plainPts {
		if r, w := g.Reaches(pp, func(n ast.Node) bool { return has(n) }, nil); r {
			return false, "release can run twice on one path: " + witnessLines(g, [][]Point{w})
		}
	}
	if len(deferPts) == 1 {
		return true, "deferred at line " + fmt.Sprint(g.Lines(deferPts)[0]) + ", on every exit"
	}
	return true, fmt.Sprintf("explicit release on each of the exits (%d release sites), no path with two", len(plainPts))
}

func isWGMethod(in *types.Info, call *ast.CallExpr, name string) (ast.Expr, bool) {
	if !isSyncMethod(in, call, "WaitGroup", name) {
		return nil, false
	}
	sel, ok := unparen(call.Fun).(*ast.SelectorExpr)
	if !ok {
		return nil, false
	}
	return sel.X, true
}

func ruleR1(c *Ctx) {
	p := c.P
	ce := chanEngine(p)
	rootsWithAdd := map[*FuncInfo]bool{}
	for _, l := range ce.Launches() {
		F := l.Site.Func
		in := info(F)
		g := p.Graph(F)
		gpt, ok := g.PointOf(l.Site.Stmt)
		if !ok {
			continue
		}
		// nearest dominating Add with no go statement in between
		var addPt Point
		var addX ast.Expr
		found := false
		for _, pt := range g.AllPoints() {
			n := pt.Node()
			if _, isGo := n.(*ast.GoStmt); isGo {
				continue
			}
			for _, call := range callsIn(n) {
				if x, ok := isWGMethod(in, call, "Add"); ok && g.Dominates(pt, gpt) && pt != gpt {
					if !found || g.Dominates(addPt, pt) {
						addPt, addX, found = pt, x, true
					}
				}
			}
		}
		if !found {
			continue
		}
		// another go between the Add and this go?
		between := false
		for _, pt := range g.AllPoints() {
			if _, isGo := pt.Node().(*ast.GoStmt); isGo && pt != gpt && g.Dominates(addPt, pt) && g.Dominates(pt, gpt) {
				between = true
			}
		}
		if between {
			continue
		}
		desc := "go after " + typeDesc(in, addX) + ".Add"
		if l.Root == nil {
			c.Bad(F, l.Site.Stmt, desc, "goroutine launched after WaitGroup.Add must be resolvable to a body that calls Done", "goroutine root unresolved")
			continue
		}
		rootsWithAdd[l.Root] = true
		wv := l.boundVar(addX)
		rin := info(l.Root)
		pred := func(call *ast.CallExpr) bool {
			x, ok := isWGMethod(rin, call, "Done")
			if !ok {
				return false
			}
			if l.Root.Lit != nil && sameRef(rin, x, addX) {
				return true
			}
			if wv != nil {
				if v, ok := objOf(rin, x).(*types.Var); ok && v == wv {
					return true
				}
			}
			return false
		}
		ok2, wit := exactlyOnceOnAllExits(p, l.Root, p.Graph(l.Root).Entry(), true, pred)
		c.Check(ok2, F, l.Site.Stmt, desc,
			fmt.Sprintf("goroutine %s started after %s.Add must call Done exactly once on every exit", l.Root.QName(), exprString(addX)), wit)
	}
	// converse: a goroutine root that calls WaitGroup.Done must have been counted before its go
	for _, l := range ce.Launches() {
		if l.Root == nil || rootsWithAdd[l.Root] {
			continue
		}
		rin := info(l.Root)
		var doneCall *ast.CallExpr
		inspectNoLit(l.Root.Body, func(m ast.Node) bool {
			if call, ok := m.(*ast.CallExpr); ok {
				if _, ok := isWGMethod(rin, call, "Done"); ok {
					doneCall = call
				}
			}
			return true
		})
		if doneCall != nil {
			c.Bad(l.Site.Func, l.Site.Stmt, "go of body calling WaitGroup.Done", "a goroutine that calls WaitGroup.Done must be counted by an Add that dominates its go statement", "no dominating Add before go at "+p.Pos(l.Site.Stmt.Pos()))
		}
	}
}

func typeDesc(in *types.Info, e ast.Expr) string {
	if f := fieldName(in, e); f != "" {
		return f
	}
	return typeString(in.TypeOf(e))
}

func ruleR17(c *Ctx) {
	p := c.P
	ce := chanEngine(p)
	launches := ce.Launches()
	for _, f := range p.Funcs {
		in := info(f)
		if f.Obj != nil && isMethod(f.Obj, pathTracing, "RegisterSender") {
			continue
		}
		inspectNoLit(f.Body, func(m ast.Node) bool {
			call, ok := m.(*ast.CallExpr)
			if !ok || !isTracerMethod(in, call, "RegisterSender") {
				return true
			}
			sel := unparen(call.Fun).(*ast.SelectorExpr)
			desc := "RegisterSender on " + typeDesc(in, sel.X)
			// handle variable
			var hv *types.Var
			if as, ok := p.Parent(call).(*ast.AssignStmt); ok && len(as.Lhs) == 1 {
				if id, ok := as.Lhs[0].(*ast.Ident); ok {
					hv, _ = objOf(in, id).(*types.Var)
				}
			}
			if hv == nil {
				c.Bad(f, call, desc, "sender handle must be kept in a variable that is handed to one goroutine", "handle is not assigned to a local variable")
				return true
			}
			g := p.Graph(f)
			rpt, _ := g.PointOf(call)
			var users []*Launch
			for _, l := range launches {
				if l.Site.Func != f {
					continue
				}
				uses := false
				for _, a := range l.Site.Stmt.Call.Args {
					if id, ok := unparen(a).(*ast.Ident); ok && objOf(in, id) == types.Object(hv) {
						uses = true
					}
				}
				if l.Root != nil && l.Root.Lit != nil && l.Root.Parent == f {
					ast.Inspect(l.Root.Body, func(x ast.Node) bool {
						if id, ok := x.(*ast.Ident); ok && in.Uses[id] == types.Object(hv) {
							uses = true
						}
						return true
					})
				}
				if uses {
					users = append(users, l)
				}
			}
			if len(users) != 1 {
				c.Bad(f, call, desc, "sender handle must reach exactly one goroutine", fmt.Sprintf("%d goroutines launched in %s use the handle", len(users), f.QName()))
				return true
			}
			l := users[0]
			gpt, _ := g.PointOf(l.Site.Stmt)
			if !g.Dominates(rpt, gpt) {
				c.Bad(f, call, desc, "registration must precede the go statement that owns the handle", "RegisterSender does not dominate the go statement")
				return true
			}
			if l.Root == nil {
				c.Bad(f, call, desc, "goroutine owning a sender handle must be resolvable", "goroutine root unresolved at "+p.Pos(l.Site.Stmt.Pos()))
				return true
			}
			// every path from the registration to an exit of this function hands the handle over (or releases it)
			if stray := g.MustPassBeforeExit(rpt, false, func(n ast.Node) bool {
				if n == ast.Node(l.Site.Stmt) {
					return true
				}
				return nodeHasCall(p, n, func(c2 *ast.CallExpr) bool {
					if !isSenderDone(in, c2) {
						return false
					}
					s, ok := unparen(c2.Fun).(*ast.SelectorExpr)
					return ok && objOf(in, s.X) == types.Object(hv)
				})
			}); len(stray) > 0 {
				c.Bad(f, call, desc, "a registered sender handle reaches the goroutine that releases it on every path; a path that registers and then leaves without starting that goroutine keeps the tracer's sender count above zero forever, so the tracer never terminates", "path from the registration to an exit that neither starts the owning goroutine nor calls Done: "+witnessLines(g, stray[:1]))
				return true
			}
			// variable inside root
			var rv *types.Var
			for pv, arg := range l.Params {
				if id, ok := unparen(arg).(*ast.Ident); ok && objOf(in, id) == types.Object(hv) {
					rv = pv
				}
			}
			if rv == nil && l.Root.Lit != nil {
				rv = hv
			}
			rin := info(l.Root)
			pred := func(call *ast.CallExpr) bool {
				if !isSenderDone(rin, call) {
					return false
				}
				s, ok := unparen(call.Fun).(*ast.SelectorExpr)
				if !ok {
					return false
				}
				v, _ := objOf(rin, s.X).(*types.Var)
				return v != nil && v == rv
			}
			ok2, wit := exactlyOnceOnAllExits(p, l.Root, p.Graph(l.Root).Entry(), true, pred)
			c.Check(ok2, f, call, desc, fmt.Sprintf("goroutine %s owns the sender handle and must call Done exactly once on every exit (else the tracer never terminates)", l.Root.QName()), wit)
			return true
		})
	}
}

func ruleR19(c *Ctx) {
	p := c.P
	for _, f := range p.Funcs {
		in := info(f)
		// the tracer's own Subscribe -> SubscribeChannel delegation is not a subscription owner
		if r := f.Root(); r.Obj != nil && recvNamed(r.Obj) != nil && recvNamed(r.Obj).Obj().Pkg().Path() == pathTracing && recvNamed(r.Obj).Obj().Name() == "tracer" {
			continue
		}
		inspectNoLit(f.Body, func(m ast.Node) bool {
			call, ok := m.(*ast.CallExpr)
			if !ok || !(isTracerMethod(in, call, "Subscribe") || isTracerMethod(in, call, "SubscribeChannel")) {
				return true
			}
			sel := unparen(call.Fun).(*ast.SelectorExpr)
			desc := "Subscribe on " + typeDesc(in, sel.X)
			par := p.Parent(call)
			var sv *types.Var
			switch x := par.(type) {
			case *ast.AssignStmt:
				if len(x.Lhs) == 1 {
					if id, ok := x.Lhs[0].(*ast.Ident); ok {
						sv, _ = objOf(in, id).(*types.Var)
					}
				}
			case *ast.KeyValueExpr:
				// stored into a struct field: some method of that struct must unsubscribe it
				if cl, ok := p.Parent(x).(*ast.CompositeLit); ok {
					owner := namedOf(in.TypeOf(cl))
					key, _ := x.Key.(*ast.Ident)
					okAny := false
					if owner != nil && key != nil {
						for _, g := range p.Funcs {
							gin := info(g)
							inspectNoLit(g.Body, func(y ast.Node) bool {
								if uc, ok := y.(*ast.CallExpr); ok && isTracerMethod(gin, uc, "Unsubscribe") && len(uc.Args) == 1 {
									if fn := fieldName(gin, uc.Args[0]); fn == owner.Obj().Name()+"."+key.Name {
										okAny = true
									}
								}
								return true
							})
						}
					}
					on := "?"
					if owner != nil && key != nil {
						on = owner.Obj().Name() + "." + key.Name
					}
					c.Check(okAny, f, call, desc+" stored in "+on, "a subscription stored in a struct field must be unsubscribed by its owner (otherwise the broadcaster blocks on the abandoned channel once its buffer is full)", "no Unsubscribe("+on+") anywhere in the program")
					return true
				}
			case *ast.ReturnStmt:
				c.Ok(f, call, desc+" returned", "subscription handed to the caller", "returned", false)
				return true
			}
			if sv == nil {
				c.Bad(f, call, desc, "subscription channel must be kept in a variable (or returned)", "result not assigned")
				return true
			}
			// owner body: f itself if it unsubscribes, else the unique nested literal that uses sv
			relUnsub := func(fi *FuncInfo, uc *ast.CallExpr, v *types.Var) bool {
				bin := info(fi)
				if !isTracerMethod(bin, uc, "Unsubscribe") || len(uc.Args) != 1 {
					return false
				}
				vv, _ := objOf(bin, uc.Args[0]).(*types.Var)
				return vv == v
			}
			g := p.Graph(f)
			spt, _ := g.PointOf(call)
			selfHas := false
			for _, pt := range g.AllPoints() {
				if releasesVar(p, f, pt.Node(), sv, relUnsub, 0) {
					selfHas = true
				}
			}
			if selfHas {
				bad := g.MustPassBeforeExit(spt, false, func(n ast.Node) bool { return releasesVar(p, f, n, sv, relUnsub, 0) })
				c.Check(len(bad) == 0, f, call, desc, "Unsubscribe on every path from the subscription to the exit of "+f.QName(), ifEmpty(witnessLines(g, bad), "all exits pass Unsubscribe (defer or explicit)"))
				return true
			}
			// handed to a goroutine as an argument: that function owns it and must release its parameter on every exit
			handedOK, handedTo := false, ""
			inspectNoLit(f.Body, func(z ast.Node) bool {
				gs, ok := z.(*ast.GoStmt)
				if !ok {
					return true
				}
				for i, a := range gs.Call.Args {
					id, ok := unparen(a).(*ast.Ident)
					if !ok || objOf(in, id) != types.Object(sv) {
						continue
					}
					cf := p.byObj[callee(in, gs.Call)]
					if cf == nil {
						continue
					}
					pv := paramAt(cf, i)
					if pv == nil {
						continue
					}
					cg := p.Graph(cf)
					bad := cg.MustPassBeforeExit(cg.Entry(), true, func(n ast.Node) bool { return releasesVar(p, cf, n, pv, relUnsub, 0) })
					handedTo = cf.QName()
					handedOK = len(bad) == 0
				}
				return true
			})
			if handedTo != "" {
				c.Check(handedOK, f, call, desc, "the subscription is handed to goroutine "+handedTo+", which must Unsubscribe it on every exit", fmt.Sprintf("callee releases its parameter on all exits: %v", handedOK))
				return true
			}
			var owners []*FuncInfo
			var collect func(fi *FuncInfo)
			collect = func(fi *FuncInfo) {
				for _, l := range fi.Lits {
					uses := false
					inspectNoLit(l.Body, func(x ast.Node) bool {
						if id, ok := x.(*ast.Ident); ok && in.Uses[id] == types.Object(sv) {
							uses = true
						}
						return true
					})
					if uses {
						owners = append(owners, l)
					}
					collect(l)
				}
			}
			collect(f)
			if len(owners) != 1 {
				c.Bad(f, call, desc, "subscription must have one owner that unsubscribes", fmt.Sprintf("%d closures use the subscription and %s itself never unsubscribes", len(owners), f.QName()))
				return true
			}
			o := owners[0]
			og := p.Graph(o)
			bad := og.MustPassBeforeExit(og.Entry(), true, func(n ast.Node) bool { return releasesVar(p, o, n, sv, relUnsub, 0) })
			c.Check(len(bad) == 0, f, call, desc, "closure "+o.QName()+" owns the subscription and must Unsubscribe on every exit", ifEmpty(witnessLines(og, bad), "all exits of the owning closure pass Unsubscribe"))
			return true
		})
	}
}

func ifEmpty(s, alt string) string {
	if s == "" {
		return alt
	}
	return s
}
