package main

// Token goroutine ordering rules: R7 announce-before-start, R8
// terminal-trace-last, R9 leave-then-visit, R10 token-exit-trace, and the
// counter part of the join-state reset (R3d).

import (
	"fmt"
	"go/ast"
	"go/token"
	"go/types"
	"sort"
	"strings"
)

func init() {
	register(&Rule{ID: "R7", Title: "announce-before-start: forked flows are started only after the FlowTrace that lists them", Min: 2, Run: ruleR7})
	register(&Rule{ID: "R8", Title: "terminal-trace-last: nothing is sent by a token after its termination / cancellation trace", Min: 3, Run: ruleR8})
	register(&Rule{ID: "R9", Title: "leave-then-visit: LeaveTrace, then the move, then VisitTrace; a new token's first trace after NewFlowTrace is its VisitTrace", Min: 2, Run: ruleR9})
	register(&Rule{ID: "R10", Title: "token-exit-trace: every exit of the token goroutine is preceded by a terminal trace", Min: 3, Run: ruleR10})
	register(&Rule{ID: "R3d", Title: "join counter reset: a counter tested by the release condition is re-initialised in the releasing branch", Min: 1, Run: ruleR3d})
}

// tokenRoots: goroutine bodies whose select receives from IOutgoing.NextAction.
func tokenRoots(p *Prog) []*FuncInfo {
	var out []*FuncInfo
	ce := chanEngine(p)
	seen := map[*FuncInfo]bool{}
	for _, op := range ce.Ops {
		if op.Kind != OpRecv || op.Select == nil {
			continue
		}
		call, ok := unparen(op.Chan).(*ast.CallExpr)
		if !ok {
			continue
		}
		fn := callee(info(op.Func), call)
		if fn == nil || fn.Name() != "NextAction" || !isMethod(fn, pathBpmn, "NextAction", "IOutgoing", "IFlowNode") {
			continue
		}
		if !seen[op.Func] {
			seen[op.Func] = true
			out = append(out, op.Func)
		}
	}
	return out
}

// sendsIndex: for every declared function, the trace types it may send synchronously (its own body,
// literals it runs synchronously, and same-package static callees up to depth 3; goroutines excluded).
var sendsIndexCache = map[*Prog]map[*types.Func]map[string]bool{}
var theProg *Prog

func sendsIndex(p *Prog) map[*types.Func]map[string]bool {
	if ix, ok := sendsIndexCache[p]; ok {
		return ix
	}
	ix := map[*types.Func]map[string]bool{}
	sendsIndexCache[p] = ix
	var collect func(f *FuncInfo, into map[string]bool, depth int, seen map[*FuncInfo]bool)
	collect = func(f *FuncInfo, into map[string]bool, depth int, seen map[*FuncInfo]bool) {
		if f == nil || seen[f] || depth > 3 {
			return
		}
		seen[f] = true
		in := info(f)
		inspectNoLit(f.Body, func(m ast.Node) bool {
			if _, isGo := m.(*ast.GoStmt); isGo {
				return false
			}
			call, ok := m.(*ast.CallExpr)
			if !ok {
				return true
			}
			if t, ok := sentTraceType(in, call); ok {
				into[t] = true
				return true
			}
			if lf := syncLitOfCall(p, in, call); lf != nil {
				collect(lf, into, depth+1, seen)
			}
			if fn := callee(in, call); fn != nil {
				if _, isIface := recvUnderlyingInterface(fn); !isIface {
					if cf := p.byObj[fn]; cf != nil && cf.Pkg == f.Pkg {
						collect(cf, into, depth+1, seen)
					}
				}
			}
			return true
		})
	}
	for _, f := range p.Funcs {
		if f.Obj == nil {
			continue
		}
		m := map[string]bool{}
		collect(f, m, 0, map[*FuncInfo]bool{})
		ix[f.Obj] = m
	}
	return ix
}

// nodeSendsTraceDirect: the node itself contains the Send call (no call-transitivity); used where
// send SITES are counted.
func nodeSendsTraceDirect(in *types.Info, n ast.Node, names ...string) (string, bool) {
	if n == nil {
		return "", false
	}
	if _, isGo := n.(*ast.GoStmt); isGo {
		return "", false
	}
	for _, call := range callsIn(n) {
		if t, ok := sentTraceType(in, call); ok {
			if len(names) == 0 {
				return t, true
			}
			for _, nm := range names {
				if t == nm {
					return t, true
				}
			}
		}
	}
	return "", false
}

// nodeSendsTrace: CFG node n sends a trace (of one of the named types, if any are given) — directly,
// or through a statically called same-package function that may send it.
func nodeSendsTrace(in *types.Info, n ast.Node, names ...string) (string, bool) {
	if n == nil {
		return "", false
	}
	if _, isGo := n.(*ast.GoStmt); isGo {
		return "", false
	}
	match := func(t string) bool {
		if len(names) == 0 {
			return true
		}
		for _, nm := range names {
			if t == nm {
				return true
			}
		}
		return false
	}
	for _, call := range callsIn(n) {
		if t, ok := sentTraceType(in, call); ok {
			if match(t) {
				return t, true
			}
			continue
		}
		if theProg != nil {
			if fn := callee(in, call); fn != nil {
				if _, isIface := recvUnderlyingInterface(fn); !isIface {
					var ts []string
					for t := range sendsIndex(theProg)[fn] {
						ts = append(ts, t)
					}
					sort.Strings(ts)
					for _, t := range ts {
						if match(t) {
							return t, true
						}
					}
				}
			}
		}
	}
	return "", false
}

var terminalTraces = []string{"TerminationTrace", "CancellationFlowTrace"}

func ruleR7(c *Ctx) {
	p := c.P
	roots := tokenRoots(p)
	if len(roots) == 0 {
		c.Missing("token goroutine", "no goroutine body selects on IOutgoing.NextAction: the token loop is gone")
		return
	}
	// the flow-start method: a method named Start declared on the type of the token's receiver
	isStart := func(fn *types.Func) bool { return isMethod(fn, pathBpmn, "Start", "flow") }
	for _, root := range roots {
		in := info(root)
		g := p.Graph(root)
		// (i) dynamic calls of local func values (the fork handlers) must be dominated by Send(FlowTrace)
		var flowTracePts []Point
		for _, pt := range g.AllPoints() {
			if _, ok := nodeSendsTrace(in, pt.Node(), "FlowTrace"); ok {
				flowTracePts = append(flowTracePts, pt)
			}
		}
		nDyn := 0
		for _, pt := range g.AllPoints() {
			for _, call := range callsIn(pt.Node()) {
				id, ok := unparen(call.Fun).(*ast.Ident)
				if !ok {
					continue
				}
				v, ok := objOf(in, id).(*types.Var)
				if !ok || v.IsField() {
					continue
				}
				sig, ok := v.Type().Underlying().(*types.Signature)
				if !ok || sig.Params().Len() != 1 || !isNamed(sig.Params().At(0).Type(), "context", "Context") {
					continue
				}
				nDyn++
				dom := false
				for _, ft := range flowTracePts {
					if g.Dominates(ft, pt) && ft != pt {
						dom = true
					}
				}
				c.Check(dom, root, call, "call of fork handler (func(context.Context) value)",
					"a fork handler (closure that starts an additional flow) may only run after the FlowTrace announcing the new flows was sent, else a subscriber can see traces of a flow it was never told about",
					fmt.Sprintf("FlowTrace sends at lines %v dominate the call: %v", g.Lines(flowTracePts), dom))
			}
		}
		if nDyn == 0 {
			c.Missing("fork handler call", "the token goroutine no longer invokes fork handlers after the FlowTrace")
		}
		// (ii) no declared function statically reachable from the token root starts a flow synchronously
		visited := map[*FuncInfo]bool{}
		var offenders []string
		var walk func(f *FuncInfo, depth int)
		walk = func(f *FuncInfo, depth int) {
			if visited[f] || depth > 6 {
				return
			}
			visited[f] = true
			fin := info(f)
			inspectNoLit(f.Body, func(m ast.Node) bool {
				if _, isGo := m.(*ast.GoStmt); isGo {
					return false
				}
				call, ok := m.(*ast.CallExpr)
				if !ok {
					return true
				}
				fn := callee(fin, call)
				if fn == nil {
					return true
				}
				if isStart(fn) && f != root {
					offenders = append(offenders, f.QName()+" at "+p.Pos(call.Pos()))
				}
				if isStart(fn) && f == root {
					offenders = append(offenders, "token loop itself at "+p.Pos(call.Pos()))
				}
				if cf := p.byObj[fn]; cf != nil && cf.Pkg == root.Pkg {
					// interface methods are not followed (NextAction implementations start
					// their own node goroutines and boundary listeners, not forks)
					if _, isIface := recvUnderlyingInterface(fn); !isIface {
						walk(cf, depth+1)
					}
				}
				return true
			})
		}
		walk(root, 0)
		c.Check(len(offenders) == 0, root, root.Body, "no synchronous flow start from the token goroutine",
			"functions called synchronously (statically) from the token goroutine must not start a flow directly; forks are wrapped in closures that run after the FlowTrace",
			ifEmpty(strings.Join(offenders, "; "), fmt.Sprintf("%d statically reachable functions inspected, none calls (*flow).Start outside a closure", len(visited))))
	}
}

func recvUnderlyingInterface(fn *types.Func) (*types.Interface, bool) {
	sig, ok := fn.Type().(*types.Signature)
	if !ok || sig.Recv() == nil {
		return nil, false
	}
	it, ok := sig.Recv().Type().Underlying().(*types.Interface)
	return it, ok
}

func ruleR8(c *Ctx) {
	p := c.P
	for _, root := range tokenRoots(p) {
		in := info(root)
		g := p.Graph(root)
		for _, pt := range g.AllPoints() {
			t, ok := nodeSendsTrace(in, pt.Node(), terminalTraces...)
			if !ok {
				continue
			}
			found, w := g.Reaches(pt, func(n ast.Node) bool {
				_, s := nodeSendsTrace(in, n)
				return s
			}, nil)
			wit := "followed by return on every path, no further Send reachable"
			if found {
				wit = "a further trace is sent after the terminal one: " + witnessLines(g, [][]Point{w})
			}
			// deferred sends would also come after
			for _, d := range g.Defers {
				dcall := d.Node().(*ast.DeferStmt).Call
				if _, s := nodeSendsTrace(in, dcall); s {
					found = true
					wit = "a deferred Send runs after the terminal trace"
				}
				// a deferred function literal that sends (even conditionally) runs after it as well
				if lit, ok := unparen(dcall.Fun).(*ast.FuncLit); ok {
					ast.Inspect(lit.Body, func(m ast.Node) bool {
						if cl, ok := m.(*ast.CallExpr); ok && isTracerMethod(in, cl, "Send") {
							found = true
							wit = "the function literal deferred at " + p.Pos(lit.Pos()) + " sends a trace; it runs after the terminal trace on every exit"
						}
						return true
					})
				}
			}
			c.Check(!found, root, pt.Node(), "Send("+t+")", "the "+t+" of a token is its last trace", wit)
		}
	}
}

func ruleR9(c *Ctx) {
	p := c.P
	roots := tokenRoots(p)
	// (a) functions that move a token: assign to the `current` node field of the flow struct
	n := 0
	for _, f := range p.Funcs {
		if f.Pkg.PkgPath != pathBpmn {
			continue
		}
		in := info(f)
		g := p.Graph(f)
		for _, pt := range g.AllPoints() {
			as, ok := pt.Node().(*ast.AssignStmt)
			if !ok {
				continue
			}
			for _, l := range as.Lhs {
				fv := fieldOf(in, l)
				if fv == nil || !isNamed(fv.Type(), pathBpmn, "IFlowNode") {
					continue
				}
				sel := unparen(l).(*ast.SelectorExpr)
				if !isNamed(in.TypeOf(sel.X), pathBpmn, "flow") {
					continue
				}
				n++
				var leave, visit []Point
				for _, q := range g.AllPoints() {
					if _, ok := nodeSendsTrace(in, q.Node(), "LeaveTrace"); ok {
						leave = append(leave, q)
					}
					if _, ok := nodeSendsTrace(in, q.Node(), "VisitTrace"); ok {
						visit = append(visit, q)
					}
				}
				okL := false
				for _, q := range leave {
					if g.Dominates(q, pt) {
						okL = true
					}
				}
				okV := false
				for _, q := range visit {
					if g.Dominates(pt, q) {
						// and the visit is reached on every path from the move to the exit
						bad := g.MustPassBeforeExit(pt, false, func(m ast.Node) bool { return m == q.Node() })
						if len(bad) == 0 {
							okV = true
						}
					}
				}
				c.Check(okL && okV, f, as, "move of the token (store to flow."+fv.Name()+")",
					"Send(LeaveTrace) dominates the store that moves the token, and Send(VisitTrace) follows the store on every path",
					fmt.Sprintf("LeaveTrace dominates=%v, VisitTrace after on all paths=%v", okL, okV))
			}
		}
	}
	if n == 0 {
		c.Missing("token move", "no function stores to the current-node field of a flow")
	}
	// (b) first traces of a new token: NewFlowTrace then VisitTrace, before the loop
	for _, root := range roots {
		in := info(root)
		g := p.Graph(root)
		var seq []string
		var first ast.Node
		if len(g.Blocks) > 0 {
			for _, nd := range g.Blocks[0].Nodes {
				if t, ok := nodeSendsTrace(in, nd); ok {
					seq = append(seq, t)
					if first == nil {
						first = nd
					}
				}
			}
		}
		ok := len(seq) >= 2 && seq[0] == "NewFlowTrace" && seq[1] == "VisitTrace"
		c.Check(ok, root, root.Body, "first traces of a new token",
			"a token's first two traces are NewFlowTrace and the VisitTrace of its start node, sent unconditionally before the loop",
			fmt.Sprintf("entry block sends %v", seq))
		// (c) the sender handle is registered and the wait group counted before the go statement: R1/R17
	}
}

func ruleR10(c *Ctx) {
	p := c.P
	for _, root := range tokenRoots(p) {
		in := info(root)
		g := p.Graph(root)
		isTerminal := func(n ast.Node) bool {
			_, ok := nodeSendsTrace(in, n, terminalTraces...)
			return ok
		}
		for i, r := range g.ReturnPoints() {
			// a return directly in a `case <-done-source:` clause is the cancellation exit
			if cc := innermostCommClause(p, r.Node()); cc != nil && cc.Comm != nil && isDoneComm(p, root, cc.Comm) {
				if _, sends := clauseSendsTerminal(in, cc); !sends {
					c.Ok(root, r.Node(), "return "+returnContext(p, root, r.Node()), "every exit of the token goroutine is preceded by a terminal trace", "cancellation exit (return in a done-source clause): the whole instance is stopping", false)
					continue
				}
			}
			// is there a path entry -> r avoiding every terminal send?
			found, w := g.Search(g.Entry(), true, func(pt Point, n ast.Node) Action {
				if n == nil || isTerminal(n) {
					return Prune
				}
				if pt == r {
					return Found
				}
				return Continue
			})
			desc := "return " + returnContext(p, root, r.Node())
			_ = i
			wit := "every path to this return passes Send(TerminationTrace|CancellationFlowTrace)"
			if found {
				wit = "token can end here without a terminal trace (observers that track live tokens never learn it is gone): " + witnessLines(g, [][]Point{w})
			}
			c.Check(!found, root, r.Node(), desc, "every exit of the token goroutine is preceded by a terminal trace", wit)
		}
	}
}

func innermostCommClause(p *Prog, n ast.Node) *ast.CommClause {
	for cur := p.Parent(n); cur != nil; cur = p.Parent(cur) {
		switch x := cur.(type) {
		case *ast.CommClause:
			return x
		case *ast.FuncLit, *ast.FuncDecl:
			return nil
		}
	}
	return nil
}

func clauseSendsTerminal(in *types.Info, cc *ast.CommClause) (string, bool) {
	for _, st := range cc.Body {
		if t, ok := nodeSendsTrace(in, st, terminalTraces...); ok {
			return t, true
		}
	}
	return "", false
}

// returnContext describes a return by its innermost enclosing clause (case
// types/values), not by line.
func returnContext(p *Prog, f *FuncInfo, ret ast.Node) string {
	in := info(f)
	var parts []string
	for cur := p.Parent(ret); cur != nil && cur != ast.Node(f.Body); cur = p.Parent(cur) {
		switch x := cur.(type) {
		case *ast.CaseClause:
			if x.List == nil {
				parts = append(parts, "default")
			} else {
				var ts []string
				for _, e := range x.List {
					if tv, ok := in.Types[e]; ok && tv.IsType() {
						ts = append(ts, typeString(tv.Type))
					} else {
						ts = append(ts, exprString(e))
					}
				}
				parts = append(parts, "case "+strings.Join(ts, ","))
			}
		case *ast.CommClause:
			if x.Comm == nil {
				parts = append(parts, "select default")
			} else {
				parts = append(parts, "select "+commDesc(in, x.Comm))
			}
		case *ast.IfStmt:
			// then or else?
			branch := "if"
			if x.Else != nil && ret.Pos() >= x.Else.Pos() {
				branch = "else of if"
			}
			parts = append(parts, branch+" "+condDesc(x.Cond))
		}
	}
	if len(parts) == 0 {
		return "at top level"
	}
	// innermost first; keep at most 4
	if len(parts) > 4 {
		parts = parts[:4]
	}
	return "in " + strings.Join(parts, " < ")
}

func commDesc(in *types.Info, s ast.Stmt) string {
	var e ast.Expr
	switch x := s.(type) {
	case *ast.ExprStmt:
		e = x.X
	case *ast.AssignStmt:
		if len(x.Rhs) == 1 {
			e = x.Rhs[0]
		}
	case *ast.SendStmt:
		return "send " + typeString(in.TypeOf(x.Chan))
	}
	if u, ok := unparen(e).(*ast.UnaryExpr); ok && u.Op == token.ARROW {
		if call, ok := unparen(u.X).(*ast.CallExpr); ok {
			if fn := callee(in, call); fn != nil {
				return "<-" + calleeName(fn) + "()"
			}
		}
		return "<-" + typeString(in.TypeOf(u.X))
	}
	return "?"
}

func condDesc(e ast.Expr) string {
	s := exprString(e)
	if len(s) > 40 {
		s = s[:40]
	}
	return s
}

// ---- R3d ----

func ruleR3d(c *Ctx) {
	p := c.P
	// counters: receiver fields that are incremented somewhere
	incremented := map[*types.Var]bool{}
	for _, f := range p.Funcs {
		in := info(f)
		inspectNoLit(f.Body, func(m ast.Node) bool {
			switch x := m.(type) {
			case *ast.IncDecStmt:
				if fv := fieldOf(in, x.X); fv != nil {
					incremented[fv] = true
				}
			case *ast.AssignStmt:
				if x.Tok == token.ADD_ASSIGN && len(x.Lhs) == 1 {
					if fv := fieldOf(in, x.Lhs[0]); fv != nil {
						incremented[fv] = true
					}
				}
			}
			return true
		})
	}
	distributors := distributorFuncs(p)
	for _, f := range p.Funcs {
		in := info(f)
		inspectNoLit(f.Body, func(m ast.Node) bool {
			call, ok := m.(*ast.CallExpr)
			if !ok {
				return true
			}
			fn := callee(in, call)
			if fn == nil || !distributors[fn] {
				return true
			}
			// conditions controlling the release: enclosing ifs (release in the then-branch) and
			// guard clauses (`if cond { return }`) that precede the release in the same function
			g := p.Graph(f)
			rpt, okp := g.PointOf(call)
			if !okp {
				return true
			}
			var conds []ast.Expr
			for cur := p.Parent(call); cur != nil && cur != ast.Node(f.Body); cur = p.Parent(cur) {
				if ifs, ok := cur.(*ast.IfStmt); ok && call.Pos() >= ifs.Body.Pos() && call.End() <= ifs.Body.End() {
					conds = append(conds, ifs.Cond)
				}
			}
			inspectNoLit(f.Body, func(z ast.Node) bool {
				ifs, ok := z.(*ast.IfStmt)
				if !ok || ifs.End() > call.Pos() || ifs.Else != nil {
					return true
				}
				returns := false
				for _, st := range ifs.Body.List {
					if _, isRet := st.(*ast.ReturnStmt); isRet {
						returns = true
					}
				}
				if cpt, ok := g.PointOf(ifs.Cond); returns && ok && g.Dominates(cpt, rpt) {
					conds = append(conds, ifs.Cond)
				}
				return true
			})
			seenC := map[*types.Var]bool{}
			for _, cond := range conds {
				inspectNoLit(cond, func(z ast.Node) bool {
					e, ok := z.(ast.Expr)
					if !ok {
						return true
					}
					cv := fieldOf(in, e)
					if cv == nil || !incremented[cv] || seenC[cv] {
						return true
					}
					seenC[cv] = true
					cpt, _ := g.PointOf(cond)
					reset, where := false, ""
					for _, pt := range g.AllPoints() {
						as, ok := pt.Node().(*ast.AssignStmt)
						if !ok || as.Tok != token.ASSIGN {
							continue
						}
						for i, l := range as.Lhs {
							if fieldOf(in, l) != cv || i >= len(as.Rhs) {
								continue
							}
							self := false
							inspectNoLit(as.Rhs[i], func(y ast.Node) bool {
								if e2, ok := y.(ast.Expr); ok && fieldOf(in, e2) == cv {
									self = true
								}
								return true
							})
							if self || !g.Dominates(cpt, pt) {
								continue
							}
							// before the release on every path to it, or after it on every path to the exit
							if g.Dominates(pt, rpt) {
								reset, where = true, "before the release"
							} else if bad := g.MustPassBeforeExit(rpt, false, func(n ast.Node) bool { return n == pt.Node() }); len(bad) == 0 {
								reset, where = true, "after the release on every path"
							}
						}
					}
					// every way through the releasing branch resets the counter — also a fast path that answers the
					// waiting token itself and returns before the distributor call
					if reset {
						isReset := func(n ast.Node) bool {
							as, ok := n.(*ast.AssignStmt)
							if !ok || as.Tok != token.ASSIGN {
								return false
							}
							for _, l := range as.Lhs {
								if fieldOf(in, l) == cv {
									return true
								}
							}
							return false
						}
						var body []ast.Stmt
						// enclosing if whose condition this is: its then-branch; otherwise what follows the guard clause
						for cur := p.Parent(call); cur != nil && cur != ast.Node(f.Body); cur = p.Parent(cur) {
							if ifs, ok := cur.(*ast.IfStmt); ok && ifs.Cond == cond {
								body = ifs.Body.List
							}
						}
						if body == nil {
							inspectNoLit(f.Body, func(y ast.Node) bool {
								var list []ast.Stmt
								switch b := y.(type) {
								case *ast.BlockStmt:
									list = b.List
								case *ast.CaseClause:
									list = b.Body
								}
								for k, st := range list {
									if ifs, ok := st.(*ast.IfStmt); ok && ifs.Cond == cond && k+1 < len(list) {
										body = list[k+1:]
									}
								}
								return true
							})
						}
						if len(body) > 0 {
							if entry, ok := g.EntryOfStmts(body); ok {
								bad := g.RegionPaths(entry, regionOfStmts(body), isReset)
								if len(bad) > 0 && !isReset(entry.Node()) {
									reset = false
									where = "but a path through the releasing branch leaves without resetting it: " + witnessLines(g, bad)
								}
							}
						}
					}
					c.Check(reset, f, call, "release guarded by counter "+cv.Name(),
						"the counter "+cv.Name()+" that gates the release is re-initialised on the releasing path (after the gating test, before or after the release), so that the next activation counts from scratch",
						fmt.Sprintf("non-self assignment to %s on the releasing path: %v %s", cv.Name(), reset, where))
					return true
				})
			}
			return true
		})
	}
}
