package main

// Type- and callee-resolution helpers. Everything here works on resolved
// program entities (types.Object, types.Type), never on text.

import (
	"go/ast"
	"go/token"
	"go/types"
	"strings"

	"golang.org/x/tools/go/types/typeutil"
)

const (
	pathBpmn    = "github.com/olive-io/bpmn/v2"
	pathTracing = "github.com/olive-io/bpmn/v2/pkg/tracing"
	pathEvent   = "github.com/olive-io/bpmn/v2/pkg/event"
	pathData    = "github.com/olive-io/bpmn/v2/pkg/data"
	pathSchema  = "github.com/olive-io/bpmn/schema"
	pathID      = "github.com/olive-io/bpmn/v2/pkg/id"
	pathTimer   = "github.com/olive-io/bpmn/v2/pkg/timer"
	pathClock   = "github.com/olive-io/bpmn/v2/pkg/clock"
	pathLogic   = "github.com/olive-io/bpmn/v2/pkg/logic"
	pathExpr    = "github.com/olive-io/bpmn/v2/pkg/expression"
)

func info(f *FuncInfo) *types.Info { return f.Pkg.TypesInfo }

// callee resolves the statically known callee of a call (function or method,
// including interface methods); nil for calls of function values.
func callee(in *types.Info, call *ast.CallExpr) *types.Func {
	if f, ok := typeutil.Callee(in, call).(*types.Func); ok {
		return f
	}
	return nil
}

func unparen(e ast.Expr) ast.Expr {
	for {
		p, ok := e.(*ast.ParenExpr)
		if !ok {
			return e
		}
		e = p.X
	}
}

// namedOf strips pointers and returns the named type, if any.
func namedOf(t types.Type) *types.Named {
	if t == nil {
		return nil
	}
	t = types.Unalias(t)
	if p, ok := t.(*types.Pointer); ok {
		t = types.Unalias(p.Elem())
	}
	n, _ := t.(*types.Named)
	return n
}

func isNamed(t types.Type, pkgPath, name string) bool {
	n := namedOf(t)
	if n == nil || n.Obj() == nil {
		return false
	}
	if n.Obj().Name() != name {
		return false
	}
	if n.Obj().Pkg() == nil {
		return pkgPath == ""
	}
	return n.Obj().Pkg().Path() == pkgPath
}

func typeString(t types.Type) string {
	if t == nil {
		return "?"
	}
	return types.TypeString(t, func(p *types.Package) string { return shortPkg(p.Path()) })
}

// chanElem returns the element type if t's underlying type is a channel.
func chanElem(t types.Type) (types.Type, bool) {
	if t == nil {
		return nil, false
	}
	ch, ok := t.Underlying().(*types.Chan)
	if !ok {
		return nil, false
	}
	return ch.Elem(), true
}

// recvOf returns the receiver named type of a method.
func recvNamed(f *types.Func) *types.Named {
	if f == nil {
		return nil
	}
	sig, ok := f.Type().(*types.Signature)
	if !ok || sig.Recv() == nil {
		return nil
	}
	return namedOf(sig.Recv().Type())
}

// isMethod reports whether f is a method called name whose receiver's named
// type is declared in pkgPath with one of the given type names (any if none).
func isMethod(f *types.Func, pkgPath, name string, recvNames ...string) bool {
	if f == nil || f.Name() != name {
		return false
	}
	r := recvNamed(f)
	if r == nil || r.Obj().Pkg() == nil || r.Obj().Pkg().Path() != pkgPath {
		return false
	}
	if len(recvNames) == 0 {
		return true
	}
	for _, n := range recvNames {
		if r.Obj().Name() == n {
			return true
		}
	}
	return false
}

func isPkgFunc(f *types.Func, pkgPath, name string) bool {
	if f == nil || f.Pkg() == nil || f.Name() != name || f.Pkg().Path() != pkgPath {
		return false
	}
	sig, ok := f.Type().(*types.Signature)
	return ok && sig.Recv() == nil
}

// ---- roles ----

// isCtxDoneCall: X.Done() on a context.Context.
func isCtxDoneCall(in *types.Info, e ast.Expr) bool {
	call, ok := unparen(e).(*ast.CallExpr)
	if !ok {
		return false
	}
	f := callee(in, call)
	return isMethod(f, "context", "Done", "Context")
}

// isTracerMethod: call of method `name` on a tracer (tracing.ITracer or the
// concrete *tracer).
func isTracerMethod(in *types.Info, call *ast.CallExpr, name string) bool {
	f := callee(in, call)
	return isMethod(f, pathTracing, name, "ITracer", "tracer")
}

// sentTraceType: for X.Send(arg) on a tracer, the named type of arg.
func sentTraceType(in *types.Info, call *ast.CallExpr) (string, bool) {
	if !isTracerMethod(in, call, "Send") || len(call.Args) != 1 {
		return "", false
	}
	t := in.TypeOf(call.Args[0])
	if n := namedOf(t); n != nil {
		return n.Obj().Name(), true
	}
	return typeString(t), true
}

func isSyncMethod(in *types.Info, call *ast.CallExpr, recv, name string) bool {
	f := callee(in, call)
	return isMethod(f, "sync", name, recv)
}

// isSenderDone: h.Done() on a tracing.ISenderHandle.
func isSenderDone(in *types.Info, call *ast.CallExpr) bool {
	f := callee(in, call)
	if isMethod(f, pathTracing, "Done", "ISenderHandle") {
		return true
	}
	return false
}

func isIAction(t types.Type) bool  { return isNamed(t, pathBpmn, "IAction") }
func isIMessage(t types.Type) bool { return isNamed(t, pathBpmn, "imessage") }
func isITrace(t types.Type) bool   { return isNamed(t, pathTracing, "ITrace") }

// isReplyChan: chan IAction or chan chan IAction.
func isReplyChan(t types.Type) bool {
	e, ok := chanElem(t)
	if !ok {
		return false
	}
	if isIAction(e) {
		return true
	}
	if e2, ok := chanElem(e); ok && isIAction(e2) {
		return true
	}
	return false
}

func isMailboxChan(t types.Type) bool {
	e, ok := chanElem(t)
	return ok && isIMessage(e)
}

// exprString renders an expression compactly (identifiers and selectors kept,
// literals elided) for descriptors.
func exprString(e ast.Expr) string {
	return types.ExprString(e)
}

// rootIdent returns the leftmost identifier of a selector/index/star chain.
func rootIdent(e ast.Expr) *ast.Ident {
	for {
		switch x := unparen(e).(type) {
		case *ast.Ident:
			return x
		case *ast.SelectorExpr:
			e = x.X
		case *ast.IndexExpr:
			e = x.X
		case *ast.StarExpr:
			e = x.X
		case *ast.UnaryExpr:
			e = x.X
		case *ast.CallExpr:
			e = x.Fun
		case *ast.TypeAssertExpr:
			e = x.X
		case *ast.SliceExpr:
			e = x.X
		default:
			return nil
		}
	}
}

// fieldOf returns the struct field object selected by e (x.f), if any.
func fieldOf(in *types.Info, e ast.Expr) *types.Var {
	sel, ok := unparen(e).(*ast.SelectorExpr)
	if !ok {
		return nil
	}
	if s, ok := in.Selections[sel]; ok && s.Kind() == types.FieldVal {
		if v, ok := s.Obj().(*types.Var); ok {
			return v
		}
	}
	return nil
}

// fieldOwner returns "Type.field" for a field selection.
func fieldName(in *types.Info, e ast.Expr) string {
	sel, ok := unparen(e).(*ast.SelectorExpr)
	if !ok {
		return ""
	}
	s, ok := in.Selections[sel]
	if !ok || s.Kind() != types.FieldVal {
		return ""
	}
	owner := "?"
	// the struct that declares the field: walk the selection's receiver
	rt := s.Recv()
	if n := namedOf(rt); n != nil {
		owner = n.Obj().Name()
	}
	// for promoted fields find the declaring struct
	if idx := s.Index(); len(idx) > 1 {
		t := rt
		for _, i := range idx[:len(idx)-1] {
			if p, ok := types.Unalias(t).Underlying().(*types.Pointer); ok {
				t = p.Elem()
			}
			st, ok := t.Underlying().(*types.Struct)
			if !ok {
				break
			}
			t = st.Field(i).Type()
		}
		if n := namedOf(t); n != nil {
			owner = n.Obj().Name()
		}
	}
	return owner + "." + s.Obj().Name()
}

// objOf returns the object an identifier or selector refers to.
func objOf(in *types.Info, e ast.Expr) types.Object {
	switch x := unparen(e).(type) {
	case *ast.Ident:
		if o := in.Uses[x]; o != nil {
			return o
		}
		return in.Defs[x]
	case *ast.SelectorExpr:
		if s, ok := in.Selections[x]; ok {
			return s.Obj()
		}
		return in.Uses[x.Sel]
	}
	return nil
}

// sameRef reports whether two expressions denote the same variable/field path
// (x.a.b vs x.a.b) by resolved objects.
func sameRef(in *types.Info, a, b ast.Expr) bool {
	a, b = unparen(a), unparen(b)
	switch x := a.(type) {
	case *ast.Ident:
		y, ok := b.(*ast.Ident)
		if !ok {
			return false
		}
		ox, oy := objOf(in, x), objOf(in, y)
		return ox != nil && ox == oy
	case *ast.SelectorExpr:
		y, ok := b.(*ast.SelectorExpr)
		if !ok {
			return false
		}
		ox, oy := objOf(in, x), objOf(in, y)
		if ox == nil || ox != oy {
			return false
		}
		return sameRef(in, x.X, y.X)
	case *ast.StarExpr:
		y, ok := b.(*ast.StarExpr)
		return ok && sameRef(in, x.X, y.X)
	case *ast.UnaryExpr:
		y, ok := b.(*ast.UnaryExpr)
		return ok && x.Op == y.Op && sameRef(in, x.X, y.X)
	case *ast.CallExpr:
		y, ok := b.(*ast.CallExpr)
		if !ok || len(x.Args) != 0 || len(y.Args) != 0 {
			return false
		}
		return sameRef(in, x.Fun, y.Fun)
	}
	return false
}

func isBuiltin(in *types.Info, call *ast.CallExpr, name string) bool {
	id, ok := unparen(call.Fun).(*ast.Ident)
	if !ok || id.Name != name {
		return false
	}
	_, ok = in.Uses[id].(*types.Builtin)
	return ok
}

// makeChanCap classifies make(chan T[, n]): "0", ">=1", "expr>=1" or "unknown".
func makeChanCap(in *types.Info, call *ast.CallExpr) (isMakeChan bool, capClass string) {
	if !isBuiltin(in, call, "make") || len(call.Args) == 0 {
		return false, ""
	}
	if _, ok := chanElem(in.TypeOf(call.Args[0])); !ok {
		return false, ""
	}
	if len(call.Args) == 1 {
		return true, "0"
	}
	tv, ok := in.Types[call.Args[1]]
	if ok && tv.Value != nil {
		if tv.Value.String() == "0" {
			return true, "0"
		}
		return true, ">=1"
	}
	// non-constant: accept expressions of the form e + k (k>=1) or k + e or e*2+1
	if hasPositiveAddend(in, call.Args[1]) {
		return true, ">=1"
	}
	return true, "unknown"
}

func hasPositiveAddend(in *types.Info, e ast.Expr) bool {
	b, ok := unparen(e).(*ast.BinaryExpr)
	if !ok || b.Op != token.ADD {
		return false
	}
	for _, side := range []ast.Expr{b.X, b.Y} {
		if tv, ok := in.Types[side]; ok && tv.Value != nil {
			s := tv.Value.String()
			if s != "0" && !strings.HasPrefix(s, "-") {
				return true
			}
		}
		if hasPositiveAddend(in, side) {
			return true
		}
	}
	return false
}
