package main

// Loading of /repo (type-checked syntax + SSA) and the per-function index
// every rule works from.

import (
	"crypto/sha256"
	"fmt"
	"go/ast"
	"go/token"
	"go/types"
	"os"
	"path/filepath"
	"sort"
	"strings"

	"golang.org/x/tools/go/packages"
	"golang.org/x/tools/go/ssa"
	"golang.org/x/tools/go/ssa/ssautil"

	"verif/checker/internal/xcfg"
)

// Prog is the loaded program.
type Prog struct {
	Repo    string
	GOOS    string
	Fset    *token.FileSet
	All     []*packages.Package          // everything matched by the patterns
	Target  []*packages.Package          // library packages (rule targets)
	ByPath  map[string]*packages.Package // import path -> package (targets + examples)
	SSA     *ssa.Program
	Funcs   []*FuncInfo // every FuncDecl / FuncLit with a body in target packages
	byDecl  map[*ast.FuncDecl]*FuncInfo
	byLit   map[*ast.FuncLit]*FuncInfo
	byObj   map[*types.Func]*FuncInfo
	parents map[ast.Node]ast.Node // child -> parent for every node in target files
	nodePkg map[*ast.File]*packages.Package
	needSSA bool
}

// FuncInfo is one function body (declared function or function literal).
type FuncInfo struct {
	Pkg    *packages.Package
	File   *ast.File
	Decl   *ast.FuncDecl
	Lit    *ast.FuncLit
	Obj    *types.Func // nil for literals
	Parent *FuncInfo   // enclosing function for literals
	Name   string      // "(*flow).Start" or "(*flow).Start$1"
	Body   *ast.BlockStmt
	Lits   []*FuncInfo // directly nested literals, source order
	graph  *Graph
}

// Root is the outermost declared function.
func (f *FuncInfo) Root() *FuncInfo {
	for f.Parent != nil {
		f = f.Parent
	}
	return f
}

func (f *FuncInfo) Type() *ast.FuncType {
	if f.Decl != nil {
		return f.Decl.Type
	}
	return f.Lit.Type
}

func (f *FuncInfo) Pos() token.Pos {
	if f.Decl != nil {
		return f.Decl.Pos()
	}
	return f.Lit.Pos()
}

// ShortPkg returns the package path relative to the module roots.
func shortPkg(path string) string {
	path = strings.TrimPrefix(path, "github.com/olive-io/bpmn/v2")
	path = strings.TrimPrefix(path, "github.com/olive-io/bpmn/")
	path = strings.TrimPrefix(path, "/")
	if path == "" {
		return "bpmn"
	}
	return path
}

// QName is the package-qualified name used in keys: "bpmn.(*flow).Start".
func (f *FuncInfo) QName() string { return shortPkg(f.Pkg.PkgPath) + "." + f.Name }

func hashFile(p string) string {
	b, err := os.ReadFile(p)
	if err != nil {
		return "absent"
	}
	return fmt.Sprintf("%x", sha256.Sum256(b))
}

// Load loads the repository. goos == "" means the host OS.
// loadOverlay, when set, adds in-memory files to the load (positive fixtures, see fixtures.go).
var loadOverlay map[string][]byte

func Load(repo, goos string, needSSA bool) (*Prog, error) {
	modFiles := []string{"go.mod", "go.sum", "go.work", "go.work.sum", "schema/go.mod", "schema/go.sum"}
	before := map[string]string{}
	for _, m := range modFiles {
		before[m] = hashFile(filepath.Join(repo, m))
	}

	env := []string{}
	for _, e := range os.Environ() {
		k := e
		if i := strings.IndexByte(e, '='); i >= 0 {
			k = e[:i]
		}
		switch k {
		case "GOFLAGS", "GOWORK", "GOOS", "GOARCH", "GOPROXY", "GOSUMDB", "GOTOOLCHAIN":
			continue
		}
		env = append(env, e)
	}
	env = append(env, "GOPROXY=off", "GOSUMDB=off", "GOTOOLCHAIN=local", "CGO_ENABLED=0")
	if _, err := os.Stat(filepath.Join(repo, "go.work")); err != nil {
		env = append(env, "GOWORK=off", "GOFLAGS=-mod=mod")
	}
	if goos != "" {
		env = append(env, "GOOS="+goos)
	}
	mode := packages.NeedName | packages.NeedFiles | packages.NeedCompiledGoFiles | packages.NeedImports |
		packages.NeedTypes | packages.NeedTypesSizes | packages.NeedSyntax | packages.NeedTypesInfo | packages.NeedDeps | packages.NeedModule
	fset := token.NewFileSet()
	cfg := &packages.Config{Mode: mode, Dir: repo, Env: env, Fset: fset, Tests: false, Overlay: loadOverlay}
	pkgs, err := packages.Load(cfg, "./...", "./schema/...")
	if err != nil {
		return nil, fmt.Errorf("packages.Load: %v", err)
	}
	if len(pkgs) == 0 {
		return nil, fmt.Errorf("no packages loaded from %s", repo)
	}
	var errs []string
	packages.Visit(pkgs, nil, func(p *packages.Package) {
		if p.Module != nil && strings.HasPrefix(p.Module.Path, "github.com/olive-io/bpmn") {
			for _, e := range p.Errors {
				errs = append(errs, e.Error())
			}
		}
	})
	if len(errs) > 0 {
		sort.Strings(errs)
		if len(errs) > 8 {
			errs = errs[:8]
		}
		return nil, fmt.Errorf("type/load errors: %s", strings.Join(errs, "; "))
	}
	for _, m := range modFiles {
		if hashFile(filepath.Join(repo, m)) != before[m] {
			return nil, fmt.Errorf("loading modified %s", m)
		}
	}

	p := &Prog{Repo: repo, GOOS: goos, Fset: fset, All: pkgs, ByPath: map[string]*packages.Package{},
		byDecl: map[*ast.FuncDecl]*FuncInfo{}, byLit: map[*ast.FuncLit]*FuncInfo{}, byObj: map[*types.Func]*FuncInfo{},
		parents: map[ast.Node]ast.Node{}, nodePkg: map[*ast.File]*packages.Package{}, needSSA: needSSA}
	sort.Slice(pkgs, func(i, j int) bool { return pkgs[i].PkgPath < pkgs[j].PkgPath })
	for _, pk := range pkgs {
		p.ByPath[pk.PkgPath] = pk
		if strings.Contains(pk.PkgPath, "/examples/") || strings.HasSuffix(pk.PkgPath, "/examples") {
			continue
		}
		p.Target = append(p.Target, pk)
	}
	if len(p.Target) < 14 {
		return nil, fmt.Errorf("only %d library packages loaded (expected >= 14)", len(p.Target))
	}
	for _, pk := range p.Target {
		for _, f := range pk.Syntax {
			p.nodePkg[f] = pk
			p.indexFile(pk, f)
		}
	}
	sort.SliceStable(p.Funcs, func(i, j int) bool {
		a, b := p.Fset.Position(p.Funcs[i].Pos()), p.Fset.Position(p.Funcs[j].Pos())
		if a.Filename != b.Filename {
			return a.Filename < b.Filename
		}
		return a.Offset < b.Offset
	})
	if needSSA {
		prog, _ := ssautil.AllPackages(pkgs, ssa.InstantiateGenerics)
		prog.Build()
		p.SSA = prog
	}
	return p, nil
}

func (p *Prog) indexFile(pk *packages.Package, file *ast.File) {
	var stack []ast.Node
	var fstack []*FuncInfo
	ast.Inspect(file, func(n ast.Node) bool {
		if n == nil {
			top := stack[len(stack)-1]
			stack = stack[:len(stack)-1]
			switch top.(type) {
			case *ast.FuncDecl, *ast.FuncLit:
				if len(fstack) > 0 {
					fi := fstack[len(fstack)-1]
					if (fi.Decl != nil && ast.Node(fi.Decl) == top) || (fi.Lit != nil && ast.Node(fi.Lit) == top) {
						fstack = fstack[:len(fstack)-1]
					}
				}
			}
			return true
		}
		if len(stack) > 0 {
			p.parents[n] = stack[len(stack)-1]
		}
		stack = append(stack, n)
		switch fn := n.(type) {
		case *ast.FuncDecl:
			if fn.Body == nil {
				return true
			}
			obj, _ := pk.TypesInfo.Defs[fn.Name].(*types.Func)
			fi := &FuncInfo{Pkg: pk, File: file, Decl: fn, Obj: obj, Body: fn.Body, Name: declName(fn)}
			p.Funcs = append(p.Funcs, fi)
			p.byDecl[fn] = fi
			if obj != nil {
				p.byObj[obj] = fi
			}
			fstack = append(fstack, fi)
		case *ast.FuncLit:
			var parent *FuncInfo
			if len(fstack) > 0 {
				parent = fstack[len(fstack)-1]
			}
			fi := &FuncInfo{Pkg: pk, File: file, Lit: fn, Body: fn.Body, Parent: parent}
			if parent != nil {
				parent.Lits = append(parent.Lits, fi)
				fi.Name = fmt.Sprintf("%s$%d", parent.Name, len(parent.Lits))
			} else {
				fi.Name = fmt.Sprintf("init$lit@%d", p.Fset.Position(fn.Pos()).Line)
			}
			p.Funcs = append(p.Funcs, fi)
			p.byLit[fn] = fi
			fstack = append(fstack, fi)
		}
		return true
	})
}

func declName(fn *ast.FuncDecl) string {
	if fn.Recv == nil || len(fn.Recv.List) == 0 {
		return fn.Name.Name
	}
	t := fn.Recv.List[0].Type
	star := ""
	if s, ok := t.(*ast.StarExpr); ok {
		star = "*"
		t = s.X
	}
	switch x := t.(type) {
	case *ast.IndexExpr:
		t = x.X
	case *ast.IndexListExpr:
		t = x.X
	}
	name := "?"
	if id, ok := t.(*ast.Ident); ok {
		name = id.Name
	}
	if star != "" {
		return "(*" + name + ")." + fn.Name.Name
	}
	return name + "." + fn.Name.Name
}

// Parent returns the syntactic parent of n.
func (p *Prog) Parent(n ast.Node) ast.Node { return p.parents[n] }

// EnclosingFunc returns the innermost function body containing n.
func (p *Prog) EnclosingFunc(n ast.Node) *FuncInfo {
	for cur := p.parents[n]; cur != nil; cur = p.parents[cur] {
		switch fn := cur.(type) {
		case *ast.FuncLit:
			return p.byLit[fn]
		case *ast.FuncDecl:
			return p.byDecl[fn]
		}
	}
	return nil
}

// Pos renders a position relative to the repository root.
func (p *Prog) Pos(pos token.Pos) string {
	if !pos.IsValid() {
		return "-"
	}
	ps := p.Fset.Position(pos)
	rel, err := filepath.Rel(p.Repo, ps.Filename)
	if err != nil {
		rel = ps.Filename
	}
	return fmt.Sprintf("%s:%d", rel, ps.Line)
}

// FuncByName finds a declared function by its package-qualified name, e.g.
// "bpmn.(*flow).Start" or "pkg/tracing.NewRelay".
func (p *Prog) FuncByName(q string) *FuncInfo {
	for _, f := range p.Funcs {
		if f.QName() == q {
			return f
		}
	}
	return nil
}

// PkgByShort finds a target package by its short path ("bpmn", "pkg/tracing", "schema").
func (p *Prog) PkgByShort(s string) *packages.Package {
	for _, pk := range p.Target {
		if shortPkg(pk.PkgPath) == s {
			return pk
		}
	}
	return nil
}

// Graph returns the (cached) control-flow graph of f.
func (p *Prog) Graph(f *FuncInfo) *Graph {
	if f.graph == nil {
		f.graph = newGraph(p, f)
	}
	return f.graph
}

func mayReturn(info *types.Info) func(*ast.CallExpr) bool {
	return func(call *ast.CallExpr) bool {
		switch fun := call.Fun.(type) {
		case *ast.Ident:
			if fun.Name == "panic" {
				if _, ok := info.Uses[fun].(*types.Builtin); ok {
					return false
				}
			}
		case *ast.SelectorExpr:
			if obj, ok := info.Uses[fun.Sel].(*types.Func); ok && obj.Pkg() != nil {
				full := obj.Pkg().Path() + "." + obj.Name()
				switch full {
				case "os.Exit", "log.Fatal", "log.Fatalf", "log.Fatalln", "runtime.Goexit":
					return false
				}
			}
		}
		return true
	}
}

var _ = xcfg.New
