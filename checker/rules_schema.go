package main

// Data, schema and id rules: R26 nil-map/reflect discipline, R27
// declared-only, R28 item-type switches, R29 FindBy coverage, R30 XML tables,
// R31 marshal-pure, R32 builder integrity, R33 id provenance, R34 id source.

import (
	"fmt"
	"go/ast"
	"go/constant"
	"go/token"
	"go/types"
	"reflect"
	"sort"
	"strings"
)

func init() {
	register(&Rule{ID: "R26", Title: "nil-map / reflect discipline: no write to a map field a constructor leaves nil; reflect accessors match the Kind they sit under; reflect.TypeOf results are nil-checked before use", Min: 8, Run: ruleR26})
	register(&Rule{ID: "R27", Title: "declared-only: task results reach instance data only under names taken from the element's declarations", Min: 2, Run: ruleR27})
	register(&Rule{ID: "R28", Title: "itemtype-exhaustive: switches over ItemType cover all declared item types or have a default", Min: 2, Run: ruleR28})
	register(&Rule{ID: "R29", Title: "findby-coverage: every child-element field of a schema struct is reached by its FindBy", Min: 300, Run: ruleR29})
	register(&Rule{ID: "R30", Title: "xml-tables: namespaces, prefixes and xmlns declarations of the writer agree with each other and with the reader", Min: 8, Run: ruleR30})
	register(&Rule{ID: "R31", Title: "marshal-pure: serialising does not write to the model", Min: 1, Run: ruleR31})
	register(&Rule{ID: "R32", Title: "builder-integrity: every storable activity type is stored; nodes are stored after linking; link updates both ends", Min: 8, Run: ruleR32})
	register(&Rule{ID: "R33", Title: "id-provenance: identifiers of flows and instances come from IGenerator.New", Min: 4, Run: ruleR33})
	register(&Rule{ID: "R34", Title: "id-source-not-clock-only: an identifier source is not a pure function of the clock", Min: 2, Run: ruleR34})
}

// ---- R26 ----

func ruleR26(c *Ctx) {
	defer r26chained(c)
	p := c.P
	// (a) map fields written by index assignment in a method, vs composite literals of the struct
	type mapField struct {
		owner *types.Named
		fld   *types.Var
		write ast.Node
		wf    *FuncInfo
	}
	var mfs []mapField
	seen := map[*types.Var]bool{}
	for _, f := range p.Funcs {
		in := info(f)
		g := p.Graph(f)
		inspectNoLit(f.Body, func(m ast.Node) bool {
			as, ok := m.(*ast.AssignStmt)
			if !ok {
				return true
			}
			for _, l := range as.Lhs {
				ix, ok := unparen(l).(*ast.IndexExpr)
				if !ok {
					continue
				}
				fv := fieldOf(in, ix.X)
				if fv == nil {
					continue
				}
				if _, isMap := fv.Type().Underlying().(*types.Map); !isMap {
					continue
				}
				sel := unparen(ix.X).(*ast.SelectorExpr)
				owner := namedOf(in.TypeOf(sel.X))
				if owner == nil || seen[fv] {
					continue
				}
				// guarded locally? a dominating assignment `x.f = make(...)` or nil test in the same function
				guarded := false
				wpt, _ := g.PointOf(as)
				for _, pt := range g.AllPoints() {
					if !g.Dominates(pt, wpt) || pt == wpt {
						continue
					}
					inspectNoLit(pt.Node(), func(z ast.Node) bool {
						if be, ok := z.(*ast.BinaryExpr); ok && (be.Op == token.EQL || be.Op == token.NEQ) {
							if fieldOf(in, be.X) == fv || fieldOf(in, be.Y) == fv {
								guarded = true
							}
						}
						if a2, ok := z.(*ast.AssignStmt); ok {
							for _, l2 := range a2.Lhs {
								if fieldOf(in, l2) == fv {
									guarded = true
								}
							}
						}
						return true
					})
				}
				if guarded {
					continue
				}
				seen[fv] = true
				mfs = append(mfs, mapField{owner, fv, as, f})
			}
			return true
		})
	}
	for _, mf := range mfs {
		// every composite literal of the owner type must initialise the field, unless the literal's
		// function assigns the field before returning
		var bad []string
		nlit := 0
		for _, f := range p.Funcs {
			in := info(f)
			inspectNoLit(f.Body, func(m ast.Node) bool {
				cl, ok := m.(*ast.CompositeLit)
				if !ok || namedOf(in.TypeOf(cl)) != mf.owner {
					return true
				}
				if _, isPtrToPtr := in.TypeOf(cl).(*types.Pointer); isPtrToPtr {
					return true
				}
				nlit++
				init := false
				for _, el := range cl.Elts {
					if kv, ok := el.(*ast.KeyValueExpr); ok {
						if id, ok := kv.Key.(*ast.Ident); ok && id.Name == mf.fld.Name() {
							if vid, isNil := unparen(kv.Value).(*ast.Ident); !(isNil && vid.Name == "nil") {
								init = true
							}
						}
					}
				}
				if !init {
					// assigned later in the same function?
					inspectNoLit(f.Body, func(z ast.Node) bool {
						if a2, ok := z.(*ast.AssignStmt); ok {
							for _, l2 := range a2.Lhs {
								if fieldOf(in, l2) == mf.fld {
									init = true
								}
							}
						}
						return true
					})
				}
				if !init {
					bad = append(bad, f.QName()+" at "+p.Pos(cl.Pos()))
				}
				return true
			})
		}
		c.Check(len(bad) == 0, mf.wf, mf.write, "index write to map field "+mf.owner.Obj().Name()+"."+mf.fld.Name(),
			"a map field that a method writes with m[k] = v must be initialised by every place that constructs the struct (a write to a nil map panics)",
			ifEmpty(strings.Join(bad, "; "), fmt.Sprintf("%d constructing literals, all initialise the field", nlit))+ifNotEmpty(bad, " construct the struct without initialising the map"))
	}
	// (b) reflect accessor vs Kind case
	allowed := map[string][]string{
		"Int":   {"Int", "Int8", "Int16", "Int32", "Int64"},
		"Uint":  {"Uint", "Uint8", "Uint16", "Uint32", "Uint64", "Uintptr"},
		"Float": {"Float32", "Float64"},
		"Bool":  {"Bool"},
	}
	for _, f := range p.Funcs {
		in := info(f)
		inspectNoLit(f.Body, func(m ast.Node) bool {
			call, ok := m.(*ast.CallExpr)
			if !ok {
				return true
			}
			fn := callee(in, call)
			if fn == nil || fn.Pkg() == nil || fn.Pkg().Path() != "reflect" {
				return true
			}
			rn := recvNamed(fn)
			if rn == nil || rn.Obj().Name() != "Value" {
				return true
			}
			okKinds, tracked := allowed[fn.Name()]
			if !tracked {
				return true
			}
			recv := unparen(call.Fun).(*ast.SelectorExpr).X
			// innermost enclosing case clause of `switch recv.Kind()`
			for cur := p.Parent(call); cur != nil; cur = p.Parent(cur) {
				cc, ok := cur.(*ast.CaseClause)
				if !ok {
					continue
				}
				body, _ := p.Parent(cc).(*ast.BlockStmt)
				sw, _ := p.Parent(body).(*ast.SwitchStmt)
				if sw == nil || sw.Tag == nil {
					continue
				}
				kc, ok := unparen(sw.Tag).(*ast.CallExpr)
				if !ok {
					continue
				}
				kfn := callee(in, kc)
				if kfn == nil || kfn.Name() != "Kind" || !sameRef(in, unparen(kc.Fun).(*ast.SelectorExpr).X, recv) {
					continue
				}
				var wrong []string
				for _, e := range cc.List {
					name := ""
					if sel, ok := unparen(e).(*ast.SelectorExpr); ok {
						name = sel.Sel.Name
					}
					found := false
					for _, k := range okKinds {
						if k == name {
							found = true
						}
					}
					if !found {
						wrong = append(wrong, name)
					}
				}
				c.Check(len(wrong) == 0, f, call, "reflect.Value."+fn.Name()+" under a Kind case",
					"reflect.Value."+fn.Name()+"() panics for kinds other than "+strings.Join(okKinds, ",")+"; the case it sits under may list only those kinds",
					ifEmpty(strings.Join(wrong, ","), "all listed kinds are admissible")+ifNotEmpty(wrong, " listed in the same case"))
				break
			}
			return true
		})
	}
	// (b2) accessors with a kind precondition that are not under a Kind switch clause need a guard
	needKinds := map[string][]string{
		"IsNil": {"Chan", "Func", "Interface", "Map", "Pointer", "Ptr", "Slice", "UnsafePointer"},
		"Elem":  {"Pointer", "Ptr", "Interface"},
	}
	for _, f := range p.Funcs {
		in := info(f)
		inspectNoLit(f.Body, func(m ast.Node) bool {
			call, ok := m.(*ast.CallExpr)
			if !ok {
				return true
			}
			fn := callee(in, call)
			if fn == nil || fn.Pkg() == nil || fn.Pkg().Path() != "reflect" || recvNamed(fn) == nil || recvNamed(fn).Obj().Name() != "Value" {
				return true
			}
			okKinds, tracked := needKinds[fn.Name()]
			if !tracked {
				return true
			}
			recv := unparen(call.Fun).(*ast.SelectorExpr).X
			guarded, why := false, "no kind guard"
			for cur := p.Parent(call); cur != nil && !guarded; cur = p.Parent(cur) {
				stop := false
				switch x := cur.(type) {
				case *ast.IfStmt:
					if call.Pos() >= x.Body.Pos() && call.End() <= x.Body.End() {
						inspectNoLit(x.Cond, func(z ast.Node) bool {
							be, ok := z.(*ast.BinaryExpr)
							if !ok || be.Op != token.EQL {
								return true
							}
							kc, ok := unparen(be.X).(*ast.CallExpr)
							if !ok || callee(in, kc) == nil || callee(in, kc).Name() != "Kind" || !sameRef(in, unparen(kc.Fun).(*ast.SelectorExpr).X, recv) {
								return true
							}
							if sel, ok := unparen(be.Y).(*ast.SelectorExpr); ok {
								for _, k := range okKinds {
									if sel.Sel.Name == k {
										guarded, why = true, "under `"+exprStringShort(x.Cond)+"`"
									}
								}
							}
							return true
						})
					}
				case *ast.CaseClause:
					body, _ := p.Parent(x).(*ast.BlockStmt)
					if sw, _ := p.Parent(body).(*ast.SwitchStmt); sw != nil && sw.Tag != nil {
						if kc, ok := unparen(sw.Tag).(*ast.CallExpr); ok && callee(in, kc) != nil && callee(in, kc).Name() == "Kind" && sameRef(in, unparen(kc.Fun).(*ast.SelectorExpr).X, recv) {
							all := len(x.List) > 0
							for _, e := range x.List {
								name := ""
								if sel, ok := unparen(e).(*ast.SelectorExpr); ok {
									name = sel.Sel.Name
								}
								found := false
								for _, k := range okKinds {
									if k == name {
										found = true
									}
								}
								if !found {
									all = false
								}
							}
							if all {
								guarded, why = true, "under a Kind case listing only admissible kinds"
							}
						}
					}
				case *ast.FuncDecl, *ast.FuncLit:
					stop = true
				}
				if stop {
					break
				}
			}
			c.Check(guarded, f, call, "reflect.Value."+fn.Name()+" needs a kind guard", "reflect.Value."+fn.Name()+"() panics unless the value's kind is one of "+strings.Join(okKinds, ",")+"; the call must sit under a test of Kind() on the same value", why)
			return true
		})
	}
	// (c) method call on reflect.TypeOf(x) where x is interface-typed: needs a nil test
	for _, f := range p.Funcs {
		in := info(f)
		g := p.Graph(f)
		inspectNoLit(f.Body, func(m ast.Node) bool {
			as, ok := m.(*ast.AssignStmt)
			if !ok || len(as.Lhs) != 1 || len(as.Rhs) != 1 {
				return true
			}
			call, ok := unparen(as.Rhs[0]).(*ast.CallExpr)
			if !ok || !isPkgFunc(callee(in, call), "reflect", "TypeOf") || len(call.Args) != 1 {
				return true
			}
			if _, isIface := in.TypeOf(call.Args[0]).Underlying().(*types.Interface); !isIface {
				return true
			}
			rt, ok := objOf(in, as.Lhs[0]).(*types.Var)
			if !ok {
				return true
			}
			argObj := objOf(in, call.Args[0])
			// first use of rt as a method receiver after the assignment
			apt, _ := g.PointOf(as)
			var firstUse ast.Node
			var usePt Point
			for _, pt := range g.AllPoints() {
				if !g.Dominates(apt, pt) || pt == apt {
					continue
				}
				inspectNoLit(pt.Node(), func(z ast.Node) bool {
					if mc, ok := z.(*ast.CallExpr); ok {
						if sel, ok := unparen(mc.Fun).(*ast.SelectorExpr); ok {
							if id, ok := unparen(sel.X).(*ast.Ident); ok && in.Uses[id] == types.Object(rt) {
								if firstUse == nil || z.Pos() < firstUse.Pos() {
									firstUse, usePt = z, pt
								}
							}
						}
					}
					return true
				})
			}
			if firstUse == nil {
				return true
			}
			// nil test of rt or of the argument dominating the use
			guarded := false
			for _, pt := range g.AllPoints() {
				if !g.Dominates(pt, usePt) || pt == usePt {
					continue
				}
				inspectNoLit(pt.Node(), func(z ast.Node) bool {
					if be, ok := z.(*ast.BinaryExpr); ok && (be.Op == token.EQL || be.Op == token.NEQ) {
						for _, pair := range [][2]ast.Expr{{be.X, be.Y}, {be.Y, be.X}} {
							if id, ok := unparen(pair[1]).(*ast.Ident); ok && id.Name == "nil" {
								if o := objOf(in, pair[0]); o != nil && (o == types.Object(rt) || o == argObj) {
									guarded = true
								}
							}
						}
					}
					// reflect.ValueOf(arg).IsValid() (possibly through a local) is false exactly for a nil interface
					if vc, ok := z.(*ast.CallExpr); ok {
						if vfn := callee(in, vc); vfn != nil && vfn.Name() == "IsValid" && vfn.Pkg() != nil && vfn.Pkg().Path() == "reflect" {
							rx := unparen(vc.Fun).(*ast.SelectorExpr).X
							isOfArg := func(e ast.Expr) bool {
								if c2, ok := unparen(e).(*ast.CallExpr); ok && isPkgFunc(callee(in, c2), "reflect", "ValueOf") && len(c2.Args) == 1 {
									return objOf(in, c2.Args[0]) == argObj && argObj != nil
								}
								return false
							}
							if isOfArg(rx) {
								guarded = true
							} else if id, ok := rx.(*ast.Ident); ok {
								lv := objOf(in, id)
								inspectNoLit(f.Body, func(y ast.Node) bool {
									if a2, ok := y.(*ast.AssignStmt); ok && len(a2.Lhs) == 1 && len(a2.Rhs) == 1 {
										if lid, ok := a2.Lhs[0].(*ast.Ident); ok && objOf(in, lid) == lv && lv != nil && isOfArg(a2.Rhs[0]) {
											guarded = true
										}
									}
									return true
								})
							}
						}
					}
					return true
				})
			}
			c.Check(guarded, f, firstUse, "method call on reflect.TypeOf(interface value)",
				"reflect.TypeOf(nil) is nil, so a method call on its result needs a dominating nil test of the value or of the type (else a nil value with a typed declaration panics)",
				fmt.Sprintf("dominating nil test: %v", guarded))
			return true
		})
	}
}

// (d) of R26: the chained form reflect.TypeOf(v).M() on a value of type any (user data: nil is JSON null)
func r26chained(c *Ctx) {
	p := c.P
	for _, f := range p.Funcs {
		if f.Body == nil || !isTargetPkg(p, f.Pkg.PkgPath) {
			continue
		}
		in := info(f)
		inspectNoLit(f.Body, func(m ast.Node) bool {
			mc, ok := m.(*ast.CallExpr)
			if !ok {
				return true
			}
			sel, ok := unparen(mc.Fun).(*ast.SelectorExpr)
			if !ok {
				return true
			}
			call, ok := unparen(sel.X).(*ast.CallExpr)
			if !ok || !isPkgFunc(callee(in, call), "reflect", "TypeOf") || len(call.Args) != 1 {
				return true
			}
			it, isIface := in.TypeOf(call.Args[0]).Underlying().(*types.Interface)
			if !isIface || it.NumMethods() != 0 {
				return true
			}
			if sel.Sel.Name == "Elem" {
				// reflect.TypeOf(token).Elem(): the type-token idiom (the argument is a typed nil pointer that names an
				// interface, not a value of the data layer)
				return true
			}
			argObj := objOf(in, call.Args[0])
			guarded := false
			for _, pc := range polarConds(p, mc) {
				be, ok := unparen(pc.cond).(*ast.BinaryExpr)
				if !ok {
					continue
				}
				for _, pair := range [][2]ast.Expr{{be.X, be.Y}, {be.Y, be.X}} {
					if tv, ok := in.Types[pair[1]]; ok && tv.IsNil() && argObj != nil && objOf(in, pair[0]) == argObj {
						if (be.Op == token.NEQ && pc.positive) || (be.Op == token.EQL && !pc.positive) {
							guarded = true
						}
					}
				}
			}
			c.Check(guarded, f, mc, "method call on reflect.TypeOf(value of type any)",
				"reflect.TypeOf(nil) is nil, so a method call on its result needs a nil test of the value (a nil variable, a JSON null, panics the engine otherwise)",
				fmt.Sprintf("controlled by a nil test of the value: %v", guarded))
			return true
		})
	}
}

func ifNotEmpty(l []string, s string) string {
	if len(l) > 0 {
		return s
	}
	return ""
}

// ---- R27 ----

func ruleR27(c *Ctx) {
	p := c.P
	for _, f := range p.Funcs {
		if f.Obj == nil || f.Pkg.PkgPath != pathBpmn {
			continue
		}
		in := info(f)
		sig := f.Obj.Type().(*types.Signature)
		// role: has a map[string]any parameter and returns map[string]data.IItem
		var src *types.Var
		for i := 0; i < sig.Params().Len(); i++ {
			if m, ok := sig.Params().At(i).Type().Underlying().(*types.Map); ok {
				if _, isIface := m.Elem().Underlying().(*types.Interface); isIface && !isNamed(m.Elem(), pathData, "IItem") {
					src = sig.Params().At(i)
				}
			}
		}
		if src == nil || sig.Results().Len() != 1 {
			continue
		}
		rm, ok := sig.Results().At(0).Type().Underlying().(*types.Map)
		if !ok || !isNamed(rm.Elem(), pathData, "IItem") {
			continue
		}
		// stores into a map[string]IItem local
		n := 0
		inspectNoLit(f.Body, func(m ast.Node) bool {
			as, ok := m.(*ast.AssignStmt)
			if !ok {
				return true
			}
			for _, l := range as.Lhs {
				ix, ok := unparen(l).(*ast.IndexExpr)
				if !ok {
					continue
				}
				mt, ok := in.TypeOf(ix.X).Underlying().(*types.Map)
				if !ok || !isNamed(mt.Elem(), pathData, "IItem") {
					continue
				}
				n++
				// key derives from a range variable: over what?
				keyRoot := rootIdent(ix.Index)
				origin := "unknown"
				okKey := false
				if keyRoot != nil {
					ko := objOf(in, keyRoot)
					for cur := p.Parent(as); cur != nil; cur = p.Parent(cur) {
						rs, ok := cur.(*ast.RangeStmt)
						if !ok {
							continue
						}
						for _, kv := range []ast.Expr{rs.Key, rs.Value} {
							if id, ok := kv.(*ast.Ident); ok && in.Defs[id] == ko && ko != nil {
								rx := rootIdent(rs.X)
								if rx != nil && objOf(in, rx) == types.Object(src) {
									origin = "range over the caller-supplied map " + src.Name()
								} else {
									origin = "range over declaration " + exprStringShort(rs.X)
									okKey = true
								}
							}
						}
					}
				}
				c.Check(okKey, f, as, "store into returned instance-data map", "the key under which a task result / data output is stored derives from ranging over the element's declarations, never from the answer's own keys (undeclared names must not reach instance data)", "key origin: "+origin)
				// the store happens only for names the answer actually carries: it is control-dependent on
				// the `ok` of a comma-ok lookup in the caller-supplied map
				present := enclosingIfWhere(p, as, f.Body, func(cond ast.Expr, inThen bool) bool {
					id, isId := unparen(cond).(*ast.Ident)
					if !isId || !inThen {
						return false
					}
					okObj := objOf(in, id)
					found := false
					inspectNoLit(f.Body, func(z ast.Node) bool {
						a2, isAs := z.(*ast.AssignStmt)
						if !isAs || len(a2.Lhs) != 2 || len(a2.Rhs) != 1 {
							return true
						}
						if lid, k := a2.Lhs[1].(*ast.Ident); !k || objOf(in, lid) != okObj {
							return true
						}
						if ix, k := unparen(a2.Rhs[0]).(*ast.IndexExpr); k {
							if rid := rootIdent(ix.X); rid != nil && objOf(in, rid) == types.Object(src) {
								found = true
							}
						}
						return true
					})
					return found
				})
				c.Check(present != nil, f, as, "store only for names present in the answer", "a declared result is stored only when the answer carries it (comma-ok lookup in the answer map guards the store); otherwise an answer that omits a declared name overwrites the existing variable with an empty value", fmt.Sprintf("guarded by the ok of a lookup in %s: %v", src.Name(), present != nil))
			}
			return true
		})
		if n == 0 {
			c.Bad(f, f.Body, "store into returned instance-data map", "a result filter must store declared results", "no store found in "+f.QName())
		}
	}
}

// ---- R28 ----

func ruleR28(c *Ctx) {
	p := c.P
	for _, f := range p.Funcs {
		in := info(f)
		inspectNoLit(f.Body, func(m ast.Node) bool {
			sw, ok := m.(*ast.SwitchStmt)
			if !ok || sw.Tag == nil {
				return true
			}
			n := namedOf(in.TypeOf(sw.Tag))
			if n == nil || n.Obj().Name() != "ItemType" {
				return true
			}
			consts := enumConsts(n)
			handled := map[string]bool{}
			hasDefault := false
			for _, s := range sw.Body.List {
				cc := s.(*ast.CaseClause)
				if cc.List == nil {
					hasDefault = true
				}
				for _, e := range cc.List {
					if tv, ok := in.Types[e]; ok && tv.Value != nil {
						handled[tv.Value.ExactString()] = true
					}
				}
			}
			var missing []string
			for _, k := range consts {
				if !handled[k.Val().ExactString()] {
					missing = append(missing, k.Name())
				}
			}
			inValueLayer := shortPkg(f.Pkg.PkgPath) == "schema"
			ok2 := len(missing) == 0 || (hasDefault && !inValueLayer)
			if inValueLayer {
				ok2 = len(missing) == 0 && hasDefault
			}
			c.Check(ok2, f, sw, "switch over ItemType", "the value layer's switches over ItemType name every declared item type and keep a default for undeclared ones", ifEmpty(strings.Join(missing, ","), "none")+" missing; default="+fmt.Sprint(hasDefault))
			return true
		})
	}
}

// ---- R29 ----

func ruleR29(c *Ctx) {
	p := c.P
	pk := p.ByPath[pathSchema]
	if pk == nil {
		c.Missing("schema package", "package schema not loaded")
		return
	}
	scope := pk.Types.Scope()
	elemIface, _ := scope.Lookup("Element").Type().Underlying().(*types.Interface)
	if elemIface == nil {
		c.Missing("Element interface", "schema.Element not found")
		return
	}
	implementsElem := func(t types.Type) bool {
		for {
			switch x := t.(type) {
			case *types.Pointer:
				t = x.Elem()
				continue
			case *types.Slice:
				t = x.Elem()
				continue
			}
			break
		}
		if _, isIface := t.Underlying().(*types.Interface); isIface {
			return types.Implements(t, elemIface)
		}
		return types.Implements(types.NewPointer(t), elemIface) || types.Implements(t, elemIface)
	}
	// may the subtree rooted at a value of type t contain an element with an id?
	idMemo := map[types.Type]int{} // 1 yes, 2 no, 3 in progress
	var bearsId func(t types.Type) bool
	bearsId = func(t types.Type) bool {
		for {
			switch x := t.(type) {
			case *types.Pointer:
				t = x.Elem()
				continue
			case *types.Slice:
				t = x.Elem()
				continue
			}
			break
		}
		switch idMemo[t] {
		case 1:
			return true
		case 2, 3:
			return false
		}
		idMemo[t] = 3
		res := false
		if _, isIface := t.Underlying().(*types.Interface); isIface {
			res = true // unknown dynamic type: assume it can
		} else {
			ms := types.NewMethodSet(types.NewPointer(t))
			if sel := ms.Lookup(pk.Types, "Id"); sel != nil {
				res = true
			}
			if st, ok := t.Underlying().(*types.Struct); ok && !res {
				for i := 0; i < st.NumFields(); i++ {
					if implementsElem(st.Field(i).Type()) && bearsId(st.Field(i).Type()) {
						res = true
					}
				}
			}
		}
		if res {
			idMemo[t] = 1
		} else {
			idMemo[t] = 2
		}
		return res
	}
	for _, f := range p.Funcs {
		if f.Pkg != pk || f.Obj == nil || f.Obj.Name() != "FindBy" {
			continue
		}
		T := recvNamed(f.Obj)
		if T == nil {
			continue
		}
		st, ok := T.Underlying().(*types.Struct)
		if !ok {
			continue
		}
		in := info(f)
		// a field counts as searched when it is what FindBy is called on (x.F.FindBy, x.F[i].FindBy), what a loop
		// that calls FindBy ranges / indexes over, or an argument handed to a helper — a mere nil test of the
		// field does not search it
		used := map[*types.Var]bool{}
		mark := func(n ast.Node) {
			ast.Inspect(n, func(z ast.Node) bool {
				if sel, ok := z.(*ast.SelectorExpr); ok {
					if s, ok := in.Selections[sel]; ok && s.Kind() == types.FieldVal {
						used[s.Obj().(*types.Var)] = true
					}
				}
				return true
			})
		}
		callsFindBy := func(n ast.Node) bool {
			found := false
			ast.Inspect(n, func(z ast.Node) bool {
				if cl, ok := z.(*ast.CallExpr); ok {
					if s, ok := unparen(cl.Fun).(*ast.SelectorExpr); ok && s.Sel.Name == "FindBy" {
						found = true
					}
				}
				return !found
			})
			return found
		}
		inspectNoLit(f.Body, func(m ast.Node) bool {
			switch x := m.(type) {
			case *ast.CallExpr:
				if s, ok := unparen(x.Fun).(*ast.SelectorExpr); ok && s.Sel.Name == "FindBy" {
					mark(s.X)
					// `if value := t.F; value != nil { value.FindBy(f) }`: the local stands for the field
					if id := rootIdent(s.X); id != nil {
						if o := objOf(in, id); o != nil {
							defs, _ := localDefs(in, f.Body, o)
							for _, d := range defs {
								mark(d)
							}
						}
					}
				} else {
					for _, a := range x.Args {
						mark(a)
					}
				}
			case *ast.RangeStmt:
				if callsFindBy(x.Body) {
					mark(x.X)
				}
			case *ast.ForStmt:
				if callsFindBy(x.Body) && x.Cond != nil {
					mark(x.Cond)
				}
			}
			return true
		})
		for i := 0; i < st.NumFields(); i++ {
			fld := st.Field(i)
			if !implementsElem(fld.Type()) {
				continue
			}
			if !bearsId(fld.Type()) {
				c.Ok(f, f.Decl, "FindBy of "+T.Obj().Name()+" vs "+fld.Name(), "child element type carries no id anywhere below it: not needed for id retrieval", "no Id() method in the subtree of "+typeString(fld.Type()), false)
				continue
			}
			c.Check(used[fld], f, f.Decl, "FindBy of "+T.Obj().Name()+" reaches "+fld.Name(),
				"every child-element field ("+T.Obj().Name()+"."+fld.Name()+") is searched by "+T.Obj().Name()+".FindBy, otherwise elements with ids below it are not retrievable by id",
				fmt.Sprintf("field referenced in the FindBy body: %v", used[fld]))
		}
	}
}

// ---- R30 ----

func constString(in *types.Info, e ast.Expr) (string, bool) {
	if tv, ok := in.Types[e]; ok && tv.Value != nil && tv.Value.Kind() == constant.String {
		return constant.StringVal(tv.Value), true
	}
	return "", false
}

func ruleR30(c *Ctx) {
	p := c.P
	pk := p.ByPath[pathSchema]
	if pk == nil {
		c.Missing("schema package", "package schema not loaded")
		return
	}
	in := pk.TypesInfo
	// mapping table: URI -> prefix
	mapping := map[string]string{}
	var mappingNode ast.Node
	for _, file := range pk.Syntax {
		for _, d := range file.Decls {
			gd, ok := d.(*ast.GenDecl)
			if !ok || gd.Tok != token.VAR {
				continue
			}
			for _, sp := range gd.Specs {
				vs := sp.(*ast.ValueSpec)
				for i, nm := range vs.Names {
					if nm.Name != "mapping" || i >= len(vs.Values) {
						continue
					}
					if cl, ok := vs.Values[i].(*ast.CompositeLit); ok {
						mappingNode = cl
						for _, el := range cl.Elts {
							kv := el.(*ast.KeyValueExpr)
							k, ok1 := constString(in, kv.Key)
							v, ok2 := constString(in, kv.Value)
							if ok1 && ok2 {
								mapping[k] = strings.TrimSuffix(v, ":")
							}
						}
					}
				}
			}
		}
	}
	if len(mapping) < 3 {
		c.Missing("namespace mapping", "the namespace->prefix table `mapping` was not found in package schema")
		return
	}
	// (a) namespaces in struct tags
	tagNS := map[string]bool{}
	scope := pk.Types.Scope()
	for _, name := range scope.Names() {
		tn, ok := scope.Lookup(name).(*types.TypeName)
		if !ok {
			continue
		}
		st, ok := tn.Type().Underlying().(*types.Struct)
		if !ok {
			continue
		}
		for i := 0; i < st.NumFields(); i++ {
			tag := reflect.StructTag(st.Tag(i)).Get("xml")
			if sp := strings.IndexByte(tag, ' '); sp > 0 {
				tagNS[tag[:sp]] = true
			}
		}
	}
	var nss []string
	for ns := range tagNS {
		nss = append(nss, ns)
	}
	sort.Strings(nss)
	for _, ns := range nss {
		_, ok := mapping[ns]
		c.Check(ok, nil, mappingNode, "namespace "+ns+" of struct tags is mapped", "every namespace used in an xml struct tag has a prefix in the writer's table (otherwise elements are written with a namespace the reader cannot resolve)", fmt.Sprintf("in mapping: %v", ok))
	}
	// declared xmlns:<p> attributes (composite literals xml.Attr{Name: xml.Name{Local: "xmlns:p"}, Value: uri})
	declared := map[string]string{}
	usedPrefix := map[string]ast.Node{}
	for _, f := range p.Funcs {
		if f.Pkg != pk {
			continue
		}
		fin := info(f)
		ast.Inspect(f.Body, func(m ast.Node) bool {
			cl, ok := m.(*ast.CompositeLit)
			if !ok {
				return true
			}
			if isNamed(fin.TypeOf(cl), "encoding/xml", "Attr") {
				var local, val string
				for _, el := range cl.Elts {
					kv, ok := el.(*ast.KeyValueExpr)
					if !ok {
						continue
					}
					key := kv.Key.(*ast.Ident).Name
					if key == "Name" {
						if ncl, ok := kv.Value.(*ast.CompositeLit); ok {
							for _, nel := range ncl.Elts {
								if nkv, ok := nel.(*ast.KeyValueExpr); ok && nkv.Key.(*ast.Ident).Name == "Local" {
									local, _ = constString(fin, nkv.Value)
								}
							}
						}
					}
					if key == "Value" {
						val, _ = constString(fin, kv.Value)
					}
				}
				if strings.HasPrefix(local, "xmlns:") {
					declared[strings.TrimPrefix(local, "xmlns:")] = val
				} else if i := strings.IndexByte(local, ':'); i > 0 {
					usedPrefix[local[:i]] = cl
				}
				return true
			}
			if isNamed(fin.TypeOf(cl), "encoding/xml", "Name") {
				for _, el := range cl.Elts {
					if kv, ok := el.(*ast.KeyValueExpr); ok && kv.Key.(*ast.Ident).Name == "Local" {
						// "p:" + x  or constant "p:local"
						var s string
						if be, ok := unparen(kv.Value).(*ast.BinaryExpr); ok && be.Op == token.ADD {
							s, _ = constString(fin, be.X)
						} else {
							s, _ = constString(fin, kv.Value)
						}
						if i := strings.IndexByte(s, ':'); i > 0 && !strings.HasPrefix(s, "xmlns:") {
							usedPrefix[s[:i]] = cl
						}
					}
				}
			}
			return true
		})
	}
	for _, pfx := range mapping {
		if _, ok := usedPrefix[pfx]; !ok {
			usedPrefix[pfx] = mappingNode
		}
	}
	var pfxs []string
	for k := range usedPrefix {
		pfxs = append(pfxs, k)
	}
	sort.Strings(pfxs)
	// (b) every written prefix is declared
	for _, pfx := range pfxs {
		_, ok := declared[pfx]
		c.Check(ok, p.EnclosingFunc(usedPrefix[pfx]), usedPrefix[pfx], "prefix "+pfx+" has an xmlns declaration", "every prefix the writer puts into a name has an xmlns:"+pfx+" attribute on the root element; an undeclared prefix is not a namespace for the reader", fmt.Sprintf("declared prefixes: %v", sortedMapKeys(declared)))
	}
	// table agreement: mapping[uri] == p  <=>  declared[p] == uri
	var uris []string
	for u := range mapping {
		uris = append(uris, u)
	}
	sort.Strings(uris)
	for _, u := range uris {
		pfx := mapping[u]
		c.Check(declared[pfx] == u, nil, mappingNode, "xmlns:"+pfx+" declares the mapped namespace", "the URI declared for prefix "+pfx+" equals the namespace that maps to it", fmt.Sprintf("declared %q, mapped %q", declared[pfx], u))
	}
	// (c) attribute tested on parse vs attribute written
	var testedSpace, testedLocal string
	var writtenAttr []string
	for _, f := range p.Funcs {
		if f.Pkg != pk || f.Obj == nil || recvNamed(f.Obj) == nil || recvNamed(f.Obj).Obj().Name() != "AnExpression" {
			continue
		}
		fin := info(f)
		if f.Obj.Name() == "UnmarshalXML" {
			for _, rf := range withSamePkgCallees(p, f, 2) {
				fin := info(rf)
				inspectNoLit(rf.Body, func(m ast.Node) bool {
					if be, ok := m.(*ast.BinaryExpr); ok && be.Op == token.EQL {
						if sel, ok := unparen(be.X).(*ast.SelectorExpr); ok {
							if s, ok := constString(fin, be.Y); ok {
								switch sel.Sel.Name {
								case "Space":
									testedSpace = s
								case "Local":
									testedLocal = s
								}
							}
						}
					}
					return true
				})
			}
		}
		if f.Obj.Name() == "MarshalXML" {
			for _, wf := range withSamePkgCallees(p, f, 2) {
				wfin := info(wf)
				ast.Inspect(wf.Body, func(m ast.Node) bool {
					if kv, ok := m.(*ast.KeyValueExpr); ok {
						if id, ok := kv.Key.(*ast.Ident); ok && id.Name == "Local" {
							if s, ok := constString(wfin, kv.Value); ok {
								writtenAttr = append(writtenAttr, s)
							}
						}
					}
					return true
				})
			}
			_ = fin
		}
	}
	// (d) the kind VALUE written for each expression type is classified the same way by the reader
	var eqConsts, suffixConsts []string
	written := map[string]string{} // case type -> attribute value
	for _, f := range p.Funcs {
		if f.Pkg != pk || f.Obj == nil || recvNamed(f.Obj) == nil || recvNamed(f.Obj).Obj().Name() != "AnExpression" {
			continue
		}
		fin := info(f)
		if f.Obj.Name() == "UnmarshalXML" {
			for _, rf := range withSamePkgCallees(p, f, 2) {
				fin := info(rf)
				inspectNoLit(rf.Body, func(m ast.Node) bool {
					switch x := m.(type) {
					case *ast.BinaryExpr:
						if x.Op == token.EQL {
							if sel, ok := unparen(x.X).(*ast.SelectorExpr); ok && sel.Sel.Name == "Value" {
								if sv, ok := constString(fin, x.Y); ok {
									eqConsts = append(eqConsts, sv)
								}
							}
							// in a helper the attribute value is a parameter
							if id, ok := unparen(x.X).(*ast.Ident); ok && rf != f {
								if v, ok := objOf(fin, id).(*types.Var); ok && isParam(rf, v) {
									if sv, ok := constString(fin, x.Y); ok {
										eqConsts = append(eqConsts, sv)
									}
								}
							}
						}
					case *ast.CallExpr:
						if fn := callee(fin, x); fn != nil && fn.Pkg() != nil && fn.Pkg().Path() == "strings" && fn.Name() == "HasSuffix" && len(x.Args) == 2 {
							if sv, ok := constString(fin, x.Args[1]); ok {
								suffixConsts = append(suffixConsts, sv)
							}
						}
					}
					return true
				})
			}
		}
		if f.Obj.Name() == "MarshalXML" {
			anyIface := func(t types.Type) bool {
				if t == nil {
					return false
				}
				_, ok := t.Underlying().(*types.Interface)
				return ok
			}
			for _, arms := range typeDispatches(p, f, anyIface) {
				for _, arm := range arms {
					if len(arm.Types) != 1 {
						continue
					}
					tn := typeString(arm.Types[0])
					for _, st := range arm.Body {
						ast.Inspect(st, func(z ast.Node) bool {
							if kv, ok := z.(*ast.KeyValueExpr); ok {
								if id, ok := kv.Key.(*ast.Ident); ok && id.Name == "Value" {
									if sv, ok := constString(fin, kv.Value); ok {
										written[tn] = sv
									}
								}
							}
							// a helper that builds the attribute from the kind it is handed
							if cl, ok := z.(*ast.CallExpr); ok {
								if cf := p.byObj[callee(fin, cl)]; cf != nil && cf.Pkg == f.Pkg && cf.Body != nil && cf.Obj != nil {
									cin := info(cf)
									sig := cf.Obj.Type().(*types.Signature)
									ast.Inspect(cf.Body, func(y ast.Node) bool {
										kv, ok := y.(*ast.KeyValueExpr)
										if !ok {
											return true
										}
										if id, ok := kv.Key.(*ast.Ident); !ok || id.Name != "Value" {
											return true
										}
										if vid, ok := unparen(kv.Value).(*ast.Ident); ok {
											for i := 0; i < sig.Params().Len() && i < len(cl.Args); i++ {
												if objOf(cin, vid) == types.Object(sig.Params().At(i)) {
													if sv, ok := constString(fin, cl.Args[i]); ok {
														written[tn] = sv
													}
												}
											}
										}
										return true
									})
								}
							}
							return true
						})
					}
				}
			}
		}
	}
	readsFormal := func(v string) bool {
		for _, e := range eqConsts {
			if v == e {
				return true
			}
		}
		for _, sfx := range suffixConsts {
			if strings.HasSuffix(v, sfx) {
				return true
			}
		}
		return false
	}
	for tn, v := range written {
		wantFormal := strings.Contains(tn, "FormalExpression")
		got := readsFormal(v)
		c.Check(got == wantFormal, nil, mappingNode, "kind value written for "+tn+" is read back as the same kind", "the xsi:type value the writer emits for "+tn+" ("+v+") is classified by the reader's test as formal="+fmt.Sprint(wantFormal)+" (otherwise an expression changes kind in a round trip)", fmt.Sprintf("reader accepts as formal: ==%v or suffix %v; verdict for %q: %v", eqConsts, suffixConsts, v, got))
	}
	if len(written) < 2 {
		c.Missing("expression kind values", "AnExpression.MarshalXML no longer writes a kind value per expression type")
	}
	if testedLocal == "" || len(writtenAttr) == 0 {
		c.Missing("expression kind attribute", "AnExpression.MarshalXML / UnmarshalXML attribute handling not found")
	} else {
		for _, w := range writtenAttr {
			i := strings.IndexByte(w, ':')
			okAttr := i > 0 && w[i+1:] == testedLocal && (declared[w[:i]] == testedSpace)
			c.Check(okAttr, nil, mappingNode, "expression-kind attribute "+w+" is the one tested on parse", "the attribute AnExpression.MarshalXML writes has the local name the reader tests, in the namespace the reader tests ("+testedSpace+")", fmt.Sprintf("written %q; reader tests {%s}%s; prefix declared as %q", w, testedSpace, testedLocal, declared[w[:max0(i)]]))
		}
	}
}

func max0(i int) int {
	if i < 0 {
		return 0
	}
	return i
}

func sortedMapKeys(m map[string]string) []string {
	var out []string
	for k := range m {
		out = append(out, k)
	}
	sort.Strings(out)
	return out
}

// ---- R31 ----

func ruleR31(c *Ctx) {
	p := c.P
	pk := p.ByPath[pathSchema]
	if pk == nil {
		return
	}
	// functions statically reachable from any MarshalXML within package schema
	reach := map[*FuncInfo]bool{}
	var walk func(f *FuncInfo, d int)
	walk = func(f *FuncInfo, d int) {
		if reach[f] || d > 3 {
			return
		}
		reach[f] = true
		in := info(f)
		inspectNoLit(f.Body, func(m ast.Node) bool {
			if call, ok := m.(*ast.CallExpr); ok {
				if fn := callee(in, call); fn != nil {
					if cf := p.byObj[fn]; cf != nil && cf.Pkg == pk && fn.Name() != "MarshalXML" {
						walk(cf, d+1)
					}
				}
			}
			return true
		})
	}
	nm := 0
	for _, f := range p.Funcs {
		if f.Pkg == pk && f.Obj != nil && f.Obj.Name() == "MarshalXML" {
			nm++
			walk(f, 0)
		}
	}
	if nm < 100 {
		c.Missing("MarshalXML methods", fmt.Sprintf("expected >= 100 MarshalXML methods, found %d", nm))
	}
	// helpers (non-MarshalXML) reached
	var helpers []*FuncInfo
	for f := range reach {
		if f.Obj != nil && f.Obj.Name() != "MarshalXML" {
			helpers = append(helpers, f)
		}
	}
	sort.Slice(helpers, func(i, j int) bool { return helpers[i].QName() < helpers[j].QName() })
	for _, f := range helpers {
		in := info(f)
		var muts []string
		inspectNoLit(f.Body, func(m ast.Node) bool {
			if call, ok := m.(*ast.CallExpr); ok {
				if fn := callee(in, call); fn != nil && strings.HasPrefix(fn.Name(), "Set") && fn.Pkg() != nil && fn.Pkg().Path() == pathSchema && recvNamed(fn) != nil {
					muts = append(muts, fn.Name()+" at "+p.Pos(call.Pos()))
				}
			}
			return true
		})
		c.Check(len(muts) == 0, f, f.Decl, "helper on the marshal path does not mutate the element", "functions called by MarshalXML do not call setters on the element being serialised (serialising must not alter the model; it also makes concurrent marshalling a data race)", ifEmpty(strings.Join(muts, "; "), "no setter call"))
	}
	// the MarshalXML methods themselves: no assignment through the receiver
	bad := 0
	var first ast.Node
	var firstF *FuncInfo
	for f := range reach {
		if f.Obj == nil || f.Obj.Name() != "MarshalXML" || f.Decl.Recv == nil {
			continue
		}
		in := info(f)
		var recvObj types.Object
		for _, fl := range f.Decl.Recv.List {
			for _, n := range fl.Names {
				recvObj = in.Defs[n]
			}
		}
		inspectNoLit(f.Body, func(m ast.Node) bool {
			if as, ok := m.(*ast.AssignStmt); ok {
				for _, l := range as.Lhs {
					if _, isSel := unparen(l).(*ast.SelectorExpr); !isSel {
						if _, isStar := unparen(l).(*ast.StarExpr); !isStar {
							continue
						}
					}
					if id := rootIdent(l); id != nil && recvObj != nil && objOf(in, id) == recvObj {
						bad++
						if first == nil {
							first, firstF = as, f
						}
					}
				}
			}
			return true
		})
	}
	c.Check(bad == 0, firstF, first, "MarshalXML methods do not assign through their receiver", "no MarshalXML method stores into its receiver", fmt.Sprintf("%d MarshalXML methods inspected, %d receiver stores", nm, bad))
}

// ---- R32 ----

func ruleR32(c *Ctx) {
	p := c.P
	pk := p.ByPath[pathSchema]
	if pk == nil {
		return
	}
	scope := pk.Types.Scope()
	actIface, _ := scope.Lookup("ActivityInterface").Type().Underlying().(*types.Interface)
	procT, _ := scope.Lookup("Process").Type().(*types.Named)
	if actIface == nil || procT == nil {
		c.Missing("ActivityInterface/Process", "schema.ActivityInterface or schema.Process not found")
		return
	}
	pst := procT.Underlying().(*types.Struct)
	storable := map[string]bool{}
	for i := 0; i < pst.NumFields(); i++ {
		if sl, ok := pst.Field(i).Type().(*types.Slice); ok {
			if n, ok := sl.Elem().(*types.Named); ok && types.Implements(types.NewPointer(n), actIface) {
				storable[n.Obj().Name()] = true
			}
		}
	}
	for _, f := range p.Funcs {
		if f.Pkg != pk || f.Obj == nil {
			continue
		}
		in := info(f)
		g := p.Graph(f)
		// link calls in this function
		var linkPts []Point
		for _, pt := range g.AllPoints() {
			for _, call := range callsIn(pt.Node()) {
				if fn := callee(in, call); fn != nil && fn.Name() == "link" && recvNamed(fn) != nil && recvNamed(fn).Obj().Name() == "ProcessBuilder" {
					linkPts = append(linkPts, pt)
				}
			}
		}
		if len(linkPts) == 0 {
			continue
		}
		// (a) type switch over the activity
		inspectNoLit(f.Body, func(m ast.Node) bool {
			ts, ok := m.(*ast.TypeSwitchStmt)
			if !ok || !typeSwitchTagIs(in, ts, func(t types.Type) bool { return isNamed(t, pathSchema, "ActivityInterface") }) {
				return true
			}
			handled := map[string]bool{}
			hasDefault := false
			for _, s := range ts.Body.List {
				cc := s.(*ast.CaseClause)
				if cc.List == nil {
					hasDefault = true
				}
				for _, e := range cc.List {
					if n := namedOf(in.TypeOf(e)); n != nil {
						handled[n.Obj().Name()] = true
					}
				}
			}
			var names []string
			for n := range storable {
				names = append(names, n)
			}
			sort.Strings(names)
			for _, n := range names {
				c.Check(handled[n] || hasDefault, f, ts, "AddActivity stores "+n, "every activity type for which Process has a collection is stored by the type switch (link has already created a sequence flow to it; an unstored activity leaves that flow dangling)", fmt.Sprintf("case present: %v", handled[n]))
			}
			return true
		})
		// (b) appends into Process collections are dominated by a link call
		for _, pt := range g.AllPoints() {
			as, ok := pt.Node().(*ast.AssignStmt)
			if !ok || len(as.Lhs) != 1 || len(as.Rhs) != 1 {
				continue
			}
			call, ok := unparen(as.Rhs[0]).(*ast.CallExpr)
			if !ok || !isBuiltin(in, call, "append") {
				continue
			}
			fv := fieldOf(in, as.Lhs[0])
			if fv == nil {
				continue
			}
			sl, ok := fv.Type().(*types.Slice)
			if !ok {
				continue
			}
			n, ok := sl.Elem().(*types.Named)
			if !ok || n.Obj().Name() == "SequenceFlow" || n.Obj().Name() == "StartEvent" {
				continue
			}
			dom := false
			for _, lp := range linkPts {
				if g.Dominates(lp, pt) && lp != pt {
					dom = true
				}
			}
			c.Check(dom, f, as, "store of "+n.Obj().Name()+" after link", "the node copy is appended to its collection only after link filled its incoming list (the stored copy is a value copy)", fmt.Sprintf("dominated by a link call: %v", dom))
		}
	}
	// (c) link itself
	for _, f := range p.Funcs {
		if f.Pkg != pk || f.Obj == nil || f.Obj.Name() != "link" {
			continue
		}
		in := info(f)
		has := map[string]bool{}
		inspectNoLit(f.Body, func(m ast.Node) bool {
			switch x := m.(type) {
			case *ast.AssignStmt:
				for _, l := range x.Lhs {
					if fv := fieldOf(in, l); fv != nil {
						has["store:"+fv.Name()] = true
					}
				}
			case *ast.CallExpr:
				if fn := callee(in, x); fn != nil {
					has["call:"+fn.Name()] = true
				}
			}
			return true
		})
		for _, need := range []string{"store:SourceRefField", "store:TargetRefField", "call:SetOutgoings", "call:SetIncomings", "store:SequenceFlowField", "call:FindBy"} {
			c.Check(has[need], f, f.Decl, "link performs "+need, "link records both ends of the new sequence flow, lists it in the source's outgoing flows (also on the stored copy found by id) and in the target's incoming flows, and stores the flow", fmt.Sprintf("present: %v", has[need]))
		}
	}
}

// ---- R33 ----

func ruleR33(c *Ctx) {
	p := c.P
	isGenNew := func(in *types.Info, e ast.Expr) bool {
		call, ok := unparen(e).(*ast.CallExpr)
		if !ok {
			return false
		}
		fn := callee(in, call)
		return fn != nil && fn.Name() == "New" && isMethod(fn, pathID, "New", "IGenerator")
	}
	for _, f := range p.Funcs {
		if f.Pkg.PkgPath != pathBpmn {
			continue
		}
		in := info(f)
		// composite literals of flow / Process / subProcess: id field from New()
		inspectNoLit(f.Body, func(m ast.Node) bool {
			switch x := m.(type) {
			case *ast.CompositeLit:
				n := namedOf(in.TypeOf(x))
				if n == nil || n.Obj().Pkg() == nil || n.Obj().Pkg().Path() != pathBpmn {
					return true
				}
				switch n.Obj().Name() {
				case "flow", "subProcess":
				default:
					return true
				}
				for _, el := range x.Elts {
					kv, ok := el.(*ast.KeyValueExpr)
					if !ok {
						continue
					}
					if id, ok := kv.Key.(*ast.Ident); ok && id.Name == "id" {
						c.Check(isGenNew(in, kv.Value), f, kv, "id of new "+n.Obj().Name(), "a new "+n.Obj().Name()+" takes its id from IGenerator.New()", "initialiser: "+exprStringShort(kv.Value))
					}
				}
			case *ast.AssignStmt:
				for i, l := range x.Lhs {
					fv := fieldOf(in, l)
					if fv == nil || fv.Name() != "id" || !isNamed(fv.Type(), pathID, "Id") || i >= len(x.Rhs) {
						continue
					}
					rhs := x.Rhs[i]
					ok := isGenNew(in, rhs)
					why := "rhs: " + exprStringShort(rhs)
					if !ok {
						// a local whose only definition in the declared function is a New() call
						if id, isId := unparen(rhs).(*ast.Ident); isId {
							if v, isVar := objOf(in, id).(*types.Var); isVar && !v.IsField() {
								defs, fresh := 0, 0
								root := f.Root()
								rin := info(root)
								inspectNoLit(root.Body, func(z ast.Node) bool {
									if a2, ok := z.(*ast.AssignStmt); ok {
										for j, l2 := range a2.Lhs {
											if lid, ok := l2.(*ast.Ident); ok && objOf(rin, lid) == types.Object(v) && j < len(a2.Rhs) {
												defs++
												if isGenNew(rin, a2.Rhs[j]) {
													fresh++
												}
											}
										}
									}
									return true
								})
								if defs > 0 && defs == fresh {
									ok = true
									why = fmt.Sprintf("%s is defined only by IGenerator.New() in %s (pre-generated id, stored into one new flow)", v.Name(), root.QName())
								}
							}
						}
					}
					if !ok {
						// a parameter of the declared function: every static call site passes a freshly generated id
						if ok2, why2 := idFromCallers(p, f, rhs, isGenNew, 0); ok2 {
							ok, why = true, why2
						}
					}
					c.Check(ok, f, x, "assignment to "+fieldName(in, l), "an id stored into a flow/instance originates from IGenerator.New() (a copied or reused id makes two flows indistinguishable)", why)
				}
			}
			return true
		})
	}
	// a fresh generator gets a fresh partition: the snapshot handed to sno.NewGenerator is non-nil only
	// when snapshot bytes were supplied
	for _, f := range p.Funcs {
		if shortPkg(f.Pkg.PkgPath) != "pkg/id" {
			continue
		}
		in := info(f)
		inspectNoLit(f.Body, func(m ast.Node) bool {
			call, ok := m.(*ast.CallExpr)
			if !ok || len(call.Args) < 1 {
				return true
			}
			fn := callee(in, call)
			if fn == nil || fn.Name() != "NewGenerator" || fn.Pkg() == nil || !strings.Contains(fn.Pkg().Path(), "sno") {
				return true
			}
			sv, _ := objOf(in, call.Args[0]).(*types.Var)
			if sv == nil {
				c.Check(isNilIdent(call.Args[0]), f, call, "snapshot passed to sno.NewGenerator", "a fresh generator is created from a nil snapshot", exprStringShort(call.Args[0]))
				return true
			}
			okAll, n := true, 0
			inspectNoLit(f.Body, func(z ast.Node) bool {
				switch x := z.(type) {
				case *ast.AssignStmt:
					for i, l := range x.Lhs {
						if id, ok := unparen(l).(*ast.Ident); ok && objOf(in, id) == types.Object(sv) && i < len(x.Rhs) && !isNilIdent(x.Rhs[i]) {
							n++
							guard := enclosingIfWhere(p, x, f.Body, func(cond ast.Expr, inThen bool) bool {
								be, ok := unparen(cond).(*ast.BinaryExpr)
								if !ok || !inThen {
									return false
								}
								return (be.Op == token.GTR || be.Op == token.NEQ) && isLenCall(in, be.X)
							})
							if guard == nil {
								okAll = false
							}
						}
					}
				case *ast.ValueSpec:
					for i, nm := range x.Names {
						if in.Defs[nm] == types.Object(sv) && i < len(x.Values) && !isNilIdent(x.Values[i]) {
							n++
							okAll = false
						}
					}
				}
				return true
			})
			c.Check(okAll, f, call, "snapshot passed to sno.NewGenerator", "the snapshot handed to sno.NewGenerator is nil unless snapshot bytes were supplied (every non-nil assignment sits under `if len(bytes) > 0`): a fresh generator must draw a fresh partition, otherwise all generators of a program issue the same ids", fmt.Sprintf("%d non-nil assignments, all under a length test: %v", n, okAll))
			return true
		})
	}
	// never NewWithTime
	bad := ""
	for _, f := range p.Funcs {
		in := info(f)
		inspectNoLit(f.Body, func(m ast.Node) bool {
			if call, ok := m.(*ast.CallExpr); ok {
				if fn := callee(in, call); fn != nil && fn.Name() == "NewWithTime" {
					bad = f.QName() + " at " + p.Pos(call.Pos())
				}
			}
			return true
		})
	}
	c.Check(bad == "", nil, nil, "no use of sno NewWithTime", "the repository never draws ids with an explicit time (rolls over silently)", ifEmpty(bad, "no call"))
}

// ---- R34 ----

func ruleR34(c *Ctx) {
	p := c.P
	for _, f := range p.Funcs {
		sp := shortPkg(f.Pkg.PkgPath)
		if f.Obj == nil || !(sp == "pkg/id" || sp == "schema") {
			continue
		}
		in := info(f)
		usesClock, usesState := false, false
		var at ast.Node
		inspectNoLit(f.Body, func(m ast.Node) bool {
			switch x := m.(type) {
			case *ast.CallExpr:
				if fn := callee(in, x); fn != nil && fn.Pkg() != nil {
					if fn.Pkg().Path() == "time" && fn.Name() == "Now" {
						usesClock = true
						at = x
					}
					if fn.Pkg().Path() == "crypto/rand" {
						usesState = true
					}
					// a process-wide sequence: only an atomic operation that CHANGES the state makes two calls differ
					if fn.Pkg().Path() == "sync/atomic" && (strings.HasPrefix(fn.Name(), "Add") || strings.HasPrefix(fn.Name(), "Swap") || strings.HasPrefix(fn.Name(), "CompareAndSwap")) {
						usesState = true
					}
					// math/rand top-level functions use the shared, process-wide source
					if (fn.Pkg().Path() == "math/rand" || fn.Pkg().Path() == "math/rand/v2") && recvNamed(fn) == nil && fn.Name() != "NewSource" && fn.Name() != "New" {
						usesState = true
					}
				}
			case *ast.Ident:
				if v, ok := in.Uses[x].(*types.Var); ok && v.Parent() == v.Pkg().Scope() && !v.IsField() {
					// a package-level variable (state that persists between calls); constant tables don't count
					// — and neither does a variable that no function ever writes (a value fixed at start-up, such
					// as the process id, is the same for every call)
					if !writtenPkgVars(p)[v] {
						return true
					}
					if _, isBasicOrArr := v.Type().Underlying().(*types.Basic); isBasicOrArr {
						usesState = true
					} else if n := namedOf(v.Type()); n != nil {
						usesState = true
					}
				}
			}
			return true
		})
		// only functions that mint identifiers / random material: result type []byte, IGenerator
		sig := f.Obj.Type().(*types.Signature)
		if sig.Results().Len() == 0 {
			continue
		}
		rt := sig.Results().At(0).Type()
		mint := false
		if sl, ok := rt.Underlying().(*types.Slice); ok {
			if b, ok := sl.Elem().Underlying().(*types.Basic); ok && b.Kind() == types.Byte {
				mint = true
			}
		}
		if isNamed(rt, pathID, "IGenerator") {
			mint = true
		}
		if !mint || !(strings.Contains(f.Obj.Name(), "Rand") || strings.Contains(f.Obj.Name(), "Generator")) {
			continue
		}
		if !usesClock {
			c.Ok(f, f.Decl, "identifier source "+f.Obj.Name(), "a function that mints identifiers is not a pure function of the clock", "does not read the clock", false)
			continue
		}
		c.Check(usesState, f, at, "identifier source "+f.Obj.Name(), "a function that mints identifiers must mix in state that persists between calls (a process-wide sequence or shared PRNG) or crypto/rand; a result that depends only on time.Now() repeats whenever two calls see the same clock reading", fmt.Sprintf("reads the clock; persistent state or crypto/rand involved: %v", usesState))
	}
}

var writtenPkgVarsCache map[*Prog]map[*types.Var]bool

// writtenPkgVars: package-level variables that some function body writes (assignment, ++/--, address taken for an
// atomic or any other call, method call on the variable itself).
func writtenPkgVars(p *Prog) map[*types.Var]bool {
	if writtenPkgVarsCache == nil {
		writtenPkgVarsCache = map[*Prog]map[*types.Var]bool{}
	}
	if m, ok := writtenPkgVarsCache[p]; ok {
		return m
	}
	m := map[*types.Var]bool{}
	isPkgVar := func(in *types.Info, e ast.Expr) *types.Var {
		id, ok := unparen(e).(*ast.Ident)
		if !ok {
			return nil
		}
		v, ok := in.Uses[id].(*types.Var)
		if !ok || v.IsField() || v.Pkg() == nil || v.Parent() != v.Pkg().Scope() {
			return nil
		}
		return v
	}
	for _, f := range p.Funcs {
		if f.Body == nil {
			continue
		}
		in := info(f)
		ast.Inspect(f.Body, func(n ast.Node) bool {
			switch x := n.(type) {
			case *ast.AssignStmt:
				for _, l := range x.Lhs {
					if v := isPkgVar(in, l); v != nil {
						m[v] = true
					}
				}
			case *ast.IncDecStmt:
				if v := isPkgVar(in, x.X); v != nil {
					m[v] = true
				}
			case *ast.UnaryExpr:
				if x.Op == token.AND {
					if v := isPkgVar(in, x.X); v != nil {
						m[v] = true
					}
				}
			case *ast.CallExpr:
				if sel, ok := unparen(x.Fun).(*ast.SelectorExpr); ok {
					if v := isPkgVar(in, sel.X); v != nil {
						if fn := callee(in, x); fn != nil && recvNamed(fn) != nil {
							if sig := fn.Type().(*types.Signature); sig.Recv() != nil {
								if _, ptr := sig.Recv().Type().(*types.Pointer); ptr {
									m[v] = true
								}
							}
						}
					}
				}
			}
			return true
		})
	}
	writtenPkgVarsCache[p] = m
	return m
}

// idFromCallers: e is a parameter of f's declared root and at every static call site the argument is New() or a
// local defined only by New() (or, one level up, again such a parameter).
func idFromCallers(p *Prog, f *FuncInfo, e ast.Expr, isGenNew func(*types.Info, ast.Expr) bool, depth int) (bool, string) {
	if depth > 2 {
		return false, ""
	}
	in := info(f)
	id, ok := unparen(e).(*ast.Ident)
	if !ok {
		return false, ""
	}
	v, ok := objOf(in, id).(*types.Var)
	root := f.Root()
	if !ok || root.Obj == nil || !isParam(root, v) {
		return false, ""
	}
	sig := root.Obj.Type().(*types.Signature)
	idx := -1
	for i := 0; i < sig.Params().Len(); i++ {
		if sig.Params().At(i) == v {
			idx = i
		}
	}
	if idx < 0 {
		return false, ""
	}
	sites, good := 0, 0
	for _, h := range p.Funcs {
		if h.Body == nil || h.Pkg != root.Pkg {
			continue
		}
		hin := info(h)
		inspectNoLit(h.Body, func(m ast.Node) bool {
			cl, ok := m.(*ast.CallExpr)
			if !ok || callee(hin, cl) != root.Obj || idx >= len(cl.Args) {
				return true
			}
			sites++
			a := cl.Args[idx]
			if isGenNew(hin, a) {
				good++
				return true
			}
			if aid, ok := unparen(a).(*ast.Ident); ok {
				if av, ok := objOf(hin, aid).(*types.Var); ok && !av.IsField() {
					defs, fresh := 0, 0
					hr := h.Root()
					hrin := info(hr)
					ast.Inspect(hr.Body, func(z ast.Node) bool {
						if a2, ok := z.(*ast.AssignStmt); ok {
							for j, l2 := range a2.Lhs {
								if lid, ok := l2.(*ast.Ident); ok && objOf(hrin, lid) == types.Object(av) && j < len(a2.Rhs) {
									defs++
									if isGenNew(hrin, a2.Rhs[j]) {
										fresh++
									}
								}
							}
						}
						return true
					})
					if defs > 0 && defs == fresh {
						good++
						return true
					}
				}
			}
			if ok2, _ := idFromCallers(p, h, a, isGenNew, depth+1); ok2 {
				good++
			}
			return true
		})
	}
	if sites > 0 && sites == good {
		return true, fmt.Sprintf("parameter %s: all %d call sites of %s pass an id defined only by IGenerator.New()", v.Name(), sites, root.QName())
	}
	return false, ""
}

// withSamePkgCallees returns f and the declared functions of f's package that it calls (transitively, depth-bounded).
func withSamePkgCallees(p *Prog, f *FuncInfo, depth int) []*FuncInfo {
	seen := map[*FuncInfo]bool{f: true}
	out := []*FuncInfo{f}
	var walk func(g *FuncInfo, d int)
	walk = func(g *FuncInfo, d int) {
		if d <= 0 || g.Body == nil {
			return
		}
		in := info(g)
		inspectNoLit(g.Body, func(m ast.Node) bool {
			if call, ok := m.(*ast.CallExpr); ok {
				if cf := p.byObj[callee(in, call)]; cf != nil && cf.Pkg == f.Pkg && !seen[cf] && cf.Body != nil {
					seen[cf] = true
					out = append(out, cf)
					walk(cf, d-1)
				}
			}
			return true
		})
	}
	walk(f, depth)
	return out
}
