// bpmnlint: repository-specific static checker for olive-io/bpmn.
//
// Every run loads /repo's current working tree (type-checked syntax, CFGs and,
// for the rules that need it, SSA + call graph), evaluates the rules that a
// property is decided by, and prints VIOLATION / KNOWN-FINDING lines.
package main

import (
	"encoding/json"
	"flag"
	"fmt"
	"os"
	"path/filepath"
	"sort"
	"strconv"
	"strings"
	"time"
)

func main() {
	var (
		prop      = flag.String("property", "", "property id (C01..C20)")
		tier      = flag.String("tier", "quick", "quick or thorough")
		repo      = flag.String("repo", "/repo", "repository root")
		verif     = flag.String("verif", "/verif", "verification root (known_findings.json, evidence/)")
		evdir     = flag.String("evidence", "", "evidence directory (default <verif>/evidence)")
		replay    = flag.String("replay", "", "replay a violation file")
		inventory = flag.String("inventory", "", "print an inventory: chan|go|rules")
		ruleList  = flag.String("rules", "", "run only these comma separated rules (debug)")
		goos      = flag.String("goos", "", "GOOS override")
		noKnown   = flag.Bool("no-known", false, "ignore known_findings.json (debug)")
		asJSON    = flag.Bool("json", false, "with -rules: print failing obligations as JSON lines")
		emitMan   = flag.String("emit-manifest", "", "write MANIFEST.json to this path")
	)
	flag.Parse()
	start := time.Now()
	if *evdir == "" {
		*evdir = filepath.Join(*verif, "evidence")
	}
	seed := 0
	if s := os.Getenv("VERIF_SEED"); s != "" {
		seed, _ = strconv.Atoi(s)
	}
	if t := os.Getenv("VERIF_TIER"); t != "" && *tier == "" {
		*tier = t
	}

	if *emitMan != "" {
		base := "cd /repo && GOPROXY=off GOSUMDB=off GOTOOLCHAIN=local go test -vet=off -count=1 ./... && cd schema && GOPROXY=off GOSUMDB=off GOTOOLCHAIN=local go test -vet=off -count=1 ./..."
		if err := emitManifest(*emitMan, base); err != nil {
			fmt.Fprintln(os.Stderr, err)
			os.Exit(2)
		}
		return
	}
	if *replay != "" {
		os.Exit(doReplay(*replay, *repo, *verif))
	}

	load := func(goos string) *Prog {
		p, err := Load(*repo, goos, false)
		if err != nil {
			id := *prop
			if id == "" {
				id = "-"
			}
			fmt.Printf("UNDECIDED property=%s reason=%v\n", id, err)
			os.Exit(2)
		}
		return p
	}

	if *inventory != "" {
		p := load(*goos)
		doInventory(p, *inventory)
		return
	}

	if *ruleList != "" {
		p := load(*goos)
		ids := strings.Split(*ruleList, ",")
		res := runRules(p, ids)
		var known []KnownFinding
		if !*noKnown {
			known, _ = loadKnown(filepath.Join(*verif, "known_findings.json"))
		}
		classify(res, known)
		if *asJSON {
			for _, o := range res.Violations {
				b, _ := json.Marshal(o)
				fmt.Println(string(b))
			}
			return
		}
		for _, o := range res.Obs {
			st := "ok  "
			if !o.OK {
				st = "FAIL"
			}
			fmt.Printf("%s %-60s %s  %s\n      %s\n", st, o.Key, o.Pos, o.What, o.Witness)
		}
		fmt.Printf("%d obligations, %d known, %d violations (%.1fs)\n", len(res.Obs), len(res.Known), len(res.Violations), time.Since(start).Seconds())
		return
	}

	spec := propSpecs[*prop]
	if spec == nil {
		fmt.Fprintf(os.Stderr, "unknown property %q\n", *prop)
		os.Exit(2)
	}
	ids := append([]string{}, spec.Quick...)
	if *tier == "thorough" {
		ids = append(ids, spec.Thorough...)
	}
	p := load(*goos)
	known, err := loadKnown(filepath.Join(*verif, "known_findings.json"))
	if err != nil {
		fmt.Printf("UNDECIDED property=%s reason=known_findings.json unreadable: %v\n", spec.ID, err)
		os.Exit(2)
	}
	res := runRules(p, ids)
	// zero-expected rules must fire on their positive fixture (second load with in-memory files)
	fx := checkFixtures(*repo, *goos, ids)
	theProg = p
	res.Obs = append(res.Obs, fx...)
	extra := map[string]any{}
	if len(fx) > 0 {
		var names []string
		for _, o := range fx {
			names = append(names, fmt.Sprintf("%s=%v", o.Rule, o.OK))
		}
		extra["positive_fixtures"] = names
	}
	if *tier == "thorough" {
		// second build: the !linux files (pkg/clock/host_generic.go)
		p2, err := Load(*repo, "darwin", false)
		if err != nil {
			fmt.Printf("UNDECIDED property=%s reason=darwin build: %v\n", spec.ID, err)
			os.Exit(2)
		}
		res2 := runRules(p2, ids)
		seen := map[string]bool{}
		for _, o := range res.Obs {
			seen[o.Key] = true
		}
		added := 0
		for _, o := range res2.Obs {
			if !seen[o.Key] {
				o.Key = o.Key + "@darwin"
				res.Obs = append(res.Obs, o)
				added++
			}
		}
		extra["second_build"] = map[string]any{"goos": "darwin", "obligations_only_in_that_build": added, "obligations_total": len(res2.Obs)}
		extra["self_validation"] = selfTest(spec, ids, *repo, *verif, known)
		theProg = p
	}
	classify(res, known)
	code := finish(spec, *tier, seed, p, ids, res, *evdir, start, extra)
	os.Exit(code)
}

func doReplay(path, repo, verif string) int {
	b, err := os.ReadFile(path)
	if err != nil {
		fmt.Fprintln(os.Stderr, err)
		return 2
	}
	var doc struct {
		Property   string     `json:"property"`
		Obligation Obligation `json:"obligation"`
		GOOS       string     `json:"goos"`
	}
	if err := json.Unmarshal(b, &doc); err != nil {
		fmt.Fprintln(os.Stderr, err)
		return 2
	}
	p, err := Load(repo, doc.GOOS, false)
	if err != nil {
		fmt.Printf("UNDECIDED property=%s reason=%v\n", doc.Property, err)
		return 2
	}
	res := runRules(p, []string{doc.Obligation.Rule})
	fmt.Printf("replaying %s (rule %s) against %s\n", doc.Obligation.Key, doc.Obligation.Rule, repo)
	for _, o := range res.Obs {
		if o.Key == doc.Obligation.Key {
			fmt.Printf("  construct: %s in %s\n  obligation: %s\n  verdict: ok=%v\n  witness: %s\n", o.Pos, o.Func, o.What, o.OK, o.Witness)
			if !o.OK {
				fmt.Printf("VIOLATION property=%s replay=%s\n", doc.Property, path)
				return 1
			}
			return 0
		}
	}
	fmt.Printf("  obligation %s no longer exists in the tree (construct gone)\n", doc.Obligation.Key)
	return 0
}

func doInventory(p *Prog, what string) {
	switch what {
	case "rules":
		var ids []string
		for id := range rules {
			ids = append(ids, id)
		}
		sort.Strings(ids)
		for _, id := range ids {
			fmt.Printf("%-6s min=%-3d %s\n", id, rules[id].Min, rules[id].Title)
		}
	case "props":
		var ids []string
		for id := range propSpecs {
			ids = append(ids, id)
		}
		sort.Strings(ids)
		for _, id := range ids {
			sp := propSpecs[id]
			fmt.Printf("%s %s\n", id, strings.Join(append(append([]string{}, sp.Quick...), sp.Thorough...), ","))
		}
	case "chan":
		ce := chanEngine(p)
		ce.dump()
	case "funcs":
		for _, f := range p.Funcs {
			fmt.Printf("%s %s\n", p.Pos(f.Pos()), f.QName())
		}
	}
}
