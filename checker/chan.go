package main

// Channel engine (E3): every channel operation of the target packages with
// its select context, the variable/field/call that denotes the channel, the
// make sites that can flow into that variable and their capacity class, and
// the set of "closed-only" channels (>=1 close, 0 sends).

import (
	"fmt"
	"go/ast"
	"go/token"
	"go/types"
	"sort"
	"strings"
)

type OpKind string

const (
	OpSend  OpKind = "send"
	OpRecv  OpKind = "recv"
	OpRange OpKind = "range"
	OpClose OpKind = "close"
)

// ClauseInfo describes one clause of a select.
type ClauseInfo struct {
	Clause  *ast.CommClause
	Default bool
	Op      *ChanOp // nil for default
}

type SelectInfo struct {
	Stmt    *ast.SelectStmt
	Func    *FuncInfo
	Clauses []*ClauseInfo
}

func (s *SelectInfo) HasDefault() bool {
	for _, c := range s.Clauses {
		if c.Default {
			return true
		}
	}
	return false
}

// ChanOp is one channel operation.
type ChanOp struct {
	Kind   OpKind
	Node   ast.Node // SendStmt, UnaryExpr(<-), RangeStmt, CallExpr(close)
	Chan   ast.Expr // the channel expression
	Func   *FuncInfo
	Type   types.Type // channel type
	Select *SelectInfo
	Clause *ClauseInfo
	Ref    ChanRef
}

// ChanRef says what denotes the channel.
type ChanRef struct {
	Var    *types.Var  // local, parameter or struct field
	Field  string      // "Type.field" when Var is a field
	Call   *types.Func // channel returned by a call
	Elem   bool        // element of a container (slice/map/pointer deref) held in Var
	Desc   string      // human/descriptor string (type based, no local names)
	IsMake bool        // expression is a make(chan) itself
}

type MakeSite struct {
	Call *ast.CallExpr
	Func *FuncInfo
	Cap  string // "0", ">=1", "unknown"
	Type types.Type
	// Dest: variable or field the made channel is (first) stored into
	Dest     *types.Var
	DestDesc string
}

type ChanEngine struct {
	P       *Prog
	Ops     []*ChanOp
	Selects []*SelectInfo
	Makes   []*MakeSite
	selOf   map[*ast.SelectStmt]*SelectInfo
	// per variable facts
	sends  map[*types.Var][]*ChanOp
	closes map[*types.Var][]*ChanOp
	recvs  map[*types.Var][]*ChanOp
	makes  map[*types.Var][]*MakeSite
	// assignments var <- var (flow-insensitive copies: x = y, T{f: y}, f(y) param binding)
	copies map[*types.Var][]*types.Var
	// make sites stored into elements of a container variable (m[k] = make(chan..), append(s, make(..)))
	elemMakes map[*types.Var][]*MakeSite
	// range value variable -> container variable it iterates
	elemOf map[*types.Var]*types.Var
	gos    []*GoSite
}

type GoSite struct {
	Stmt *ast.GoStmt
	Func *FuncInfo   // enclosing
	Lit  *FuncInfo   // launched literal, if any
	Decl *FuncInfo   // launched declared function/method, if resolvable
	Obj  *types.Func // callee object
}

var chanEngineCache = map[*Prog]*ChanEngine{}

func chanEngine(p *Prog) *ChanEngine {
	if ce, ok := chanEngineCache[p]; ok {
		return ce
	}
	ce := &ChanEngine{P: p, selOf: map[*ast.SelectStmt]*SelectInfo{},
		sends: map[*types.Var][]*ChanOp{}, closes: map[*types.Var][]*ChanOp{}, recvs: map[*types.Var][]*ChanOp{},
		makes: map[*types.Var][]*MakeSite{}, copies: map[*types.Var][]*types.Var{},
		elemMakes: map[*types.Var][]*MakeSite{}, elemOf: map[*types.Var]*types.Var{}}
	for _, f := range p.Funcs {
		ce.scanFunc(f)
	}
	chanEngineCache[p] = ce
	return ce
}

func (ce *ChanEngine) refOf(f *FuncInfo, e ast.Expr) ChanRef {
	in := info(f)
	e = unparen(e)
	t := in.TypeOf(e)
	ref := ChanRef{Desc: typeString(t)}
	switch x := e.(type) {
	case *ast.Ident:
		if v, ok := objOf(in, x).(*types.Var); ok {
			ref.Var = v
			if v.IsField() {
				ref.Field = x.Name
			}
		}
	case *ast.SelectorExpr:
		if v := fieldOf(in, x); v != nil {
			ref.Var = v
			ref.Field = fieldName(in, x)
			ref.Desc = ref.Field + " " + ref.Desc
		} else if v, ok := objOf(in, x).(*types.Var); ok { // package-level var
			ref.Var = v
		}
	case *ast.CallExpr:
		if isMk, _ := makeChanCap(in, x); isMk {
			ref.IsMake = true
		} else if fn := callee(in, x); fn != nil {
			ref.Call = fn
			ref.Desc = calleeName(fn) + "() " + ref.Desc
		}
	case *ast.IndexExpr:
		r := ce.refOf(f, x.X)
		r.Elem = true
		r.Desc = "elem of " + r.Desc
		return r
	case *ast.StarExpr:
		r := ce.refOf(f, x.X)
		r.Elem = true
		r.Desc = "*" + r.Desc
		return r
	}
	return ref
}

func calleeName(fn *types.Func) string {
	if r := recvNamed(fn); r != nil {
		pk := ""
		if r.Obj().Pkg() != nil {
			pk = shortPkg(r.Obj().Pkg().Path()) + "."
		}
		return pk + r.Obj().Name() + "." + fn.Name()
	}
	if fn.Pkg() != nil {
		return shortPkg(fn.Pkg().Path()) + "." + fn.Name()
	}
	return fn.Name()
}

func (ce *ChanEngine) scanFunc(f *FuncInfo) {
	in := info(f)
	p := ce.P
	addOp := func(op *ChanOp) {
		op.Func = f
		op.Type = in.TypeOf(op.Chan)
		op.Ref = ce.refOf(f, op.Chan)
		// select context
		if cc := commClauseOf(p, op.Node); cc != nil {
			sel := p.Parent(p.Parent(cc)).(*ast.SelectStmt)
			si := ce.selOf[sel]
			if si == nil {
				si = &SelectInfo{Stmt: sel, Func: f}
				for _, c := range sel.Body.List {
					ci := &ClauseInfo{Clause: c.(*ast.CommClause), Default: c.(*ast.CommClause).Comm == nil}
					si.Clauses = append(si.Clauses, ci)
				}
				ce.selOf[sel] = si
				ce.Selects = append(ce.Selects, si)
			}
			op.Select = si
			for _, ci := range si.Clauses {
				if ci.Clause == cc {
					ci.Op = op
					op.Clause = ci
				}
			}
		}
		ce.Ops = append(ce.Ops, op)
		if v := op.Ref.Var; v != nil && !op.Ref.Elem {
			switch op.Kind {
			case OpSend:
				ce.sends[v] = append(ce.sends[v], op)
			case OpClose:
				ce.closes[v] = append(ce.closes[v], op)
			default:
				ce.recvs[v] = append(ce.recvs[v], op)
			}
		}
	}
	inspectNoLit(f.Body, func(n ast.Node) bool {
		switch x := n.(type) {
		case *ast.SelectStmt:
			// make sure selects with only a default / no chan ops are indexed
			if ce.selOf[x] == nil {
				si := &SelectInfo{Stmt: x, Func: f}
				for _, c := range x.Body.List {
					ci := &ClauseInfo{Clause: c.(*ast.CommClause), Default: c.(*ast.CommClause).Comm == nil}
					si.Clauses = append(si.Clauses, ci)
				}
				ce.selOf[x] = si
				ce.Selects = append(ce.Selects, si)
			}
		case *ast.SendStmt:
			addOp(&ChanOp{Kind: OpSend, Node: x, Chan: x.Chan})
		case *ast.UnaryExpr:
			if x.Op == token.ARROW {
				addOp(&ChanOp{Kind: OpRecv, Node: x, Chan: x.X})
			}
		case *ast.RangeStmt:
			if _, ok := chanElem(in.TypeOf(x.X)); ok {
				addOp(&ChanOp{Kind: OpRange, Node: x, Chan: x.X})
			}
			if x.Value != nil {
				if vv, ok := objOf(in, x.Value).(*types.Var); ok {
					if _, isChan := chanElem(vv.Type()); isChan {
						if cr := ce.refOf(f, x.X); cr.Var != nil && !cr.Elem {
							ce.elemOf[vv] = cr.Var
						}
					}
				}
			}
		case *ast.CallExpr:
			if isBuiltin(in, x, "close") && len(x.Args) == 1 {
				addOp(&ChanOp{Kind: OpClose, Node: x, Chan: x.Args[0]})
			}
			if isMk, capc := makeChanCap(in, x); isMk {
				ms := &MakeSite{Call: x, Func: f, Cap: capc, Type: in.TypeOf(x)}
				ce.bindMake(f, x, ms)
				ce.Makes = append(ce.Makes, ms)
			}
		case *ast.GoStmt:
			gs := &GoSite{Stmt: x, Func: f}
			if lit, ok := unparen(x.Call.Fun).(*ast.FuncLit); ok {
				gs.Lit = p.byLit[lit]
			} else if fn := callee(in, x.Call); fn != nil {
				gs.Obj = fn
				gs.Decl = p.byObj[fn]
			}
			ce.gos = append(ce.gos, gs)
		case *ast.AssignStmt:
			for i, lhs := range x.Lhs {
				if i < len(x.Rhs) && len(x.Lhs) == len(x.Rhs) {
					ce.bindCopy(f, lhs, x.Rhs[i])
				}
			}
		case *ast.KeyValueExpr:
			// composite literal field: T{f: y}
			if cl, ok := p.Parent(x).(*ast.CompositeLit); ok {
				if st, ok := structOf(in.TypeOf(cl)); ok {
					if id, ok := x.Key.(*ast.Ident); ok {
						for i := 0; i < st.NumFields(); i++ {
							if st.Field(i).Name() == id.Name {
								ce.bindCopyVar(f, st.Field(i), x.Value)
							}
						}
					}
				}
			}
		}
		return true
	})
}

func structOf(t types.Type) (*types.Struct, bool) {
	if t == nil {
		return nil, false
	}
	t = types.Unalias(t)
	if p, ok := t.Underlying().(*types.Pointer); ok {
		t = p.Elem()
	}
	st, ok := t.Underlying().(*types.Struct)
	return st, ok
}

func commClauseOf(p *Prog, n ast.Node) *ast.CommClause {
	// n is the comm operation of a clause iff its statement is clause.Comm
	cur := n
	for {
		par := p.Parent(cur)
		if par == nil {
			return nil
		}
		if cc, ok := par.(*ast.CommClause); ok {
			if cc.Comm == cur {
				return cc
			}
			return nil
		}
		switch par.(type) {
		case *ast.ExprStmt, *ast.AssignStmt, *ast.ParenExpr:
			// recv: `<-c`, `x := <-c`, `x, ok = <-c`
			if as, ok := par.(*ast.AssignStmt); ok {
				if len(as.Rhs) != 1 || unparen(as.Rhs[0]) != unparen(cur.(ast.Expr)) {
					return nil
				}
			}
			cur = par
		default:
			return nil
		}
	}
}

// bindMake records where a make(chan) value is stored.
func (ce *ChanEngine) bindMake(f *FuncInfo, call *ast.CallExpr, ms *MakeSite) {
	in := info(f)
	par := ce.P.Parent(call)
	switch x := par.(type) {
	case *ast.AssignStmt:
		for i, r := range x.Rhs {
			if unparen(r) == ast.Expr(call) && i < len(x.Lhs) {
				r := ce.refOf(f, x.Lhs[i])
				if r.Var != nil {
					ms.Dest = r.Var
					ms.DestDesc = r.Desc
					if !r.Elem {
						ce.makes[r.Var] = append(ce.makes[r.Var], ms)
					} else {
						ce.elemMakes[r.Var] = append(ce.elemMakes[r.Var], ms)
					}
				}
			}
		}
	case *ast.ValueSpec:
		for i, r := range x.Values {
			if unparen(r) == ast.Expr(call) && i < len(x.Names) {
				if v, ok := in.Defs[x.Names[i]].(*types.Var); ok {
					ms.Dest = v
					ce.makes[v] = append(ce.makes[v], ms)
				}
			}
		}
	case *ast.KeyValueExpr:
		if cl, ok := ce.P.Parent(x).(*ast.CompositeLit); ok {
			if st, ok := structOf(in.TypeOf(cl)); ok {
				if id, ok := x.Key.(*ast.Ident); ok {
					for i := 0; i < st.NumFields(); i++ {
						if st.Field(i).Name() == id.Name {
							ms.Dest = st.Field(i)
							if n := namedOf(in.TypeOf(cl)); n != nil {
								ms.DestDesc = n.Obj().Name() + "." + id.Name
							}
							ce.makes[st.Field(i)] = append(ce.makes[st.Field(i)], ms)
						}
					}
				}
			}
		}
	}
}

func (ce *ChanEngine) bindCopy(f *FuncInfo, lhs, rhs ast.Expr) {
	l := ce.refOf(f, lhs)
	if l.Var == nil || l.Elem {
		return
	}
	ce.bindCopyVar(f, l.Var, rhs)
}

func (ce *ChanEngine) bindCopyVar(f *FuncInfo, dst *types.Var, rhs ast.Expr) {
	if _, ok := chanElem(dst.Type()); !ok {
		return
	}
	r := ce.refOf(f, rhs)
	if r.Var != nil && !r.Elem && r.Var != dst {
		ce.copies[dst] = append(ce.copies[dst], r.Var)
	}
}

// MakesOf returns the make sites that can flow into v through direct stores
// and variable-to-variable copies (flow-insensitive, transitive).
func (ce *ChanEngine) MakesOf(v *types.Var) []*MakeSite {
	seen := map[*types.Var]bool{}
	var out []*MakeSite
	var walk func(v *types.Var)
	walk = func(v *types.Var) {
		if seen[v] {
			return
		}
		seen[v] = true
		out = append(out, ce.makes[v]...)
		for _, c := range ce.copies[v] {
			walk(c)
		}
	}
	walk(v)
	return out
}

// CapsOf returns the capacity classes of the make sites that can reach the
// channel of op (through its variable, or through the container it is an
// element of); empty when unknown.
func (ce *ChanEngine) CapsOf(op *ChanOp) []string {
	var out []string
	v := op.Ref.Var
	if v == nil {
		return nil
	}
	if !op.Ref.Elem {
		for _, m := range ce.MakesOf(v) {
			out = append(out, m.Cap)
		}
		if c, ok := ce.elemOf[v]; ok {
			for _, m := range ce.elemMakes[c] {
				out = append(out, m.Cap)
			}
		}
		return out
	}
	for _, m := range ce.elemMakes[v] {
		out = append(out, m.Cap)
	}
	return out
}

// ClosedOnly: the variable has at least one close and no send anywhere.
func (ce *ChanEngine) ClosedOnly(v *types.Var) bool {
	if v == nil {
		return false
	}
	return len(ce.closes[v]) > 0 && len(ce.sends[v]) == 0
}

func (ce *ChanEngine) dump() {
	p := ce.P
	ops := append([]*ChanOp{}, ce.Ops...)
	sort.SliceStable(ops, func(i, j int) bool { return p.Pos(ops[i].Node.Pos()) < p.Pos(ops[j].Node.Pos()) })
	cnt := map[OpKind]int{}
	for _, op := range ops {
		cnt[op.Kind]++
		sel := ""
		if op.Select != nil {
			var parts []string
			for _, c := range op.Select.Clauses {
				if c.Default {
					parts = append(parts, "default")
				} else if c.Op != nil {
					parts = append(parts, string(c.Op.Kind)+":"+exprString(c.Op.Chan))
				} else {
					parts = append(parts, "?")
				}
			}
			sel = " select{" + strings.Join(parts, " | ") + "}"
		}
		mk := ""
		if op.Ref.Var != nil && !op.Ref.Elem {
			var caps []string
			for _, m := range ce.MakesOf(op.Ref.Var) {
				caps = append(caps, m.Cap)
			}
			mk = " caps=" + strings.Join(caps, ",")
			if ce.ClosedOnly(op.Ref.Var) {
				mk += " closed-only"
			}
		}
		fmt.Printf("%-28s %-5s %-34s %-44s [%s]%s%s\n", p.Pos(op.Node.Pos()), op.Kind, exprString(op.Chan), op.Func.QName(), op.Ref.Desc, mk, sel)
	}
	fmt.Printf("ops: %v selects=%d makes=%d gos=%d\n", cnt, len(ce.Selects), len(ce.Makes), len(ce.gos))
	for _, m := range ce.Makes {
		fmt.Printf("make %-28s cap=%-7s %-30s in %s -> %s\n", p.Pos(m.Call.Pos()), m.Cap, typeString(m.Type), m.Func.QName(), m.DestDesc)
	}
}
