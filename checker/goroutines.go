package main

// Goroutine roots: for each `go` statement, the function body that runs in the
// new goroutine and how values at the go site are bound inside it.

import (
	"go/ast"
	"go/types"
)

// Launch describes one `go` statement resolved to its root body.
type Launch struct {
	Site *GoSite
	Root *FuncInfo // body running in the new goroutine (nil if unresolved)
	// Params maps parameter objects of Root to the argument expressions at the
	// go site (evaluated in Site.Func).
	Params map[*types.Var]ast.Expr
	// Via is the function whose result is called (go f(a)(b)): Root is a
	// literal returned by Via and ViaParams binds Via's parameters.
	Via       *FuncInfo
	ViaParams map[*types.Var]ast.Expr
}

func (ce *ChanEngine) Launches() []*Launch {
	var out []*Launch
	for _, gs := range ce.gos {
		out = append(out, ce.resolveLaunch(gs))
	}
	return out
}

func bindParams(fi *FuncInfo, args []ast.Expr) map[*types.Var]ast.Expr {
	m := map[*types.Var]ast.Expr{}
	if fi == nil {
		return m
	}
	in := info(fi)
	i := 0
	for _, fld := range fi.Type().Params.List {
		names := fld.Names
		if len(names) == 0 {
			i++
			continue
		}
		for _, nm := range names {
			if v, ok := in.Defs[nm].(*types.Var); ok && i < len(args) {
				m[v] = args[i]
			}
			i++
		}
	}
	return m
}

func (ce *ChanEngine) resolveLaunch(gs *GoSite) *Launch {
	p := ce.P
	l := &Launch{Site: gs}
	call := gs.Stmt.Call
	switch {
	case gs.Lit != nil:
		l.Root = gs.Lit
		l.Params = bindParams(gs.Lit, call.Args)
	case gs.Decl != nil:
		l.Root = gs.Decl
		l.Params = bindParams(gs.Decl, call.Args)
	default:
		// go f(x)(a, b): f returns a function literal
		if inner, ok := unparen(call.Fun).(*ast.CallExpr); ok {
			if fn := callee(info(gs.Func), inner); fn != nil {
				if via := p.byObj[fn]; via != nil {
					if lit := returnedLiteral(p, via); lit != nil {
						l.Root = lit
						l.Params = bindParams(lit, call.Args)
						l.Via = via
						l.ViaParams = bindParams(via, inner.Args)
					}
				}
			}
		}
	}
	return l
}

// returnedLiteral: the function literal returned by every return of f (nil
// unless f has exactly one such literal).
func returnedLiteral(p *Prog, f *FuncInfo) *FuncInfo {
	var lit *FuncInfo
	n := 0
	inspectNoLit(f.Body, func(m ast.Node) bool {
		if r, ok := m.(*ast.ReturnStmt); ok {
			for _, res := range r.Results {
				if fl, ok := unparen(res).(*ast.FuncLit); ok {
					lit = p.byLit[fl]
					n++
				}
			}
		}
		return true
	})
	if n == 1 {
		return lit
	}
	return nil
}

// boundVar answers: inside root, which variable object denotes the value that
// expression e had at the go site? It is either a parameter bound to an
// argument that is the same reference as e, or (for literals) the captured
// variable itself.
func (l *Launch) boundVar(e ast.Expr) *types.Var {
	in := info(l.Site.Func)
	for pv, arg := range l.Params {
		if sameRef(in, arg, e) {
			return pv
		}
		// &x passed, x.f used
		if u, ok := unparen(arg).(*ast.UnaryExpr); ok && sameRef(in, u.X, e) {
			return pv
		}
	}
	if l.Root != nil && l.Root.Lit != nil {
		if v, ok := objOf(in, e).(*types.Var); ok {
			return v
		}
	}
	return nil
}

// syncLits returns function literals that are executed synchronously by the
// call (sync.Once.Do(func(){...}) and immediately invoked literals).
func syncLitOfCall(p *Prog, in *types.Info, call *ast.CallExpr) *FuncInfo {
	if lit, ok := unparen(call.Fun).(*ast.FuncLit); ok {
		return p.byLit[lit]
	}
	if isSyncMethod(in, call, "Once", "Do") && len(call.Args) == 1 {
		if lit, ok := unparen(call.Args[0]).(*ast.FuncLit); ok {
			return p.byLit[lit]
		}
	}
	return nil
}
