package main

// Concurrency-safety rules: R22 guarded-by (lockset), R23 atomic-consistent,
// R24 owner-confinement, R25 closure-shared.

import (
	"fmt"
	"go/ast"
	"go/token"
	"go/types"
	"sort"
	"strings"

	"verif/checker/internal/xcfg"
)

func init() {
	register(&Rule{ID: "R22", Title: "guarded-by: every access to a lock-guarded field holds its lock (writes exclusively)", Min: 25, Run: ruleR22})
	register(&Rule{ID: "R23", Title: "atomic-consistent: a variable accessed through sync/atomic is accessed only that way", Min: 3, Run: ruleR23})
	register(&Rule{ID: "R24", Title: "owner-confinement: mutable node state is touched only by the node's own goroutine", Min: 7, Run: ruleR24})
	register(&Rule{ID: "R25", Title: "closure-shared: a local written by a closure that escapes to other goroutines is accessed atomically or under a lock", Min: 1, Run: ruleR25})
}

// ---- lockset ----

type lockMode int

const (
	lockNone lockMode = iota
	lockRead
	lockWrite
)

// refKey renders an access path by resolved objects: "<objptr>.f.g".
func refKey(in *types.Info, e ast.Expr) string {
	e = unparen(e)
	switch x := e.(type) {
	case *ast.Ident:
		if o := objOf(in, x); o != nil {
			return fmt.Sprintf("%p", o)
		}
	case *ast.SelectorExpr:
		if b := refKey(in, x.X); b != "" {
			return b + "." + x.Sel.Name
		}
	case *ast.StarExpr:
		return refKey(in, x.X)
	case *ast.UnaryExpr:
		if x.Op == token.AND {
			return refKey(in, x.X)
		}
	}
	return ""
}

// lockCall: X.Lock()/RLock()/Unlock()/RUnlock() on a sync mutex; returns the
// key of the mutex ("<base>.mu" or "<base>.<embedded>").
func lockCall(in *types.Info, call *ast.CallExpr) (key string, op string, ok bool) {
	fn := callee(in, call)
	if fn == nil || fn.Pkg() == nil || fn.Pkg().Path() != "sync" {
		return "", "", false
	}
	rn := recvNamed(fn)
	if rn == nil || (rn.Obj().Name() != "Mutex" && rn.Obj().Name() != "RWMutex") {
		return "", "", false
	}
	switch fn.Name() {
	case "Lock", "RLock", "Unlock", "RUnlock":
	default:
		return "", "", false
	}
	sel, isSel := unparen(call.Fun).(*ast.SelectorExpr)
	if !isSel {
		return "", "", false
	}
	base := sel.X
	k := refKey(in, base)
	if k == "" {
		return "", "", false
	}
	// embedded mutex: m.Lock() where m is a struct embedding the mutex
	if n := namedOf(in.TypeOf(base)); n != nil && !(n.Obj().Pkg() != nil && n.Obj().Pkg().Path() == "sync") {
		k += ".<" + rn.Obj().Name() + ">"
	}
	return k, fn.Name(), true
}

type lockset map[string]lockMode

func (l lockset) clone() lockset {
	o := lockset{}
	for k, v := range l {
		o[k] = v
	}
	return o
}

func meet(a, b lockset) lockset {
	o := lockset{}
	for k, v := range a {
		if w, ok := b[k]; ok {
			if w < v {
				v = w
			}
			o[k] = v
		}
	}
	return o
}

func equalLS(a, b lockset) bool {
	if len(a) != len(b) {
		return false
	}
	for k, v := range a {
		if b[k] != v {
			return false
		}
	}
	return true
}

// locksetsOf computes the must-held lockset before every CFG node of f.
func locksetsOf(p *Prog, f *FuncInfo) map[ast.Node]lockset {
	g := p.Graph(f)
	in := info(f)
	entry := map[*xcfg.Block]lockset{}
	have := map[*xcfg.Block]bool{}
	transfer := func(ls lockset, n ast.Node, record map[ast.Node]lockset) lockset {
		if record != nil {
			record[n] = ls.clone()
		}
		if _, isDefer := n.(*ast.DeferStmt); isDefer {
			return ls
		}
		if _, isGo := n.(*ast.GoStmt); isGo {
			return ls
		}
		// flag idiom: if !b { X.Lock(); b = true }  — handled at the If level below
		for _, call := range callsIn(n) {
			if k, op, ok := lockCall(in, call); ok {
				ls = ls.clone()
				switch op {
				case "Lock":
					ls[k] = lockWrite
				case "RLock":
					if ls[k] < lockRead {
						ls[k] = lockRead
					}
				case "Unlock", "RUnlock":
					delete(ls, k)
				}
			}
		}
		return ls
	}
	if len(g.Blocks) == 0 {
		return nil
	}
	// flag-coupled conditional locks: `if !flag { X.Lock(); flag = true }` => X held after the if
	flagLocks := map[*xcfg.Block]string{} // IfDone block -> lock key acquired
	inspectNoLit(f.Body, func(m ast.Node) bool {
		ifs, ok := m.(*ast.IfStmt)
		if !ok || ifs.Else != nil {
			return true
		}
		u, ok := unparen(ifs.Cond).(*ast.UnaryExpr)
		if !ok || u.Op != token.NOT {
			return true
		}
		flag, ok := unparen(u.X).(*ast.Ident)
		if !ok || len(ifs.Body.List) != 2 {
			return true
		}
		es, ok := ifs.Body.List[0].(*ast.ExprStmt)
		if !ok {
			return true
		}
		call, ok := es.X.(*ast.CallExpr)
		if !ok {
			return true
		}
		k, op, ok := lockCall(in, call)
		if !ok || op != "Lock" {
			return true
		}
		as, ok := ifs.Body.List[1].(*ast.AssignStmt)
		if !ok || len(as.Lhs) != 1 || len(as.Rhs) != 1 {
			return true
		}
		lid, ok := as.Lhs[0].(*ast.Ident)
		rid, ok2 := as.Rhs[0].(*ast.Ident)
		if !ok || !ok2 || objOf(in, lid) != objOf(in, flag) || rid.Name != "true" {
			return true
		}
		for _, b := range g.Blocks {
			if b.Kind == xcfg.KindIfDone && b.Stmt == ast.Stmt(ifs) {
				flagLocks[b] = k
			}
		}
		return true
	})
	entry[g.Blocks[0]] = lockset{}
	have[g.Blocks[0]] = true
	work := []*xcfg.Block{g.Blocks[0]}
	for len(work) > 0 {
		b := work[len(work)-1]
		work = work[:len(work)-1]
		ls := entry[b]
		if k, ok := flagLocks[b]; ok {
			ls = ls.clone()
			ls[k] = lockWrite
		}
		for _, n := range b.Nodes {
			ls = transfer(ls, n, nil)
		}
		for _, s := range b.Succs {
			if !have[s] {
				have[s] = true
				entry[s] = ls.clone()
				work = append(work, s)
			} else {
				m := meet(entry[s], ls)
				if !equalLS(m, entry[s]) {
					entry[s] = m
					work = append(work, s)
				}
			}
		}
	}
	rec := map[ast.Node]lockset{}
	for _, b := range g.Blocks {
		ls, ok := entry[b]
		if !ok {
			continue
		}
		if k, ok := flagLocks[b]; ok {
			ls = ls.clone()
			ls[k] = lockWrite
		}
		for _, n := range b.Nodes {
			ls = transfer(ls, n, rec)
		}
	}
	return rec
}

// mutexFieldsOf: names of mutex fields (or "<RWMutex>" for embedded) of a struct.
func mutexFieldsOf(st *types.Struct) []string {
	var out []string
	for i := 0; i < st.NumFields(); i++ {
		f := st.Field(i)
		if n := namedOf(f.Type()); n != nil && n.Obj().Pkg() != nil && n.Obj().Pkg().Path() == "sync" && (n.Obj().Name() == "Mutex" || n.Obj().Name() == "RWMutex") {
			if _, isPtr := f.Type().(*types.Pointer); isPtr {
				continue
			}
			if f.Embedded() {
				out = append(out, "<"+n.Obj().Name()+">")
			} else {
				out = append(out, f.Name())
			}
		}
	}
	return out
}

type fieldAccess struct {
	F      *FuncInfo
	Sel    *ast.SelectorExpr
	Field  *types.Var
	Owner  *types.Named
	Write  bool
	Held   map[string]lockMode // mutex field name -> mode held on the same base
	Fresh  bool                // base object is a fresh local of this function (constructor phase)
	CFGNod ast.Node
}

// isWriteAccess: the selector is assigned to, inc/dec'ed, appended in place,
// indexed-assigned, deleted from, or has its address taken.
func isWriteAccess(p *Prog, in *types.Info, sel *ast.SelectorExpr) bool {
	var child ast.Node = sel
	for cur := p.Parent(sel); cur != nil; cur = p.Parent(cur) {
		switch x := cur.(type) {
		case *ast.ParenExpr:
			child = cur
			continue
		case *ast.IndexExpr:
			if x.X == child {
				child = cur
				continue // m.f[k] = v : write to the map/slice content
			}
			return false
		case *ast.AssignStmt:
			for _, l := range x.Lhs {
				if ast.Node(l) == child {
					return true
				}
			}
			return false
		case *ast.IncDecStmt:
			return x.X == child
		case *ast.CallExpr:
			if isBuiltin(in, x, "delete") && len(x.Args) > 0 && ast.Node(x.Args[0]) == child {
				return true
			}
			return false
		case *ast.UnaryExpr:
			if x.Op == token.AND {
				return false // address taken: classified by the user of the pointer (atomic rule)
			}
			return false
		default:
			return false
		}
	}
	return false
}

func freshLocals(p *Prog, f *FuncInfo) map[types.Object]bool {
	in := info(f)
	out := map[types.Object]bool{}
	mark := func(lhs ast.Expr, rhs ast.Expr) {
		id, ok := lhs.(*ast.Ident)
		if !ok {
			return
		}
		r := unparen(rhs)
		if u, ok := r.(*ast.UnaryExpr); ok && u.Op == token.AND {
			r = unparen(u.X)
		}
		switch x := r.(type) {
		case *ast.CompositeLit:
			if o := objOf(in, id); o != nil {
				out[o] = true
			}
		case *ast.CallExpr:
			if isBuiltin(in, x, "new") {
				if o := objOf(in, id); o != nil {
					out[o] = true
				}
			} else if fn := callee(in, x); fn != nil && isConstructorFunc(p, p.byObj[fn]) {
				if o := objOf(in, id); o != nil {
					out[o] = true
				}
			}
		}
	}
	root := f.Root()
	inspectNoLit(root.Body, func(m ast.Node) bool {
		switch x := m.(type) {
		case *ast.AssignStmt:
			if len(x.Lhs) == len(x.Rhs) {
				for i := range x.Lhs {
					mark(x.Lhs[i], x.Rhs[i])
				}
			}
		case *ast.ValueSpec:
			if len(x.Values) == 0 {
				// var t T : zero value local
				for _, nm := range x.Names {
					if o := in.Defs[nm]; o != nil {
						if _, isStruct := o.Type().Underlying().(*types.Struct); isStruct {
							out[o] = true
						}
					}
				}
			}
			for i, nm := range x.Names {
				if i < len(x.Values) {
					mark(nm, x.Values[i])
				}
			}
		}
		return true
	})
	return out
}

// isConstructorFunc: every return of f returns a composite literal (or its
// address) or a local that was initialised by one: the result is a fresh object.
func isConstructorFunc(p *Prog, f *FuncInfo) bool {
	if f == nil || f.Decl == nil {
		return false
	}
	in := info(f)
	freshLocal := map[types.Object]bool{}
	inspectNoLit(f.Body, func(m ast.Node) bool {
		if as, ok := m.(*ast.AssignStmt); ok && len(as.Lhs) == len(as.Rhs) {
			for i, l := range as.Lhs {
				r := unparen(as.Rhs[i])
				if u, ok := r.(*ast.UnaryExpr); ok && u.Op == token.AND {
					r = unparen(u.X)
				}
				if _, ok := r.(*ast.CompositeLit); ok {
					if id, ok := l.(*ast.Ident); ok {
						freshLocal[objOf(in, id)] = true
					}
				}
			}
		}
		return true
	})
	nret, ok := 0, true
	inspectNoLit(f.Body, func(m ast.Node) bool {
		rs, isRet := m.(*ast.ReturnStmt)
		if !isRet {
			return true
		}
		nret++
		if len(rs.Results) == 0 {
			ok = false
			return true
		}
		r := unparen(rs.Results[0])
		if u, isU := r.(*ast.UnaryExpr); isU && u.Op == token.AND {
			r = unparen(u.X)
		}
		switch x := r.(type) {
		case *ast.CompositeLit:
		case *ast.Ident:
			if !freshLocal[objOf(in, x)] {
				ok = false
			}
		default:
			ok = false
		}
		return true
	})
	return ok && nret > 0
}

func collectAccesses(p *Prog, owners map[*types.Named][]string) []*fieldAccess {
	var out []*fieldAccess
	for _, f := range p.Funcs {
		in := info(f)
		var ls map[ast.Node]lockset
		g := p.Graph(f)
		fresh := freshLocals(p, f)
		inspectNoLit(f.Body, func(m ast.Node) bool {
			sel, ok := m.(*ast.SelectorExpr)
			if !ok {
				return true
			}
			s, ok := in.Selections[sel]
			if !ok || s.Kind() != types.FieldVal {
				return true
			}
			fv := s.Obj().(*types.Var)
			// declaring struct
			var owner *types.Named
			t := s.Recv()
			idx := s.Index()
			for i, ix := range idx {
				n := namedOf(t)
				st, ok := structOf(t)
				if !ok {
					break
				}
				if i == len(idx)-1 {
					owner = n
				}
				t = st.Field(ix).Type()
			}
			if owner == nil {
				return true
			}
			mus, ok := owners[owner]
			if !ok {
				return true
			}
			// skip the mutex fields themselves
			for _, mu := range mus {
				if fv.Name() == mu {
					return true
				}
			}
			if n := namedOf(fv.Type()); n != nil && n.Obj().Pkg() != nil && n.Obj().Pkg().Path() == "sync" {
				return true
			}
			if ls == nil {
				ls = locksetsOf(p, f)
			}
			pt, ok := g.PointOf(sel)
			if !ok {
				return true
			}
			a := &fieldAccess{F: f, Sel: sel, Field: fv, Owner: owner, Write: isWriteAccess(p, in, sel), Held: map[string]lockMode{}, CFGNod: pt.Node()}
			// base object path (for promoted fields through embedding the base is sel.X itself)
			baseKey := refKey(in, sel.X)
			held := ls[pt.Node()]
			for _, mu := range mus {
				if baseKey != "" {
					if m, ok := held[baseKey+"."+mu]; ok {
						a.Held[mu] = m
					}
				}
			}
			if id := rootIdent(sel.X); id != nil && fresh[objOf(in, id)] {
				a.Fresh = true
			}
			out = append(out, a)
			return true
		})
	}
	return out
}

type guardInfo struct {
	acc      []*fieldAccess
	guardian map[*types.Var]string
	owner    map[*types.Var]*types.Named
}

var guardCache = map[*Prog]*guardInfo{}

func guardedTable(p *Prog) *guardInfo {
	if g, ok := guardCache[p]; ok {
		return g
	}
	owners := map[*types.Named][]string{}
	for _, pk := range p.Target {
		scope := pk.Types.Scope()
		for _, name := range scope.Names() {
			tn, ok := scope.Lookup(name).(*types.TypeName)
			if !ok {
				continue
			}
			n, ok := tn.Type().(*types.Named)
			if !ok {
				continue
			}
			st, ok := n.Underlying().(*types.Struct)
			if !ok {
				continue
			}
			if mus := mutexFieldsOf(st); len(mus) > 0 {
				owners[n] = mus
			}
		}
	}
	gi := &guardInfo{guardian: map[*types.Var]string{}, owner: map[*types.Var]*types.Named{}}
	gi.acc = collectAccesses(p, owners)
	counts := map[*types.Var]map[string]int{}
	written := map[*types.Var]bool{}
	for _, a := range gi.acc {
		gi.owner[a.Field] = a.Owner
		if counts[a.Field] == nil {
			counts[a.Field] = map[string]int{}
		}
		for mu := range a.Held {
			counts[a.Field][mu]++
		}
		if a.Write && !a.Fresh {
			written[a.Field] = true
		}
	}
	for fv, m := range counts {
		best, bn := "", 0
		var mus []string
		for mu := range m {
			mus = append(mus, mu)
		}
		sort.Strings(mus)
		for _, mu := range mus {
			if m[mu] > bn {
				best, bn = mu, m[mu]
			}
		}
		if best != "" && written[fv] {
			gi.guardian[fv] = best
		}
	}
	guardCache[p] = gi
	return gi
}

func ruleR22(c *Ctx) {
	p := c.P
	gi := guardedTable(p)
	ruleR22body(c, gi)
}

func ruleR22body(c *Ctx, gi *guardInfo) {
	p := c.P
	// exceptions, one named symbol each with a reason
	exempt := map[string]string{
		"FlowNodeMapping.mapping": "construction-locked protocol (written while the constructor holds the write lock taken by NewLockedFlowNodeMapping): decided by R13",
	}
	var tbl []string
	for fv, mu := range gi.guardian {
		tbl = append(tbl, gi.owner[fv].Obj().Name()+"."+fv.Name()+"->"+mu)
	}
	sort.Strings(tbl)
	c.Ok(nil, nil, "inferred guarded-by table", "guarded-by table inferred from accesses under a sibling mutex", strings.Join(tbl, ", "), false)
	if len(tbl) < 10 {
		c.Missing("guarded-by table", fmt.Sprintf("only %d guarded fields inferred (expected >= 10): lock usage vanished", len(tbl)))
	}
	for _, a := range gi.acc {
		mu, ok := gi.guardian[a.Field]
		if !ok {
			continue
		}
		name := a.Owner.Obj().Name() + "." + a.Field.Name()
		if _, ex := exempt[name]; ex {
			continue
		}
		if a.Fresh {
			continue
		}
		kind := "read"
		need := lockRead
		if a.Write {
			kind, need = "write", lockWrite
		}
		desc := kind + " of " + name
		held := a.Held[mu]
		if held >= need {
			c.Ok(a.F, a.Sel, desc, "access to "+name+" holds "+mu, fmt.Sprintf("must-held lockset at the access contains %s (%s)", mu, modeName(held)), true)
			continue
		}
		if okc, why := callersHold(p, a, mu, need); okc {
			c.Ok(a.F, a.Sel, desc, "access to "+name+" holds "+mu, why, true)
			continue
		}
		// a literal that is handed straight to a call (sort.Search, sort.Slice, once.Do ...) runs inside that call:
		// what its enclosing function holds at the call, or what every caller of that function holds, is held
		if a.F.Lit != nil && a.F.Parent != nil {
			if pc, isCall := p.Parent(a.F.Lit).(*ast.CallExpr); isCall {
				_, isGo := p.Parent(pc).(*ast.GoStmt)
				_, isDefer := p.Parent(pc).(*ast.DeferStmt)
				direct := false
				for _, arg := range pc.Args {
					if unparen(arg) == ast.Expr(a.F.Lit) {
						direct = true
					}
				}
				if direct && !isGo && !isDefer {
					par := a.F.Parent
					if pt, found := p.Graph(par).PointOf(pc); found {
						if locksetsOf(p, par)[pt.Node()][refKey(info(par), a.Sel.X)+"."+mu] >= need {
							c.Ok(a.F, a.Sel, desc, "access to "+name+" holds "+mu, "synchronous callback: the enclosing function holds "+mu+" at the call", true)
							continue
						}
					}
					b := *a
					b.F = par
					if okc, why := callersHold(p, &b, mu, need); okc {
						c.Ok(a.F, a.Sel, desc, "access to "+name+" holds "+mu, "synchronous callback; "+why, true)
						continue
					}
				}
			}
		}
		wit := fmt.Sprintf("lock %s not held (%s) at the access; other accesses of %s hold it", mu, modeName(held), name)
		if len(a.Held) > 0 {
			var others []string
			for o := range a.Held {
				others = append(others, o)
			}
			wit += "; a different mutex is held: " + strings.Join(others, ",")
		}
		c.Bad(a.F, a.Sel, desc, "every access to "+name+" must hold "+mu+" (exclusively for writes): it is written after construction and accessed from several goroutines", wit)
	}
	ruleR22tracker(c)
}

func modeName(m lockMode) string {
	switch m {
	case lockRead:
		return "read"
	case lockWrite:
		return "write"
	}
	return "none"
}

func callersHold(p *Prog, a *fieldAccess, mu string, need lockMode) (bool, string) {
	root := a.F.Root()
	if root.Obj == nil || a.F != root || root.Decl == nil || root.Decl.Recv == nil {
		return false, ""
	}
	// the access base must be the receiver
	in := info(root)
	var recvObj types.Object
	for _, fl := range root.Decl.Recv.List {
		for _, nm := range fl.Names {
			recvObj = in.Defs[nm]
		}
	}
	if id := rootIdent(a.Sel.X); id == nil || objOf(in, id) != recvObj || recvObj == nil {
		return false, ""
	}
	sites := 0
	for _, h := range p.Funcs {
		hin := info(h)
		var hls map[ast.Node]lockset
		hg := p.Graph(h)
		ok := true
		inspectNoLit(h.Body, func(m ast.Node) bool {
			call, isCall := m.(*ast.CallExpr)
			if !isCall || callee(hin, call) != root.Obj {
				return true
			}
			sel, isSel := unparen(call.Fun).(*ast.SelectorExpr)
			if !isSel {
				ok = false
				return true
			}
			if hls == nil {
				hls = locksetsOf(p, h)
			}
			pt, found := hg.PointOf(call)
			if !found {
				ok = false
				return true
			}
			sites++
			if hls[pt.Node()][refKey(hin, sel.X)+"."+mu] < need {
				ok = false
			}
			return true
		})
		if !ok {
			return false, ""
		}
	}
	if sites == 0 {
		return false, ""
	}
	return true, fmt.Sprintf("callers hold %s: all %d call sites of %s hold it on the receiver", mu, sites, root.QName())
}

// ruleR22tracker: lock/flag coupling protocol of the flow tracker: every Lock
// of a lock that is conditionally held through a boolean flag is under
// `if !flag` and followed by `flag = true`; every Unlock is under `if flag`
// (or `if flag && ...`) and followed by `flag = false` or return.
func ruleR22tracker(c *Ctx) {
	p := c.P
	for _, f := range p.Funcs {
		if f.Pkg.PkgPath != pathBpmn || f.Root().Obj == nil {
			continue
		}
		rn := recvNamed(f.Root().Obj)
		if rn == nil || rn.Obj().Name() != "flowTracker" {
			continue
		}
		in := info(f)
		inspectNoLit(f.Body, func(m ast.Node) bool {
			call, ok := m.(*ast.CallExpr)
			if !ok {
				return true
			}
			_, op, ok := lockCall(in, call)
			if !ok || (op != "Lock" && op != "Unlock") {
				return true
			}
			// innermost enclosing if
			var ifs *ast.IfStmt
			for cur := p.Parent(call); cur != nil; cur = p.Parent(cur) {
				if x, ok := cur.(*ast.IfStmt); ok {
					ifs = x
					break
				}
				if _, ok := cur.(*ast.FuncDecl); ok {
					break
				}
			}
			if ifs == nil {
				// unconditional Lock in constructor (starts locked) is fine when followed by go of run
				if op == "Lock" && f.Root().Obj.Name() != "run" {
					c.Ok(f, call, "tracker lock protocol: "+op, "unconditional Lock outside the flag protocol (constructor starts locked)", "in "+f.QName(), false)
					return true
				}
				c.Bad(f, call, "tracker lock protocol: "+op, "a conditionally-held lock is only locked under `if !flag` and unlocked under `if flag`", "unconditional "+op)
				return true
			}
			cond := exprString(ifs.Cond)
			var flagName string
			okShape := false
			if op == "Lock" {
				if u, ok := unparen(ifs.Cond).(*ast.UnaryExpr); ok && u.Op == token.NOT {
					if id, ok := unparen(u.X).(*ast.Ident); ok {
						flagName = id.Name
					}
				}
			} else {
				// `flag` or `flag && ...`
				e := unparen(ifs.Cond)
				if be, ok := e.(*ast.BinaryExpr); ok && be.Op == token.LAND {
					e = unparen(be.X)
				}
				if id, ok := e.(*ast.Ident); ok {
					flagName = id.Name
				}
			}
			if flagName != "" {
				// find the statement after the call in the if body
				for i, st := range ifs.Body.List {
					if es, ok := st.(*ast.ExprStmt); ok && es.X == ast.Expr(call) {
						want := "true"
						if op == "Unlock" {
							want = "false"
						}
						for _, nx := range ifs.Body.List[i+1:] {
							if as, ok := nx.(*ast.AssignStmt); ok && len(as.Lhs) == 1 {
								if id, ok := as.Lhs[0].(*ast.Ident); ok && id.Name == flagName {
									if r, ok := as.Rhs[0].(*ast.Ident); ok && r.Name == want {
										okShape = true
									}
								}
							}
							if _, ok := nx.(*ast.ReturnStmt); ok && op == "Unlock" {
								okShape = true
							}
						}
						// Unlock directly followed by return after the if
						if op == "Unlock" && !okShape {
							okShape = followedByReturn(p, ifs)
						}
						// helper shape: the function consists of this `if flag { Unlock }` only, flag is its
						// parameter, and every call site is followed by a return
						topLevel := false
						for _, st := range f.Body.List {
							if st == ast.Stmt(ifs) {
								topLevel = true
							}
						}
						if op == "Unlock" && !okShape && f.Decl != nil && topLevel {
							sites, good := 0, 0
							for _, h := range p.Funcs {
								hin := info(h)
								inspectNoLit(h.Body, func(z ast.Node) bool {
									if hc, ok := z.(*ast.CallExpr); ok && callee(hin, hc) == f.Obj {
										sites++
										if es, ok := p.Parent(hc).(*ast.ExprStmt); ok && followedByReturn(p, es) {
											good++
										}
									}
									return true
								})
							}
							okShape = sites > 0 && sites == good
						}
					}
				}
			}
			c.Check(okShape, f, call, "tracker lock protocol: "+op, "the tracker's lock is coupled to its `locked` flag: Lock only under `if !locked` followed by locked = true; Unlock only under `if locked` followed by locked = false or return", "guard `"+cond+"`, flag update found: "+fmt.Sprint(okShape))
			return true
		})
	}
}

func followedByReturn(p *Prog, st ast.Stmt) bool {
	var list []ast.Stmt
	switch x := p.Parent(st).(type) {
	case *ast.BlockStmt:
		list = x.List
	case *ast.CaseClause:
		list = x.Body
	case *ast.CommClause:
		list = x.Body
	}
	for i, s := range list {
		if s != st {
			continue
		}
		// the statements up to the next return may do other things, but nothing with a lock
		for _, nx := range list[i+1:] {
			if _, ok := nx.(*ast.ReturnStmt); ok {
				return true
			}
			touchesLock := false
			ast.Inspect(nx, func(z ast.Node) bool {
				if sel, ok := z.(*ast.SelectorExpr); ok {
					switch sel.Sel.Name {
					case "Lock", "Unlock", "RLock", "RUnlock":
						touchesLock = true
					}
				}
				return true
			})
			if touchesLock {
				return false
			}
			switch nx.(type) {
			case *ast.ExprStmt, *ast.AssignStmt:
			default:
				return false
			}
		}
	}
	return false
}

// ---- R23 ----

func ruleR23(c *Ctx) {
	p := c.P
	// variables whose address is passed to a sync/atomic function
	atomicVars := map[*types.Var]bool{}
	isAtomicCall := func(in *types.Info, call *ast.CallExpr) bool {
		fn := callee(in, call)
		return fn != nil && fn.Pkg() != nil && fn.Pkg().Path() == "sync/atomic" && recvNamed(fn) == nil
	}
	for _, f := range p.Funcs {
		in := info(f)
		inspectNoLit(f.Body, func(m ast.Node) bool {
			call, ok := m.(*ast.CallExpr)
			if !ok || !isAtomicCall(in, call) || len(call.Args) == 0 {
				return true
			}
			if u, ok := unparen(call.Args[0]).(*ast.UnaryExpr); ok && u.Op == token.AND {
				if v, ok := objOf(in, u.X).(*types.Var); ok {
					atomicVars[v] = true
				}
			}
			return true
		})
	}
	if len(atomicVars) < 3 {
		c.Missing("atomic variables", fmt.Sprintf("expected >= 3 variables accessed through sync/atomic functions, found %d", len(atomicVars)))
	}
	for _, f := range p.Funcs {
		in := info(f)
		inspectNoLit(f.Body, func(m ast.Node) bool {
			var v *types.Var
			var e ast.Expr
			switch x := m.(type) {
			case *ast.Ident:
				if vv, ok := in.Uses[x].(*types.Var); ok && atomicVars[vv] && !vv.IsField() {
					v, e = vv, x
				}
			case *ast.SelectorExpr:
				if fv := fieldOf(in, x); fv != nil && atomicVars[fv] {
					v, e = fv, x
				}
			}
			if v == nil {
				return true
			}
			// accepted context: operand of & that is the first argument of an atomic call
			okCtx := false
			if u, ok := p.Parent(e).(*ast.UnaryExpr); ok && u.Op == token.AND {
				if call, ok := p.Parent(u).(*ast.CallExpr); ok && isAtomicCall(in, call) && len(call.Args) > 0 && unparen(call.Args[0]) == ast.Expr(u) {
					okCtx = true
				}
			}
			name := v.Name()
			if v.IsField() {
				name = fieldName(in, e)
			}
			c.Check(okCtx, f, e, "access to atomic variable "+name, "a variable that is accessed with sync/atomic functions anywhere is accessed only through them (a plain read or write races with the atomic ones)", fmt.Sprintf("atomic context: %v", okCtx))
			return false
		})
	}
	// atomic read-modify-write: a Store whose value is computed from a Load of the same variable is a lost update
	nStore := 0
	for _, f := range p.Funcs {
		in := info(f)
		atomTarget := func(call *ast.CallExpr) (string, string) { // (key of the atomic variable, op)
			fn := callee(in, call)
			if fn == nil || fn.Pkg() == nil || fn.Pkg().Path() != "sync/atomic" {
				return "", ""
			}
			if recvNamed(fn) != nil { // typed atomic method x.Load()/x.Store(v)
				if sel, ok := unparen(call.Fun).(*ast.SelectorExpr); ok {
					return refKey(in, sel.X), fn.Name()
				}
				return "", ""
			}
			if len(call.Args) > 0 { // atomic.LoadT(&x) / atomic.StoreT(&x, v)
				if u, ok := unparen(call.Args[0]).(*ast.UnaryExpr); ok {
					name := fn.Name()
					switch {
					case strings.HasPrefix(name, "Load"):
						name = "Load"
					case strings.HasPrefix(name, "Store"):
						name = "Store"
					}
					return refKey(in, u.X), name
				}
			}
			return "", ""
		}
		// locals derived from a Load of key k
		derived := map[types.Object]string{}
		inspectNoLit(f.Body, func(m ast.Node) bool {
			as, ok := m.(*ast.AssignStmt)
			if !ok || len(as.Lhs) != len(as.Rhs) {
				return true
			}
			for i, l := range as.Lhs {
				id, ok := unparen(l).(*ast.Ident)
				if !ok {
					continue
				}
				inspectNoLit(as.Rhs[i], func(z ast.Node) bool {
					if call, ok := z.(*ast.CallExpr); ok {
						if k, op := atomTarget(call); k != "" && op == "Load" {
							derived[objOf(in, id)] = k
						}
					}
					if rid, ok := z.(*ast.Ident); ok {
						if k, ok := derived[objOf(in, rid)]; ok {
							derived[objOf(in, id)] = k
						}
					}
					return true
				})
			}
			return true
		})
		inspectNoLit(f.Body, func(m ast.Node) bool {
			call, ok := m.(*ast.CallExpr)
			if !ok {
				return true
			}
			k, op := atomTarget(call)
			if k == "" || op != "Store" {
				return true
			}
			nStore++
			arg := call.Args[len(call.Args)-1]
			rmw := false
			inspectNoLit(arg, func(z ast.Node) bool {
				if c2, ok := z.(*ast.CallExpr); ok {
					if k2, op2 := atomTarget(c2); k2 == k && op2 == "Load" {
						rmw = true
					}
				}
				if rid, ok := z.(*ast.Ident); ok && derived[objOf(in, rid)] == k {
					rmw = true
				}
				return true
			})
			c.Check(!rmw, f, call, "atomic Store of "+exprStringShort(unparen(call.Fun)), "the value stored into an atomic variable is not computed from a Load of the same variable (load, compute, store is not atomic: two goroutines can store the same value; use Add or CompareAndSwap)", fmt.Sprintf("stored value derives from a Load of the same variable: %v", rmw))
			return true
		})
	}
	// typed atomics are safe by construction; count them as instances for the record
	n := 0
	for _, pk := range p.Target {
		scope := pk.Types.Scope()
		for _, name := range scope.Names() {
			if tn, ok := scope.Lookup(name).(*types.TypeName); ok {
				if st, ok := tn.Type().Underlying().(*types.Struct); ok {
					for i := 0; i < st.NumFields(); i++ {
						if nn := namedOf(st.Field(i).Type()); nn != nil && nn.Obj().Pkg() != nil && nn.Obj().Pkg().Path() == "sync/atomic" {
							n++
						}
					}
				}
			}
		}
	}
	c.Ok(nil, nil, "typed atomics", "fields of sync/atomic types can only be accessed atomically", fmt.Sprintf("%d typed atomic fields", n), false)
}

// ---- R24 ----

func ruleR24(c *Ctx) {
	p := c.P
	ce := chanEngine(p)
	// node types: named struct types in bpmn with a method `run` that is launched by go
	runOf := map[*types.Named]*FuncInfo{}
	for _, l := range ce.Launches() {
		if l.Root == nil || l.Root.Obj == nil || l.Root.Obj.Name() != "run" || l.Root.Pkg.PkgPath != pathBpmn {
			continue
		}
		if rn := recvNamed(l.Root.Obj); rn != nil {
			runOf[rn] = l.Root
		}
	}
	if len(runOf) < 11 {
		c.Missing("node types", fmt.Sprintf("expected >= 11 node types with a run goroutine, found %d", len(runOf)))
	}
	var types_ []*types.Named
	for n := range runOf {
		types_ = append(types_, n)
	}
	sort.Slice(types_, func(i, j int) bool { return types_[i].Obj().Name() < types_[j].Obj().Name() })
	for _, T := range types_ {
		run := runOf[T]
		st := T.Underlying().(*types.Struct)
		// confined function set: run + methods of T statically called from it (transitively), plus literals run synchronously
		confined := map[*FuncInfo]bool{}
		var add func(f *FuncInfo)
		add = func(f *FuncInfo) {
			if confined[f] {
				return
			}
			confined[f] = true
			in := info(f)
			inspectNoLit(f.Body, func(m ast.Node) bool {
				if _, isGo := m.(*ast.GoStmt); isGo {
					return false
				}
				if call, ok := m.(*ast.CallExpr); ok {
					if fn := callee(in, call); fn != nil {
						if cf := p.byObj[fn]; cf != nil && recvNamed(fn) == T {
							add(cf)
						}
					}
					if lf := syncLitOfCall(p, in, call); lf != nil {
						add(lf)
					}
				}
				if d, ok := m.(*ast.DeferStmt); ok {
					if lit, ok := unparen(d.Call.Fun).(*ast.FuncLit); ok {
						add(p.byLit[lit])
					}
				}
				return true
			})
		}
		add(run)
		// constructor functions: functions that build a T composite literal
		isCtor := func(f *FuncInfo) bool {
			found := false
			in := info(f.Root())
			inspectNoLit(f.Root().Body, func(m ast.Node) bool {
				if cl, ok := m.(*ast.CompositeLit); ok && namedOf(in.TypeOf(cl)) == T {
					found = true
				}
				return true
			})
			if !found {
				ast.Inspect(f.Root().Body, func(m ast.Node) bool {
					if cl, ok := m.(*ast.CompositeLit); ok && namedOf(in.TypeOf(cl)) == T {
						found = true
					}
					return true
				})
			}
			return found
		}
		for i := 0; i < st.NumFields(); i++ {
			fld := st.Field(i)
			if fld.Embedded() {
				continue
			}
			ft := fld.Type()
			if _, isChan := ft.Underlying().(*types.Chan); isChan {
				continue
			}
			if n := namedOf(ft); n != nil && n.Obj().Pkg() != nil && (n.Obj().Pkg().Path() == "sync" || n.Obj().Pkg().Path() == "sync/atomic") {
				continue
			}
			type acc struct {
				f     *FuncInfo
				sel   *ast.SelectorExpr
				write bool
			}
			var accs []acc
			written := false
			for _, f := range p.Funcs {
				if f.Pkg.PkgPath != pathBpmn {
					continue
				}
				in := info(f)
				inspectNoLit(f.Body, func(m ast.Node) bool {
					if sel, ok := m.(*ast.SelectorExpr); ok && fieldOf(in, sel) == fld {
						w := isWriteAccess(p, in, sel)
						// append self-assignment counts as write via AssignStmt lhs
						accs = append(accs, acc{f, sel, w})
						if w && !isCtor(f) {
							written = true
						}
					}
					return true
				})
			}
			if !written {
				continue
			}
			if _, guarded := guardedTable(p).guardian[fld]; guarded {
				continue // lock-protected: decided by R22
			}
			// atomic raw ints are handled by R23
			okAll := true
			var offenders []string
			var at ast.Node
			for _, a := range accs {
				if confined[a.f] || isCtor(a.f) {
					continue
				}
				// accesses through sync/atomic functions
				if u, ok := p.Parent(a.sel).(*ast.UnaryExpr); ok && u.Op == token.AND {
					if call, ok := p.Parent(u).(*ast.CallExpr); ok {
						if fn := callee(info(a.f), call); fn != nil && fn.Pkg() != nil && fn.Pkg().Path() == "sync/atomic" {
							continue
						}
					}
				}
				okAll = false
				at = a.sel
				offenders = append(offenders, a.f.QName()+" at "+p.Pos(a.sel.Pos()))
			}
			if at == nil && len(accs) > 0 {
				at = accs[0].sel
			}
			c.Check(okAll, run, at, "confinement of "+T.Obj().Name()+"."+fld.Name(),
				"field "+T.Obj().Name()+"."+fld.Name()+" is written after construction, so it may only be touched by the node's run goroutine (run and the methods / synchronous literals it calls); closures handed to tokens, NextAction, ConsumeEvent and new goroutines must not touch it",
				ifEmpty(strings.Join(offenders, "; "), fmt.Sprintf("%d accesses, all inside %d confined function bodies", len(accs), len(confined))))
		}
	}
}

// ---- R25 ----

func ruleR25(c *Ctx) {
	p := c.P
	n := 0
	for _, f := range p.Funcs {
		if !inEngineScope(f) {
			continue
		}
		in := info(f)
		// locals declared directly in f (not in nested literals)
		locals := map[*types.Var]bool{}
		inspectNoLit(f.Body, func(m ast.Node) bool {
			switch x := m.(type) {
			case *ast.AssignStmt:
				if x.Tok == token.DEFINE {
					for _, l := range x.Lhs {
						if id, ok := l.(*ast.Ident); ok {
							if v, ok := in.Defs[id].(*types.Var); ok {
								locals[v] = true
							}
						}
					}
				}
			case *ast.ValueSpec:
				for _, nm := range x.Names {
					if v, ok := in.Defs[nm].(*types.Var); ok {
						locals[v] = true
					}
				}
			}
			return true
		})
		if len(locals) == 0 || len(f.Lits) == 0 {
			continue
		}
		// escaping literals nested (at any depth) in f
		type use struct {
			lit   *FuncInfo
			write bool
			atom  bool
		}
		uses := map[*types.Var][]use{}
		var visit func(l *FuncInfo)
		visit = func(l *FuncInfo) {
			if escapes(p, l) {
				perVar := map[*types.Var]*use{}
				ast.Inspect(l.Body, func(m ast.Node) bool {
					id, ok := m.(*ast.Ident)
					if !ok {
						return true
					}
					v, ok := in.Uses[id].(*types.Var)
					if !ok || !locals[v] {
						return true
					}
					u := perVar[v]
					if u == nil {
						u = &use{lit: l, atom: true}
						perVar[v] = u
					}
					w := isLocalWrite(p, id)
					if w {
						u.write = true
					}
					if !isAtomicOperand(p, in, id) {
						u.atom = false
					}
					return true
				})
				for v, u := range perVar {
					uses[v] = append(uses[v], *u)
				}
			}
			for _, nl := range l.Lits {
				visit(nl)
			}
		}
		for _, l := range f.Lits {
			visit(l)
		}
		var vars []*types.Var
		for v := range uses {
			vars = append(vars, v)
		}
		sort.Slice(vars, func(i, j int) bool { return vars[i].Pos() < vars[j].Pos() })
		for _, v := range vars {
			us := uses[v]
			anyWrite, allAtomic := false, true
			lits := map[*FuncInfo]bool{}
			for _, u := range us {
				if u.write {
					anyWrite = true
				}
				if !u.atom {
					allAtomic = false
				}
				lits[u.lit] = true
			}
			if !anyWrite {
				// atomically modified only: still per-activation state
				atomicMod := false
				for l := range lits {
					ast.Inspect(l.Body, func(z ast.Node) bool {
						if id, isId := z.(*ast.Ident); isId && in.Uses[id] == types.Object(v) && isAtomicOperand(p, in, id) {
							atomicMod = true
						}
						return true
					})
				}
				if !atomicMod {
					// read-only in the closures — but does the creating function go on writing it for the next
					// activation? A container declared outside the loop that creates the closures and stored into
					// inside that loop is shared by the closures of every earlier iteration, which read it from the
					// tokens' goroutines while the loop writes it.
					// (any type: a scalar that the loop reassigns is seen by every earlier closure with its last value —
					// all tokens forked in one step would share the id drawn for the last of them)
					var lp ast.Node
					for l := range lits {
						if x := innermostLoop(p, l.Lit); x != nil && !(v.Pos() >= x.Pos() && v.Pos() < x.End()) {
							lp = x
						}
					}
					if lp == nil {
						continue
					}
					var store ast.Node
					inspectNoLit(lp, func(z ast.Node) bool {
						as, ok := z.(*ast.AssignStmt)
						if !ok || store != nil {
							return true
						}
						for _, l := range as.Lhs {
							e := unparen(l)
							if ix, isIx := e.(*ast.IndexExpr); isIx {
								e = unparen(ix.X)
							}
							if id, isId := e.(*ast.Ident); isId && in.Uses[id] == types.Object(v) {
								store = as
							}
						}
						return true
					})
					if store == nil {
						continue
					}
					n++
					c.Bad(f, store, "captured local "+v.Name()+" outlives the activation", "a container that the action closures of one activation read from the tokens' goroutines must belong to that activation: declared outside the loop and filled inside it, it is written for the next token while the closures of the previous one still read it (data race, and the earlier activation sees the later one's channels)", fmt.Sprintf("%s is declared outside the loop at %s and stored into at %s while closures created in earlier iterations read it", v.Name(), c.pos(posNode(v.Pos())), c.pos(store)))
					continue
				}
				n++
				scoped := true
				for l := range lits {
					if lp := innermostLoop(p, l.Lit); lp != nil && !(v.Pos() >= lp.Pos() && v.Pos() < lp.End()) {
						scoped = false
					}
				}
				c.Check(scoped, f, f.Body, "captured atomic local "+v.Name(), "a local that action closures modify atomically is declared inside the loop iteration that creates the closures (per-activation state must not leak into the next activation)", fmt.Sprintf("declared inside the creating iteration: %v", scoped))
				continue
			}
			n++
			ok := allAtomic
			// a single escaping literal that is launched exactly once (go literal) and the parent does not touch v afterwards is fine
			if !ok && len(lits) == 1 {
				for l := range lits {
					if launchedOnceAsGo(p, l) && !parentUsesAfter(p, f, l, v) {
						ok = true
					}
				}
			}
			// per-activation state: a local written by a closure created inside a loop must be declared
			// inside that loop iteration, otherwise the state of one activation leaks into the next
			for l := range lits {
				if lp := innermostLoop(p, l.Lit); lp != nil && !(v.Pos() >= lp.Pos() && v.Pos() < lp.End()) {
					wr := false
					for _, u := range us {
						if u.lit == l && u.write {
							wr = true
						}
					}
					// atomic read-modify-write through &v counts as a write
					ast.Inspect(l.Body, func(z ast.Node) bool {
						if id, isId := z.(*ast.Ident); isId && in.Uses[id] == types.Object(v) && isAtomicOperand(p, in, id) {
							wr = true
						}
						return true
					})
					if wr {
						c.Bad(f, l.Lit, "captured local "+v.Name()+" outlives the activation", "a local that an action closure writes (plainly or atomically) is declared inside the loop iteration that creates the closure: state declared outside the loop is shared by all activations (a winner flag set once stays set)", v.Name()+" is declared outside the loop at "+p.Pos(lp.Pos())+" but written by a closure created in each iteration")
					}
				}
			}
			how := ""
			if !ok {
				// hand-shake shape: the writing closure first ranges over the variable and sends on /
				// closes every element (each reader obtained its channel from the variable and is
				// parked on it), and only then replaces the variable
				for l := range lits {
					if handshakeBeforeWrite(p, l, v) {
						ok = true
						how = "; the write is preceded by a range over " + v.Name() + " that sends on / closes every element (channel hand-shake with every reader before the variable is replaced)"
					}
				}
			}
			c.Check(ok, f, f.Body, "captured local "+v.Name()+" ("+typeString(v.Type())+")",
				"a local variable written inside a closure that escapes to other goroutines (stored in an action, returned, passed on) is accessed atomically or under a lock everywhere",
				fmt.Sprintf("%d escaping closures reference %s; written in a closure; all accesses atomic: %v%s", len(lits), v.Name(), allAtomic, how))
		}
	}
	if n == 0 {
		c.Missing("captured written locals", "no local variable is written inside an escaping closure any more (the event-based gateway's winner flag / channel map are expected here)")
	}
}

func handshakeBeforeWrite(p *Prog, l *FuncInfo, v *types.Var) bool {
	in := info(l)
	var write *ast.AssignStmt
	ast.Inspect(l.Body, func(m ast.Node) bool {
		if as, ok := m.(*ast.AssignStmt); ok {
			for _, lhs := range as.Lhs {
				if id, ok := unparen(lhs).(*ast.Ident); ok && in.Uses[id] == types.Object(v) {
					write = as
				}
			}
		}
		return true
	})
	if write == nil {
		return false
	}
	ok := false
	ast.Inspect(l.Body, func(m ast.Node) bool {
		rs, isR := m.(*ast.RangeStmt)
		if !isR || rs.End() > write.Pos() {
			return true
		}
		id, isId := unparen(rs.X).(*ast.Ident)
		if !isId || in.Uses[id] != types.Object(v) || rs.Value == nil {
			return true
		}
		val := objOf(in, rs.Value)
		// same statement list as the write (the loop is not conditional relative to the write)
		if p.Parent(rs) != p.Parent(write) {
			return true
		}
		closes := false
		ast.Inspect(rs.Body, func(z ast.Node) bool {
			if call, isC := z.(*ast.CallExpr); isC && isBuiltin(in, call, "close") && len(call.Args) == 1 && objOf(in, call.Args[0]) == val {
				closes = true
			}
			return true
		})
		if closes {
			ok = true
		}
		return true
	})
	return ok
}

// escapes: the literal is stored (composite literal field, assignment, return,
// argument of a non-sync function) or launched by go; not immediately invoked,
// not a sync.Once.Do / defer body.
func escapes(p *Prog, l *FuncInfo) bool {
	par := p.Parent(l.Lit)
	switch x := par.(type) {
	case *ast.CallExpr:
		if unparen(x.Fun) == ast.Expr(l.Lit) {
			// immediately invoked: go func(){}() escapes to a new goroutine; defer/plain do not
			if _, isGo := p.Parent(x).(*ast.GoStmt); isGo {
				return true
			}
			return false
		}
		pf := p.EnclosingFunc(x)
		if pf != nil && isSyncMethod(info(pf), x, "Once", "Do") {
			return false
		}
		return true
	case *ast.KeyValueExpr, *ast.AssignStmt, *ast.ReturnStmt, *ast.CompositeLit, *ast.ValueSpec:
		return true
	}
	return true
}

func isLocalWrite(p *Prog, id *ast.Ident) bool {
	var child ast.Node = id
	for cur := p.Parent(id); cur != nil; cur = p.Parent(cur) {
		switch x := cur.(type) {
		case *ast.ParenExpr:
			child = cur
		case *ast.IndexExpr:
			if x.X != child {
				return false
			}
			child = cur
		case *ast.AssignStmt:
			for _, l := range x.Lhs {
				if ast.Node(l) == child {
					return x.Tok != token.DEFINE
				}
			}
			return false
		case *ast.IncDecStmt:
			return x.X == child
		default:
			return false
		}
	}
	return false
}

func isAtomicOperand(p *Prog, in *types.Info, id *ast.Ident) bool {
	if u, ok := p.Parent(id).(*ast.UnaryExpr); ok && u.Op == token.AND {
		if call, ok := p.Parent(u).(*ast.CallExpr); ok {
			if fn := callee(in, call); fn != nil && fn.Pkg() != nil && fn.Pkg().Path() == "sync/atomic" {
				return true
			}
		}
	}
	return false
}

func launchedOnceAsGo(p *Prog, l *FuncInfo) bool {
	call, ok := p.Parent(l.Lit).(*ast.CallExpr)
	if !ok || unparen(call.Fun) != ast.Expr(l.Lit) {
		return false
	}
	_, isGo := p.Parent(call).(*ast.GoStmt)
	return isGo
}

func parentUsesAfter(p *Prog, f *FuncInfo, l *FuncInfo, v *types.Var) bool {
	in := info(f)
	used := false
	inspectNoLit(f.Body, func(m ast.Node) bool {
		if id, ok := m.(*ast.Ident); ok && in.Uses[id] == types.Object(v) && id.Pos() > l.Lit.End() {
			used = true
		}
		return true
	})
	return used
}
