package main

// Round 8 (held-out wave 8), second part: R187–R193.

import (
	"fmt"
	"go/ast"
	"go/token"
	"go/types"
	"sort"
	"strings"
)

func init() {
	register(&Rule{ID: "R187", Title: "what a process set was built from stays: the lists of schema elements a ProcessSet holds (its processes, its waiting processes, its message flows) are assigned in the constructor only", Min: 1, Run: ruleR187})
	register(&Rule{ID: "R189", Title: "an empty id is no id: wherever the builders generate an id for an element, the decision tests the id for emptiness, not only for presence", Min: 1, Run: ruleR189})
	register(&Rule{ID: "R190", Title: "no ambiguous composite keys: a string built by joining two or more ids with a separator is not used as a map key", Min: 0, Run: ruleR190})
	register(&Rule{ID: "R191", Title: "an event matches definitions of its own kind only: the type tests that a MatchesEventInstance method (and the helpers it calls) applies to the definition name its own definition type and no other", Min: 3, Run: ruleR191})
	register(&Rule{ID: "R192", Title: "reader and writer default under the same condition: the assignments of a default to the same field in UnmarshalXML and MarshalXML of a type are guarded by the same test", Min: 1, Run: ruleR192})
	register(&Rule{ID: "R193", Title: "a subscription is acknowledged only after it is on the list: in the broadcaster's subscribe clause every acknowledgement is dominated by the append to the subscriber list", Min: 1, Run: ruleR193})
}

func ruleR187(c *Ctx) {
	p := c.P
	what := "a message flow instantiates the waiting process it points at once per throw. A set that strikes a waiting process off its list after the first instantiation answers the second throw with nothing: one throw, zero instances"
	n := 0
	for _, f := range p.Funcs {
		if f.Body == nil || f.Pkg.PkgPath != pathBpmn {
			continue
		}
		in := info(f)
		ast.Inspect(f.Body, func(m ast.Node) bool {
			as, ok := m.(*ast.AssignStmt)
			if !ok {
				return true
			}
			for _, l := range as.Lhs {
				e := unparen(l)
				if ix, isIx := e.(*ast.IndexExpr); isIx {
					e = unparen(ix.X)
				}
				se, isSel := e.(*ast.SelectorExpr)
				if !isSel {
					continue
				}
				fv := fieldOf(in, se)
				if fv == nil {
					continue
				}
				owner := namedOf(in.TypeOf(se.X))
				if owner == nil || owner.Obj().Name() != "ProcessSet" {
					continue
				}
				// lists / tables of schema elements
				holdsSchema := false
				var walk func(t types.Type, d int)
				walk = func(t types.Type, d int) {
					if d > 3 || t == nil {
						return
					}
					switch x := t.(type) {
					case *types.Slice:
						walk(x.Elem(), d+1)
					case *types.Map:
						walk(x.Elem(), d+1)
					case *types.Pointer:
						walk(x.Elem(), d+1)
					case *types.Named:
						if x.Obj().Pkg() != nil && x.Obj().Pkg().Path() == pathSchema {
							holdsSchema = true
						}
					}
				}
				switch fv.Type().(type) {
				case *types.Slice, *types.Map:
					walk(fv.Type(), 0)
				}
				if !holdsSchema {
					continue
				}
				n++
				c.Bad(f, as, "write of ProcessSet."+fv.Name()+" after construction", what, "assigned in "+f.QName())
			}
			return true
		})
	}
	// the constructor initialises them in a composite literal; count those as the positive instances
	for _, f := range p.Funcs {
		if f.Body == nil || f.Pkg.PkgPath != pathBpmn {
			continue
		}
		in := info(f)
		ast.Inspect(f.Body, func(m ast.Node) bool {
			lit, ok := m.(*ast.CompositeLit)
			if ok && isNamed(in.TypeOf(lit), pathBpmn, "ProcessSet") {
				n++
				c.Ok(f, lit, "ProcessSet literal", what, "the schema lists are set where the set is constructed", true)
			}
			return true
		})
	}
	if n == 0 {
		c.Missing("ProcessSet construction", "no ProcessSet literal was found")
	}
}

func ruleR189(c *Ctx) {
	p := c.P
	what := "an element can carry an id attribute that is present but empty (a cleared template copy, id=\"\" in a parsed document). Kept 'as preset' it gives several nodes the id \"\": sequence flows refer to \"\", the layout skips the nodes, the attribute disappears in XML and the engine cannot wire the process"
	n := 0
	for _, f := range p.Funcs {
		if f.Body == nil || f.Pkg.PkgPath != pathSchema || f.File == nil || !strings.HasSuffix(p.Fset.Position(f.File.Pos()).Filename, "builder.go") {
			continue
		}
		in := info(f)
		inspectNoLit(f.Body, func(m ast.Node) bool {
			// an id is being generated: SetId(<... RandBytes ...>) or X.IdField = <... RandBytes ...>
			var gen ast.Node
			var val ast.Expr
			switch x := m.(type) {
			case *ast.CallExpr:
				if se, ok := unparen(x.Fun).(*ast.SelectorExpr); ok && se.Sel.Name == "SetId" && len(x.Args) == 1 {
					gen, val = x, x.Args[0]
				}
			case *ast.AssignStmt:
				if len(x.Lhs) == 1 && len(x.Rhs) == 1 {
					if fv := fieldOf(in, x.Lhs[0]); fv != nil && fv.Name() == "IdField" {
						gen, val = x, x.Rhs[0]
					}
				}
			}
			if gen == nil || !mentionsDeep(val, func(z ast.Node) bool {
				cl, ok := z.(*ast.CallExpr)
				if !ok {
					return false
				}
				fn := callee(in, cl)
				return fn != nil && fn.Name() == "RandBytes"
			}) {
				return true
			}
			all := polarConds(p, gen)
			// only decisions that look at the element's id: a condition that reads IdField / Id(), or a local
			// that holds what Id() returned (a fresh collaboration, participant, diagram always gets a generated id)
			readsId := func(e ast.Node) bool {
				return mentionsDeep(e, func(z ast.Node) bool {
					switch y := z.(type) {
					case *ast.SelectorExpr:
						return y.Sel.Name == "IdField" || y.Sel.Name == "Id"
					case *ast.Ident:
						if o := objOf(in, y); o != nil && isLocalVar(f.Root(), o) {
							defs, _ := localDefs(in, f.Root().Body, o)
							for _, d := range defs {
								if cl, ok := unparen(d).(*ast.CallExpr); ok {
									if se, ok := unparen(cl.Fun).(*ast.SelectorExpr); ok && se.Sel.Name == "Id" {
										return true
									}
								}
							}
						}
					}
					return false
				})
			}
			var conds []polarCond
			for _, pc := range all {
				if readsId(pc.cond) {
					conds = append(conds, pc)
				}
			}
			if len(conds) == 0 {
				return true
			}
			n++
			empty := false
			for _, pc := range conds {
				if mentionsDeep(pc.cond, func(z ast.Node) bool {
					be, ok := z.(*ast.BinaryExpr)
					if !ok || (be.Op != token.EQL && be.Op != token.NEQ) {
						return false
					}
					for _, side := range []ast.Expr{be.X, be.Y} {
						if tv, has := in.Types[side]; has && tv.Value != nil && tv.Value.String() == `""` {
							return true
						}
					}
					return false
				}) {
					empty = true
				}
			}
			var cs []string
			for _, pc := range conds {
				cs = append(cs, exprString(pc.cond))
			}
			c.Check(empty, f, gen, "decision to generate an id in "+f.QName(), what, fmt.Sprintf("controlled by %v; tests emptiness: %v", cs, empty))
			return true
		})
	}
	if n == 0 {
		c.Missing("id defaulting", "no conditional generation of an id was found in schema/builder.go")
	}
}

func ruleR190(c *Ctx) {
	p := c.P
	what := "\"a\" + \"_\" + \"b_c\" and \"a_b\" + \"_\" + \"c\" are the same string: a set keyed by such a join takes two different sequence flows for one, the second gets no edge and its target loses its predecessor in the layout"
	for _, f := range p.Funcs {
		if f.Body == nil || !isTargetPkg(p, f.Pkg.PkgPath) {
			continue
		}
		in := info(f)
		isJoin := func(e ast.Expr) bool {
			// string concatenation with at least two non-constant operands
			nonConst := 0
			var walk func(x ast.Expr)
			walk = func(x ast.Expr) {
				x = unparen(x)
				if be, ok := x.(*ast.BinaryExpr); ok && be.Op == token.ADD {
					walk(be.X)
					walk(be.Y)
					return
				}
				if tv, has := in.Types[x]; has && tv.Value == nil {
					if b, isB := tv.Type.Underlying().(*types.Basic); isB && b.Info()&types.IsString != 0 {
						nonConst++
					}
				}
			}
			if be, ok := unparen(e).(*ast.BinaryExpr); !ok || be.Op != token.ADD {
				return false
			}
			walk(e)
			return nonConst >= 2
		}
		inspectNoLit(f.Body, func(m ast.Node) bool {
			ix, ok := m.(*ast.IndexExpr)
			if !ok {
				return true
			}
			if _, isMap := in.TypeOf(ix.X).Underlying().(*types.Map); !isMap {
				return true
			}
			key := unparen(ix.Index)
			bad := isJoin(key)
			if id, isId := key.(*ast.Ident); isId && !bad {
				if o := objOf(in, id); o != nil && isLocalVar(f.Root(), o) {
					defs, _ := localDefs(in, f.Root().Body, o)
					for _, d := range defs {
						if isJoin(d) {
							bad = true
						}
					}
				}
			}
			if bad {
				c.Bad(f, ix, "map keyed by a joined string: "+exprString(ix), what, exprString(ix.Index)+" is (or can be) a concatenation of two or more variable parts")
			}
			return true
		})
	}
}

func ruleR191(c *Ctx) {
	p := c.P
	what := "names are per kind: a signal and a message may both be called \"msg\". A matcher that looks only at the referenced name lets a signal release a message catch event, which is then no longer listening when the real message arrives"
	n := 0
	isDefType := func(t types.Type) string {
		if pt, ok := t.(*types.Pointer); ok {
			t = pt.Elem()
		}
		if nt := namedOf(t); nt != nil && nt.Obj().Pkg() != nil && nt.Obj().Pkg().Path() == pathSchema && strings.HasSuffix(nt.Obj().Name(), "EventDefinition") {
			if _, isIface := nt.Underlying().(*types.Interface); !isIface {
				return nt.Obj().Name()
			}
		}
		return ""
	}
	for _, f := range p.Funcs {
		if f.Body == nil || f.Obj == nil || f.Pkg.PkgPath != pathEvent || f.Obj.Name() != "MatchesEventInstance" {
			continue
		}
		rn := recvNamed(f.Obj)
		if rn == nil {
			continue
		}
		own := strings.TrimSuffix(rn.Obj().Name(), "Event") + "EventDefinition"
		tested := map[string]bool{}
		var scan func(h *FuncInfo, depth int)
		scan = func(h *FuncInfo, depth int) {
			hin := info(h)
			ast.Inspect(h.Body, func(m ast.Node) bool {
				switch x := m.(type) {
				case *ast.TypeAssertExpr:
					if x.Type != nil {
						if nm := isDefType(hin.TypeOf(x.Type)); nm != "" {
							tested[nm] = true
						}
					}
				case *ast.CaseClause:
					for _, e := range x.List {
						if tv, ok := hin.Types[e]; ok && tv.IsType() {
							if nm := isDefType(tv.Type); nm != "" {
								tested[nm] = true
							}
						}
					}
				case *ast.CallExpr:
					if depth > 0 {
						if cf := p.byObj[callee(hin, x)]; cf != nil && cf.Pkg == f.Pkg && cf.Body != nil && cf != h {
							scan(cf, depth-1)
						}
					}
				}
				return true
			})
		}
		scan(f, 1)
		if len(tested) == 0 {
			continue // kinds without a definition of their own (none/terminate events) match by other means
		}
		n++
		ok := len(tested) == 1 && tested[own]
		c.Check(ok, f, f.Decl, rn.Obj().Name()+" matches "+own+" only", what, fmt.Sprintf("definition types tested on the way: %v", sortedKeys(tested)))
	}
	if n == 0 {
		c.Missing("event matchers", "no MatchesEventInstance that tests the definition's type was found")
	}
}

func ruleR192(c *Ctx) {
	p := c.P
	what := "the writer spells the default out (type=\"string\" for every untyped item); a reader that applies the default under a narrower condition makes model -> XML -> model change the item: an item that is resolved at run time is typed \"\" before and \"string\" after the round trip, and a handler gets 42 from one and \"\" from the other"
	n := 0
	type guard struct {
		f    *FuncInfo
		at   ast.Node
		cond string
	}
	byTypeField := map[string]map[string][]guard{} // type -> field -> guards (one per method kind)
	for _, f := range p.Funcs {
		if f.Body == nil || f.Obj == nil || f.Pkg.PkgPath != pathSchema || !(f.Obj.Name() == "UnmarshalXML" || f.Obj.Name() == "MarshalXML") {
			continue
		}
		rn := recvNamed(f.Obj)
		if rn == nil {
			continue
		}
		in := info(f)
		inspectNoLit(f.Body, func(m ast.Node) bool {
			as, ok := m.(*ast.AssignStmt)
			if !ok || len(as.Lhs) != 1 || len(as.Rhs) != 1 {
				return true
			}
			fv := fieldOf(in, as.Lhs[0])
			if fv == nil || !(isConstIdent(in, as.Rhs[0]) || func() bool { tv, ok := in.Types[as.Rhs[0]]; return ok && tv.Value != nil }()) {
				return true
			}
			var conds []polarCond
			for _, pc := range polarConds(p, as) {
				// only the tests of the defaulted field itself (an error guard before it is not part of the agreement)
				if mentionsDeep(pc.cond, func(z ast.Node) bool { se, ok := z.(*ast.SelectorExpr); return ok && fieldOf(in, se) == fv }) {
					conds = append(conds, pc)
				}
			}
			if len(conds) == 0 {
				return true
			}
			// normalise: replace the root identifier of every selector by "_"
			var parts []string
			for _, pc := range conds {
				s := exprString(pc.cond)
				ast.Inspect(pc.cond, func(z ast.Node) bool {
					if se, ok := z.(*ast.SelectorExpr); ok {
						if r := rootIdent(se); r != nil {
							s = strings.ReplaceAll(s, r.Name+".", "_.")
						}
					}
					return true
				})
				if !pc.positive {
					s = "!(" + s + ")"
				}
				parts = append(parts, s)
			}
			sort.Strings(parts)
			key := rn.Obj().Name()
			if byTypeField[key] == nil {
				byTypeField[key] = map[string][]guard{}
			}
			byTypeField[key][fv.Name()] = append(byTypeField[key][fv.Name()], guard{f, as, f.Obj.Name() + ": " + strings.Join(parts, " && ")})
			return true
		})
	}
	var tns []string
	for tn := range byTypeField {
		tns = append(tns, tn)
	}
	sort.Strings(tns)
	for _, tn := range tns {
		for fld, gs := range byTypeField[tn] {
			kinds := map[string]string{}
			for _, g := range gs {
				k, cnd, _ := strings.Cut(g.cond, ": ")
				kinds[k] = cnd
			}
			if len(kinds) < 2 {
				continue
			}
			n++
			same := kinds["UnmarshalXML"] == kinds["MarshalXML"]
			c.Check(same, gs[0].f, gs[0].at, "default of "+tn+"."+fld+" on read and on write", what, fmt.Sprintf("reader: %s; writer: %s", kinds["UnmarshalXML"], kinds["MarshalXML"]))
		}
	}
	if n == 0 {
		c.Missing("paired defaults", "no field that both UnmarshalXML and MarshalXML of a type default under a condition was found")
	}
}

func ruleR193(c *Ctx) {
	p := c.P
	what := "cancellation is not termination: after its context is cancelled the tracer keeps broadcasting until every registered sender is done. A subscriber that joins in that window and is acknowledged without being put on the list misses the traces every other subscriber still gets"
	n := 0
	for _, f := range p.Funcs {
		if f.Body == nil || f.Pkg.PkgPath != pathTracing {
			continue
		}
		in := info(f)
		g := p.Graph(f)
		inspectNoLit(f.Body, func(m ast.Node) bool {
			cc, ok := m.(*ast.CommClause)
			if !ok || cc.Comm == nil {
				return true
			}
			as, ok := cc.Comm.(*ast.AssignStmt)
			if !ok || len(as.Lhs) == 0 {
				return true
			}
			id, _ := as.Lhs[0].(*ast.Ident)
			if id == nil {
				return true
			}
			o := objOf(in, id)
			if o == nil {
				return true
			}
			st, ok := o.Type().Underlying().(*types.Struct)
			if !ok {
				return true
			}
			hasChan := false
			for i := 0; i < st.NumFields(); i++ {
				if et, isCh := chanElem(st.Field(i).Type()); isCh && isITrace(et) {
					hasChan = true
				}
			}
			if !hasChan {
				return true
			}
			// the subscribe clause: appends a field of the request to a list field
			var appends []Point
			for _, s := range cc.Body {
				inspectNoLit(s, func(z ast.Node) bool {
					if a2, ok := z.(*ast.AssignStmt); ok && len(a2.Rhs) == 1 {
						if cl, ok := unparen(a2.Rhs[0]).(*ast.CallExpr); ok && isBuiltin(in, cl, "append") && fieldOf(in, a2.Lhs[0]) != nil {
							if pt, ok := g.PointOf(a2); ok {
								appends = append(appends, pt)
							}
						}
					}
					return true
				})
			}
			if len(appends) == 0 {
				return true
			}
			for _, s := range cc.Body {
				inspectNoLit(s, func(z ast.Node) bool {
					snd, ok := z.(*ast.SendStmt)
					if !ok {
						return true
					}
					if r := rootIdent(snd.Chan); r == nil || objOf(in, r) != o {
						return true
					}
					pt, ok := g.PointOf(snd)
					if !ok {
						return true
					}
					n++
					dom := false
					for _, a := range appends {
						if g.Dominates(a, pt) {
							dom = true
						}
					}
					c.Check(dom, f, snd, "acknowledgement "+exprString(snd.Chan)+" of a subscription", what, ifElse(dom, "the append to the subscriber list dominates it", "a path acknowledges the subscription without the append"))
					return true
				})
			}
			return true
		})
	}
	if n == 0 {
		c.Missing("subscribe acknowledgement", "no acknowledged subscription clause was found in pkg/tracing")
	}
}

// ---- R194 (states F17's repaired shape) ----

func init() {
	register(&Rule{ID: "R194", Title: "a monitor counts its own start events only: where a completion monitor records a start event taken from a trace, the record is guarded by a test that the start event is one of the scope's own StartEvents()", Min: 4, Run: ruleR194})
}

func ruleR194(c *Ctx) {
	p := c.P
	what := "the traces of an embedded sub-process are forwarded into the tracer of the scope around it. Its inner start event is a *schema.StartEvent too: a monitor that counts every start event it sees takes it for one of the process's own and reports completion although a second start event of the process never fired"
	n := 0
	// functions of the package that look at the scope's own StartEvents()
	mentionsStartEvents := func(h *FuncInfo) bool {
		if h == nil || h.Body == nil {
			return false
		}
		return mentionsDeep(h.Body, func(z ast.Node) bool {
			se, ok := z.(*ast.SelectorExpr)
			return ok && se.Sel.Name == "StartEvents"
		})
	}
	for _, f := range p.Funcs {
		if f.Body == nil || f.Pkg.PkgPath != pathBpmn {
			continue
		}
		in := info(f)
		sends := false
		inspectNoLit(f.Body, func(m ast.Node) bool {
			if cl, ok := m.(*ast.CallExpr); ok && isTracerMethod(in, cl, "Send") {
				if t, ok := sentTraceType(in, cl); ok && t == "CeaseFlowTrace" {
					sends = true
				}
			}
			return true
		})
		if !sends {
			continue
		}
		inspectNoLit(f.Body, func(m ast.Node) bool {
			as, ok := m.(*ast.AssignStmt)
			if !ok || len(as.Rhs) != 1 || len(as.Lhs) != 1 {
				return true
			}
			cl, ok := unparen(as.Rhs[0]).(*ast.CallExpr)
			if !ok || !isBuiltin(in, cl, "append") || len(cl.Args) != 2 {
				return true
			}
			pt, isPtr := in.TypeOf(cl.Args[1]).(*types.Pointer)
			if !isPtr || !isNamed(pt.Elem(), pathSchema, "StartEvent") {
				return true
			}
			n++
			guarded := ""
			for _, pc := range polarConds(p, as) {
				if !pc.positive {
					continue
				}
				ast.Inspect(pc.cond, func(z ast.Node) bool {
					if c2, ok := z.(*ast.CallExpr); ok {
						if cf := p.byObj[callee(in, c2)]; cf != nil && mentionsStartEvents(cf) {
							for _, a := range c2.Args {
								if sameRef(in, a, cl.Args[1]) {
									guarded = cf.QName()
								}
							}
						}
					}
					return true
				})
			}
			c.Check(guarded != "", f, as, "record of a start event in "+f.Root().QName(), what, ifElse(guarded != "", "guarded by "+guarded+", which looks at the scope's StartEvents()", "every *schema.StartEvent seen on the tracer is recorded"))
			return true
		})
	}
	if n == 0 {
		c.Missing("start event records", "no completion monitor that records start events was found")
	}
}
