package main

// Round 8 (held-out wave 8), second part: R187–R193.

import (
	"fmt"
	"go/ast"
	"go/token"
	"go/types"
	"reflect"
	"sort"
	"strings"
)

func init() {
	register(&Rule{ID: "R187", Title: "what a process set was built from stays: the lists of schema elements a ProcessSet holds (its processes, its waiting processes, its message flows) are assigned in the constructor only", Min: 1, Run: ruleR187})
	register(&Rule{ID: "R189", Title: "an empty id is no id: wherever the builders generate an id for an element, the decision tests the id for emptiness, not only for presence", Min: 1, Run: ruleR189})
	register(&Rule{ID: "R190", Title: "no ambiguous composite keys: a string built by joining two or more ids with a separator is not used as a map key", Min: 0, Run: ruleR190})
	register(&Rule{ID: "R191", Title: "an event matches definitions of its own kind only: the type tests that a MatchesEventInstance method (and the helpers it calls) applies to the definition name its own definition type and no other", Min: 3, Run: ruleR191})
	register(&Rule{ID: "R192", Title: "reader and writer default under the same condition: the assignments of a default to the same field in UnmarshalXML and MarshalXML of a type are guarded by the same test", Min: 1, Run: ruleR192})
	register(&Rule{ID: "R193", Title: "a subscription is acknowledged only after it is on the list: in the broadcaster's subscribe clause every acknowledgement is dominated by the append to the subscriber list", Min: 1, Run: ruleR193})
}

func ruleR187(c *Ctx) {
	p := c.P
	what := "a message flow instantiates the waiting process it points at once per throw. A set that strikes a waiting process off its list after the first instantiation answers the second throw with nothing: one throw, zero instances"
	n := 0
	for _, f := range p.Funcs {
		if f.Body == nil || f.Pkg.PkgPath != pathBpmn {
			continue
		}
		in := info(f)
		ast.Inspect(f.Body, func(m ast.Node) bool {
			as, ok := m.(*ast.AssignStmt)
			if !ok {
				return true
			}
			for _, l := range as.Lhs {
				e := unparen(l)
				if ix, isIx := e.(*ast.IndexExpr); isIx {
					e = unparen(ix.X)
				}
				se, isSel := e.(*ast.SelectorExpr)
				if !isSel {
					continue
				}
				fv := fieldOf(in, se)
				if fv == nil {
					continue
				}
				owner := namedOf(in.TypeOf(se.X))
				if owner == nil || owner.Obj().Name() != "ProcessSet" {
					continue
				}
				// lists / tables of schema elements
				holdsSchema := false
				var walk func(t types.Type, d int)
				walk = func(t types.Type, d int) {
					if d > 3 || t == nil {
						return
					}
					switch x := t.(type) {
					case *types.Slice:
						walk(x.Elem(), d+1)
					case *types.Map:
						walk(x.Elem(), d+1)
					case *types.Pointer:
						walk(x.Elem(), d+1)
					case *types.Named:
						if x.Obj().Pkg() != nil && x.Obj().Pkg().Path() == pathSchema {
							holdsSchema = true
						}
					}
				}
				switch fv.Type().(type) {
				case *types.Slice, *types.Map:
					walk(fv.Type(), 0)
				}
				if !holdsSchema {
					continue
				}
				n++
				c.Bad(f, as, "write of ProcessSet."+fv.Name()+" after construction", what, "assigned in "+f.QName())
			}
			return true
		})
	}
	// the constructor initialises them in a composite literal; count those as the positive instances
	for _, f := range p.Funcs {
		if f.Body == nil || f.Pkg.PkgPath != pathBpmn {
			continue
		}
		in := info(f)
		ast.Inspect(f.Body, func(m ast.Node) bool {
			lit, ok := m.(*ast.CompositeLit)
			if ok && isNamed(in.TypeOf(lit), pathBpmn, "ProcessSet") {
				n++
				c.Ok(f, lit, "ProcessSet literal", what, "the schema lists are set where the set is constructed", true)
			}
			return true
		})
	}
	if n == 0 {
		c.Missing("ProcessSet construction", "no ProcessSet literal was found")
	}
}

func ruleR189(c *Ctx) {
	p := c.P
	what := "an element can carry an id attribute that is present but empty (a cleared template copy, id=\"\" in a parsed document). Kept 'as preset' it gives several nodes the id \"\": sequence flows refer to \"\", the layout skips the nodes, the attribute disappears in XML and the engine cannot wire the process"
	n := 0
	for _, f := range p.Funcs {
		if f.Body == nil || f.Pkg.PkgPath != pathSchema || f.File == nil || !strings.HasSuffix(p.Fset.Position(f.File.Pos()).Filename, "builder.go") {
			continue
		}
		in := info(f)
		inspectNoLit(f.Body, func(m ast.Node) bool {
			// an id is being generated: SetId(<... RandBytes ...>) or X.IdField = <... RandBytes ...>
			var gen ast.Node
			var val ast.Expr
			switch x := m.(type) {
			case *ast.CallExpr:
				if se, ok := unparen(x.Fun).(*ast.SelectorExpr); ok && se.Sel.Name == "SetId" && len(x.Args) == 1 {
					gen, val = x, x.Args[0]
				}
			case *ast.AssignStmt:
				if len(x.Lhs) == 1 && len(x.Rhs) == 1 {
					if fv := fieldOf(in, x.Lhs[0]); fv != nil && fv.Name() == "IdField" {
						gen, val = x, x.Rhs[0]
					}
				}
			}
			if gen == nil || !mentionsDeep(val, func(z ast.Node) bool {
				cl, ok := z.(*ast.CallExpr)
				if !ok {
					return false
				}
				fn := callee(in, cl)
				return fn != nil && fn.Name() == "RandBytes"
			}) {
				return true
			}
			all := polarConds(p, gen)
			// only decisions that look at the element's id: a condition that reads IdField / Id(), or a local
			// that holds what Id() returned (a fresh collaboration, participant, diagram always gets a generated id)
			readsId := func(e ast.Node) bool {
				return mentionsDeep(e, func(z ast.Node) bool {
					switch y := z.(type) {
					case *ast.SelectorExpr:
						return y.Sel.Name == "IdField" || y.Sel.Name == "Id"
					case *ast.Ident:
						if o := objOf(in, y); o != nil && isLocalVar(f.Root(), o) {
							defs, _ := localDefs(in, f.Root().Body, o)
							for _, d := range defs {
								if cl, ok := unparen(d).(*ast.CallExpr); ok {
									if se, ok := unparen(cl.Fun).(*ast.SelectorExpr); ok && se.Sel.Name == "Id" {
										return true
									}
								}
							}
						}
					}
					return false
				})
			}
			var conds []polarCond
			for _, pc := range all {
				if readsId(pc.cond) {
					conds = append(conds, pc)
				}
			}
			if len(conds) == 0 {
				return true
			}
			n++
			empty := false
			for _, pc := range conds {
				if mentionsDeep(pc.cond, func(z ast.Node) bool {
					be, ok := z.(*ast.BinaryExpr)
					if !ok || (be.Op != token.EQL && be.Op != token.NEQ) {
						return false
					}
					for _, side := range []ast.Expr{be.X, be.Y} {
						if tv, has := in.Types[side]; has && tv.Value != nil && tv.Value.String() == `""` {
							return true
						}
					}
					return false
				}) {
					empty = true
				}
			}
			var cs []string
			for _, pc := range conds {
				cs = append(cs, exprString(pc.cond))
			}
			c.Check(empty, f, gen, "decision to generate an id in "+f.QName(), what, fmt.Sprintf("controlled by %v; tests emptiness: %v", cs, empty))
			return true
		})
	}
	if n == 0 {
		c.Missing("id defaulting", "no conditional generation of an id was found in schema/builder.go")
	}
}

func ruleR190(c *Ctx) {
	p := c.P
	what := "\"a\" + \"_\" + \"b_c\" and \"a_b\" + \"_\" + \"c\" are the same string: a set keyed by such a join takes two different sequence flows for one, the second gets no edge and its target loses its predecessor in the layout"
	for _, f := range p.Funcs {
		if f.Body == nil || !isTargetPkg(p, f.Pkg.PkgPath) {
			continue
		}
		in := info(f)
		isJoin := func(e ast.Expr) bool {
			// string concatenation with at least two non-constant operands
			nonConst := 0
			var walk func(x ast.Expr)
			walk = func(x ast.Expr) {
				x = unparen(x)
				if be, ok := x.(*ast.BinaryExpr); ok && be.Op == token.ADD {
					walk(be.X)
					walk(be.Y)
					return
				}
				if tv, has := in.Types[x]; has && tv.Value == nil {
					if b, isB := tv.Type.Underlying().(*types.Basic); isB && b.Info()&types.IsString != 0 {
						nonConst++
					}
				}
			}
			if be, ok := unparen(e).(*ast.BinaryExpr); !ok || be.Op != token.ADD {
				return false
			}
			walk(e)
			return nonConst >= 2
		}
		inspectNoLit(f.Body, func(m ast.Node) bool {
			ix, ok := m.(*ast.IndexExpr)
			if !ok {
				return true
			}
			if _, isMap := in.TypeOf(ix.X).Underlying().(*types.Map); !isMap {
				return true
			}
			key := unparen(ix.Index)
			bad := isJoin(key)
			if id, isId := key.(*ast.Ident); isId && !bad {
				if o := objOf(in, id); o != nil && isLocalVar(f.Root(), o) {
					defs, _ := localDefs(in, f.Root().Body, o)
					for _, d := range defs {
						if isJoin(d) {
							bad = true
						}
					}
				}
			}
			if bad {
				c.Bad(f, ix, "map keyed by a joined string: "+exprString(ix), what, exprString(ix.Index)+" is (or can be) a concatenation of two or more variable parts")
			}
			return true
		})
	}
}

func ruleR191(c *Ctx) {
	p := c.P
	what := "names are per kind: a signal and a message may both be called \"msg\". A matcher that looks only at the referenced name lets a signal release a message catch event, which is then no longer listening when the real message arrives"
	n := 0
	isDefType := func(t types.Type) string {
		if pt, ok := t.(*types.Pointer); ok {
			t = pt.Elem()
		}
		if nt := namedOf(t); nt != nil && nt.Obj().Pkg() != nil && nt.Obj().Pkg().Path() == pathSchema && strings.HasSuffix(nt.Obj().Name(), "EventDefinition") {
			if _, isIface := nt.Underlying().(*types.Interface); !isIface {
				return nt.Obj().Name()
			}
		}
		return ""
	}
	for _, f := range p.Funcs {
		if f.Body == nil || f.Obj == nil || f.Pkg.PkgPath != pathEvent || f.Obj.Name() != "MatchesEventInstance" {
			continue
		}
		rn := recvNamed(f.Obj)
		if rn == nil {
			continue
		}
		own := strings.TrimSuffix(rn.Obj().Name(), "Event") + "EventDefinition"
		tested := map[string]bool{}
		var scan func(h *FuncInfo, depth int)
		scan = func(h *FuncInfo, depth int) {
			hin := info(h)
			ast.Inspect(h.Body, func(m ast.Node) bool {
				switch x := m.(type) {
				case *ast.TypeAssertExpr:
					if x.Type != nil {
						if nm := isDefType(hin.TypeOf(x.Type)); nm != "" {
							tested[nm] = true
						}
					}
				case *ast.CaseClause:
					for _, e := range x.List {
						if tv, ok := hin.Types[e]; ok && tv.IsType() {
							if nm := isDefType(tv.Type); nm != "" {
								tested[nm] = true
							}
						}
					}
				case *ast.CallExpr:
					if depth > 0 {
						if cf := p.byObj[callee(hin, x)]; cf != nil && cf.Pkg == f.Pkg && cf.Body != nil && cf != h {
							scan(cf, depth-1)
						}
					}
				}
				return true
			})
		}
		scan(f, 1)
		if len(tested) == 0 {
			continue // kinds without a definition of their own (none/terminate events) match by other means
		}
		n++
		ok := len(tested) == 1 && tested[own]
		c.Check(ok, f, f.Decl, rn.Obj().Name()+" matches "+own+" only", what, fmt.Sprintf("definition types tested on the way: %v", sortedKeys(tested)))
	}
	if n == 0 {
		c.Missing("event matchers", "no MatchesEventInstance that tests the definition's type was found")
	}
}

func ruleR192(c *Ctx) {
	p := c.P
	what := "the writer spells the default out (type=\"string\" for every untyped item); a reader that applies the default under a narrower condition makes model -> XML -> model change the item: an item that is resolved at run time is typed \"\" before and \"string\" after the round trip, and a handler gets 42 from one and \"\" from the other"
	n := 0
	type guard struct {
		f    *FuncInfo
		at   ast.Node
		cond string
	}
	byTypeField := map[string]map[string][]guard{} // type -> field -> guards (one per method kind)
	for _, f := range p.Funcs {
		if f.Body == nil || f.Obj == nil || f.Pkg.PkgPath != pathSchema || !(f.Obj.Name() == "UnmarshalXML" || f.Obj.Name() == "MarshalXML") {
			continue
		}
		rn := recvNamed(f.Obj)
		if rn == nil {
			continue
		}
		in := info(f)
		inspectNoLit(f.Body, func(m ast.Node) bool {
			as, ok := m.(*ast.AssignStmt)
			if !ok || len(as.Lhs) != 1 || len(as.Rhs) != 1 {
				return true
			}
			fv := fieldOf(in, as.Lhs[0])
			if fv == nil || !(isConstIdent(in, as.Rhs[0]) || func() bool { tv, ok := in.Types[as.Rhs[0]]; return ok && tv.Value != nil }()) {
				return true
			}
			var conds []polarCond
			for _, pc := range polarConds(p, as) {
				// only the tests of the defaulted field itself (an error guard before it is not part of the agreement)
				if mentionsDeep(pc.cond, func(z ast.Node) bool { se, ok := z.(*ast.SelectorExpr); return ok && fieldOf(in, se) == fv }) {
					conds = append(conds, pc)
				}
			}
			if len(conds) == 0 {
				return true
			}
			// normalise: replace the root identifier of every selector by "_"
			var parts []string
			for _, pc := range conds {
				s := exprString(pc.cond)
				ast.Inspect(pc.cond, func(z ast.Node) bool {
					if se, ok := z.(*ast.SelectorExpr); ok {
						if r := rootIdent(se); r != nil {
							s = strings.ReplaceAll(s, r.Name+".", "_.")
						}
					}
					return true
				})
				if !pc.positive {
					s = "!(" + s + ")"
				}
				parts = append(parts, s)
			}
			sort.Strings(parts)
			key := rn.Obj().Name()
			if byTypeField[key] == nil {
				byTypeField[key] = map[string][]guard{}
			}
			byTypeField[key][fv.Name()] = append(byTypeField[key][fv.Name()], guard{f, as, f.Obj.Name() + ": " + strings.Join(parts, " && ")})
			return true
		})
	}
	var tns []string
	for tn := range byTypeField {
		tns = append(tns, tn)
	}
	sort.Strings(tns)
	for _, tn := range tns {
		for fld, gs := range byTypeField[tn] {
			kinds := map[string]string{}
			for _, g := range gs {
				k, cnd, _ := strings.Cut(g.cond, ": ")
				kinds[k] = cnd
			}
			if len(kinds) < 2 {
				continue
			}
			n++
			same := kinds["UnmarshalXML"] == kinds["MarshalXML"]
			c.Check(same, gs[0].f, gs[0].at, "default of "+tn+"."+fld+" on read and on write", what, fmt.Sprintf("reader: %s; writer: %s", kinds["UnmarshalXML"], kinds["MarshalXML"]))
		}
	}
	if n == 0 {
		c.Missing("paired defaults", "no field that both UnmarshalXML and MarshalXML of a type default under a condition was found")
	}
}

func ruleR193(c *Ctx) {
	p := c.P
	what := "cancellation is not termination: after its context is cancelled the tracer keeps broadcasting until every registered sender is done. A subscriber that joins in that window and is acknowledged without being put on the list misses the traces every other subscriber still gets"
	n := 0
	for _, f := range p.Funcs {
		if f.Body == nil || f.Pkg.PkgPath != pathTracing {
			continue
		}
		in := info(f)
		g := p.Graph(f)
		inspectNoLit(f.Body, func(m ast.Node) bool {
			cc, ok := m.(*ast.CommClause)
			if !ok || cc.Comm == nil {
				return true
			}
			as, ok := cc.Comm.(*ast.AssignStmt)
			if !ok || len(as.Lhs) == 0 {
				return true
			}
			id, _ := as.Lhs[0].(*ast.Ident)
			if id == nil {
				return true
			}
			o := objOf(in, id)
			if o == nil {
				return true
			}
			st, ok := o.Type().Underlying().(*types.Struct)
			if !ok {
				return true
			}
			hasChan := false
			for i := 0; i < st.NumFields(); i++ {
				if et, isCh := chanElem(st.Field(i).Type()); isCh && isITrace(et) {
					hasChan = true
				}
			}
			if !hasChan {
				return true
			}
			// the subscribe clause: appends a field of the request to a list field
			var appends []Point
			for _, s := range cc.Body {
				inspectNoLit(s, func(z ast.Node) bool {
					if a2, ok := z.(*ast.AssignStmt); ok && len(a2.Rhs) == 1 {
						if cl, ok := unparen(a2.Rhs[0]).(*ast.CallExpr); ok && isBuiltin(in, cl, "append") && fieldOf(in, a2.Lhs[0]) != nil {
							if pt, ok := g.PointOf(a2); ok {
								appends = append(appends, pt)
							}
						}
					}
					return true
				})
			}
			if len(appends) == 0 {
				return true
			}
			for _, s := range cc.Body {
				inspectNoLit(s, func(z ast.Node) bool {
					snd, ok := z.(*ast.SendStmt)
					if !ok {
						return true
					}
					if r := rootIdent(snd.Chan); r == nil || objOf(in, r) != o {
						return true
					}
					pt, ok := g.PointOf(snd)
					if !ok {
						return true
					}
					n++
					dom := false
					for _, a := range appends {
						if g.Dominates(a, pt) {
							dom = true
						}
					}
					c.Check(dom, f, snd, "acknowledgement "+exprString(snd.Chan)+" of a subscription", what, ifElse(dom, "the append to the subscriber list dominates it", "a path acknowledges the subscription without the append"))
					return true
				})
			}
			return true
		})
	}
	if n == 0 {
		c.Missing("subscribe acknowledgement", "no acknowledged subscription clause was found in pkg/tracing")
	}
}

// ---- R194 (states F17's repaired shape) ----

func init() {
	register(&Rule{ID: "R194", Title: "a monitor counts its own start events only: where a completion monitor records a start event taken from a trace, the record is guarded by a test that the start event is one of the scope's own StartEvents()", Min: 4, Run: ruleR194})
}

func ruleR194(c *Ctx) {
	p := c.P
	what := "the traces of an embedded sub-process are forwarded into the tracer of the scope around it. Its inner start event is a *schema.StartEvent too: a monitor that counts every start event it sees takes it for one of the process's own and reports completion although a second start event of the process never fired"
	n := 0
	// functions of the package that look at the scope's own StartEvents()
	mentionsStartEvents := func(h *FuncInfo) bool {
		if h == nil || h.Body == nil {
			return false
		}
		return mentionsDeep(h.Body, func(z ast.Node) bool {
			se, ok := z.(*ast.SelectorExpr)
			return ok && se.Sel.Name == "StartEvents"
		})
	}
	for _, f := range p.Funcs {
		if f.Body == nil || f.Pkg.PkgPath != pathBpmn {
			continue
		}
		in := info(f)
		sends := false
		inspectNoLit(f.Body, func(m ast.Node) bool {
			if cl, ok := m.(*ast.CallExpr); ok && isTracerMethod(in, cl, "Send") {
				if t, ok := sentTraceType(in, cl); ok && t == "CeaseFlowTrace" {
					sends = true
				}
			}
			return true
		})
		if !sends {
			continue
		}
		inspectNoLit(f.Body, func(m ast.Node) bool {
			as, ok := m.(*ast.AssignStmt)
			if !ok || len(as.Rhs) != 1 || len(as.Lhs) != 1 {
				return true
			}
			cl, ok := unparen(as.Rhs[0]).(*ast.CallExpr)
			if !ok || !isBuiltin(in, cl, "append") || len(cl.Args) != 2 {
				return true
			}
			pt, isPtr := in.TypeOf(cl.Args[1]).(*types.Pointer)
			if !isPtr || !isNamed(pt.Elem(), pathSchema, "StartEvent") {
				return true
			}
			n++
			guarded := ""
			for _, pc := range polarConds(p, as) {
				if !pc.positive {
					continue
				}
				ast.Inspect(pc.cond, func(z ast.Node) bool {
					if c2, ok := z.(*ast.CallExpr); ok {
						if cf := p.byObj[callee(in, c2)]; cf != nil && mentionsStartEvents(cf) {
							for _, a := range c2.Args {
								if sameRef(in, a, cl.Args[1]) {
									guarded = cf.QName()
								}
							}
						}
					}
					return true
				})
			}
			c.Check(guarded != "", f, as, "record of a start event in "+f.Root().QName(), what, ifElse(guarded != "", "guarded by "+guarded+", which looks at the scope's StartEvents()", "every *schema.StartEvent seen on the tracer is recorded"))
			return true
		})
	}
	if n == 0 {
		c.Missing("start event records", "no completion monitor that records start events was found")
	}
}

// ---- R195–R200 (round 9) ----

func init() {
	register(&Rule{ID: "R195", Title: "a triggered start event starts its token: in the handler of the start message the call that starts the node's flow is on every path", Min: 2, Run: ruleR195})
	register(&Rule{ID: "R196", Title: "a task's answer travels with the action: what the per-request goroutine of a task sends on the reply channel is a flowAction that carries the response", Min: 1, Run: ruleR196})
	register(&Rule{ID: "R197", Title: "a relay outlives its context: the clause of the relay loop that observes the context's cancellation does not leave the loop (the source tracer keeps serving until its senders are done)", Min: 1, Run: ruleR197})
	register(&Rule{ID: "R198", Title: "every ended token is struck off: in the flow tracker's handling of a TerminationTrace the delete from the table of live flows is on every path", Min: 1, Run: ruleR198})
	register(&Rule{ID: "R199", Title: "an evaluation error is not a true condition: in the token's probe, the index of a flow is reported only on a path on which the evaluation returned no error", Min: 1, Run: ruleR199})
	register(&Rule{ID: "R200", Title: "a probe report belongs to one token: no node keeps a probe report in a single field (tokens probe concurrently; a second report would overwrite the first)", Min: 0, Run: ruleR200})
}

func ruleR195(c *Ctx) {
	p := c.P
	what := "the completion monitor learns that a start event fired from the trace of the token it starts (a FlowTrace, or a TerminationTrace when the start event leads nowhere). A start event that is triggered and starts no token is never counted: the instance completes its work and never reports completion"
	n := 0
	isStartMsg := func(t types.Type) bool { return isNamed(t, pathBpmn, "startMessage") }
	for _, f := range p.Funcs {
		if f.Body == nil || f.Pkg.PkgPath != pathBpmn {
			continue
		}
		in := info(f)
		g := p.Graph(f)
		for _, d := range typeDispatches(p, f, isIMessage) {
			for _, a := range d {
				if len(a.Types) != 1 || !isStartMsg(a.Types[0]) || len(a.Body) == 0 {
					continue
				}
				n++
				starts := func(nd ast.Node) bool {
					for _, cl := range callsIn(nd) {
						if cf := p.byObj[callee(in, cl)]; cf != nil && cf.Pkg == f.Pkg && reachesCallee(p, cf, func(fn *types.Func) bool { return fn.Name() == "newFlow" }, 1, map[*FuncInfo]bool{}) {
							return true
						}
						if fn := callee(in, cl); fn != nil && fn.Name() == "newFlow" {
							return true
						}
					}
					return false
				}
				entry, ok := g.EntryOfStmts(a.Body)
				if !ok {
					continue
				}
				bad := g.RegionPaths(entry, regionOfStmts(a.Body), starts)
				if len(bad) > 0 && starts(entry.Node()) {
					bad = nil
				}
				wit := "every path starts the node's flow"
				if len(bad) > 0 {
					wit = "a path leaves the handler without starting a flow: " + witnessLines(g, bad[:1])
				}
				c.Check(len(bad) == 0, f, a.Node, "handling of the start message in "+f.QName(), what, wit)
			}
		}
	}
	if n == 0 {
		c.Missing("start message handlers", "no handler of startMessage was found")
	}
}

func ruleR196(c *Ctx) {
	p := c.P
	what := "the answer to a task (error and handler, results, data outputs) reaches the token inside the flowAction the task replies with; the token stores the results, emits the ErrorTrace and applies the error mode. A reply of another kind ('the task has no outgoing flow, the token ends here anyway') drops all of that: nothing is stored, no error is traced, retry never re-requests"
	n := 0
	for _, f := range p.Funcs {
		if f.Body == nil || f.Pkg.PkgPath != pathBpmn {
			continue
		}
		r := f.Root()
		if r.Obj == nil || recvNamed(r.Obj) == nil || recvNamed(r.Obj).Obj().Name() != "genericTask" {
			continue
		}
		in := info(f)
		inspectNoLit(f.Body, func(m ast.Node) bool {
			s, ok := m.(*ast.SendStmt)
			if !ok || !isReplyChan(in.TypeOf(s.Chan)) {
				return true
			}
			n++
			carries := false
			if lit, isLit := unparen(s.Value).(*ast.CompositeLit); isLit && isNamed(in.TypeOf(lit), pathBpmn, "flowAction") {
				for _, el := range lit.Elts {
					if kv, ok := el.(*ast.KeyValueExpr); ok {
						if id, ok := kv.Key.(*ast.Ident); ok && id.Name == "response" && !isNilIdent(kv.Value) {
							carries = true
						}
					}
				}
			}
			if id, isId := unparen(s.Value).(*ast.Ident); isId && !carries {
				if o := objOf(in, id); o != nil {
					defs, _ := localDefs(in, f.Body, o)
					for _, d := range defs {
						if lit, isLit := unparen(d).(*ast.CompositeLit); isLit && isNamed(in.TypeOf(lit), pathBpmn, "flowAction") {
							for _, el := range lit.Elts {
								if kv, ok := el.(*ast.KeyValueExpr); ok {
									if kid, ok := kv.Key.(*ast.Ident); ok && kid.Name == "response" {
										carries = true
									}
								}
							}
						}
					}
				}
			}
			c.Check(carries, f, s, "reply of a task request", what, ifElse(carries, "a flowAction with the response", "sends "+typeString(in.TypeOf(s.Value))+" without the response"))
			return true
		})
	}
	if n == 0 {
		c.Missing("task replies", "no reply send in the per-request goroutine of genericTask was found")
	}
}

func ruleR197(c *Ctx) {
	p := c.P
	what := "an instance can be built with one context and started with another: its tokens live on after the instance's own context ended, the inner tracer keeps serving them until its senders are done — and the relay has to carry their traces (the CeaseFlowTrace among them) to the instance's tracer until then"
	n := 0
	for _, f := range p.Funcs {
		if f.Body == nil || f.Pkg.PkgPath != pathTracing || f.Root().Obj == nil {
			continue
		}
		if f.Root().Obj.Name() != "NewRelay" {
			// a relay loop that was given a name: launched with go from NewRelay
			launched := false
			for _, h := range p.Funcs {
				if h.Body == nil || h.Root().Obj == nil || h.Root().Obj.Name() != "NewRelay" {
					continue
				}
				hin := info(h)
				inspectNoLit(h.Body, func(m ast.Node) bool {
					if gs, ok := m.(*ast.GoStmt); ok && callee(hin, gs.Call) == f.Root().Obj {
						launched = true
					}
					return true
				})
			}
			if !launched {
				continue
			}
		}
		in := info(f)
		inspectNoLit(f.Body, func(m ast.Node) bool {
			cc, ok := m.(*ast.CommClause)
			if !ok || cc.Comm == nil {
				return true
			}
			var rx ast.Expr
			if es, ok := cc.Comm.(*ast.ExprStmt); ok {
				if u, ok := es.X.(*ast.UnaryExpr); ok && u.Op == token.ARROW {
					rx = u.X
				}
			}
			if rx == nil {
				return true
			}
			// a context's Done channel, directly or held in a local
			isDone := isCtxDoneCall(in, rx)
			if id, isId := unparen(rx).(*ast.Ident); isId && !isDone {
				if o := objOf(in, id); o != nil {
					defs, _ := localDefs(in, f.Root().Body, o)
					for _, d := range defs {
						if isCtxDoneCall(in, d) {
							isDone = true
						}
					}
				}
			}
			if !isDone {
				return true
			}
			n++
			leaves := false
			for _, st := range cc.Body {
				inspectNoLit(st, func(z ast.Node) bool {
					switch x := z.(type) {
					case *ast.ReturnStmt:
						leaves = true
					case *ast.BranchStmt:
						if x.Tok == token.BREAK && x.Label != nil || x.Tok == token.GOTO {
							leaves = true
						}
					}
					return true
				})
			}
			c.Check(!leaves, f, cc, "cancellation clause of the relay loop", what, ifElse(leaves, "the clause leaves the loop", "the loop goes on until the source tracer is done"))
			return true
		})
	}
	if n == 0 {
		c.Missing("relay loop", "no clause of NewRelay's loop that observes the context was found")
	}
}

func ruleR198(c *Ctx) {
	p := c.P
	what := "the join waits for the live tokens of its fork. A token the join completes itself ends with a TerminationTrace like any other; if the tracker keeps it 'because the node knows about it', it is still in the cohort the next time the same fork/join pair is activated (a loop) and the join waits for a dead token for ever"
	n := 0
	for _, f := range p.Funcs {
		if f.Body == nil || f.Pkg.PkgPath != pathBpmn {
			continue
		}
		r := f.Root()
		if r.Obj == nil || recvNamed(r.Obj) == nil || recvNamed(r.Obj).Obj().Name() != "flowTracker" {
			continue
		}
		in := info(f)
		g := p.Graph(f)
		for _, d := range typeDispatches(p, f, isITrace) {
			for _, a := range d {
				if len(a.Types) != 1 || !isNamed(a.Types[0], pathBpmn, "TerminationTrace") || len(a.Body) == 0 {
					continue
				}
				n++
				deletes := func(nd ast.Node) bool {
					for _, cl := range callsIn(nd) {
						if isBuiltin(in, cl, "delete") {
							return true
						}
					}
					return false
				}
				entry, ok := g.EntryOfStmts(a.Body)
				if !ok {
					continue
				}
				bad := g.RegionPaths(entry, regionOfStmts(a.Body), deletes)
				if len(bad) > 0 && deletes(entry.Node()) {
					bad = nil
				}
				wit := "the flow is deleted from the live table on every path"
				if len(bad) > 0 {
					wit = "a path keeps the ended flow: " + witnessLines(g, bad[:1])
				}
				c.Check(len(bad) == 0, f, a.Node, "TerminationTrace in the flow tracker", what, wit)
			}
		}
	}
	if n == 0 {
		c.Missing("tracker termination arm", "no TerminationTrace arm in the flow tracker was found")
	}
}

func ruleR199(c *Ctx) {
	p := c.P
	what := "a condition that cannot be evaluated for the current data (a variable that was never set, a non-boolean result, a compile error) is reported with an ErrorTrace and counts as not true; reported as a true index it sends the token down that flow ahead of a later flow that really is true and ahead of the default"
	n := 0
	for _, f := range p.Funcs {
		if f.Body == nil || f.Pkg.PkgPath != pathBpmn {
			continue
		}
		in := info(f)
		for _, d := range typeDispatches(p, f, isIAction) {
			for _, a := range d {
				if len(a.Types) != 1 || !isNamed(a.Types[0], pathBpmn, "probeAction") {
					continue
				}
				r199body(c, p, f, a.Body, &n, what)
				// the probe may have been moved into a helper
				for _, st := range a.Body {
					for _, cl := range callsIn(st) {
						if cf := p.byObj[callee(in, cl)]; cf != nil && cf.Pkg == f.Pkg && cf.Body != nil {
							r199body(c, p, cf, cf.Body.List, &n, what)
						}
					}
				}
			}
		}
	}
	if n == 0 {
		c.Missing("probe loop", "no probeAction arm that evaluates conditions and collects indices was found")
	}
}

func r199body(c *Ctx, p *Prog, f *FuncInfo, body []ast.Stmt, np *int, what string) {
	in := info(f)
	n := 0
	{
		{
			{
				a := struct{ Body []ast.Stmt }{body}
				// error variables that come from the evaluation
				errs := map[types.Object]bool{}
				for _, st := range a.Body {
					inspectNoLit(st, func(m ast.Node) bool {
						if as, ok := m.(*ast.AssignStmt); ok && len(as.Rhs) == 1 && len(as.Lhs) == 2 {
							if cl, ok := unparen(as.Rhs[0]).(*ast.CallExpr); ok {
								if cf := p.byObj[callee(in, cl)]; cf != nil && reachesCallee(p, cf, isConditionEvaluator, 2, map[*FuncInfo]bool{}) {
									if id, ok := as.Lhs[1].(*ast.Ident); ok {
										errs[objOf(in, id)] = true
									}
								}
							}
						}
						return true
					})
				}
				if len(errs) == 0 {
					return
				}
				for _, st := range a.Body {
					inspectNoLit(st, func(m ast.Node) bool {
						as, ok := m.(*ast.AssignStmt)
						if !ok || len(as.Rhs) != 1 {
							return true
						}
						cl, ok := unparen(as.Rhs[0]).(*ast.CallExpr)
						if !ok || !isBuiltin(in, cl, "append") {
							return true
						}
						n++
						clean := false
						for _, pc := range polarConds(p, as) {
							be, ok := unparen(pc.cond).(*ast.BinaryExpr)
							if !ok {
								continue
							}
							var side ast.Expr
							if tv, has := in.Types[be.Y]; has && tv.IsNil() {
								side = be.X
							} else if tv, has := in.Types[be.X]; has && tv.IsNil() {
								side = be.Y
							}
							if id, isId := unparen(exprOrNil(side)).(*ast.Ident); isId && errs[objOf(in, id)] {
								if (be.Op == token.EQL && pc.positive) || (be.Op == token.NEQ && !pc.positive) {
									clean = true
								}
							}
						}
						c.Check(clean, f, as, "index of a probed flow is reported", what, ifElse(clean, "only where the evaluation's error is nil", "also on paths where the evaluation returned an error"))
						return true
					})
				}
			}
		}
	}
	*np += n
}

func ruleR200(c *Ctx) {
	p := c.P
	what := "several tokens can be probing an exclusive gateway at the same time, and each sends its report and its next request back to back. One field for 'the report that is ahead of its request' is overwritten when a second token's report lands between the two sends of the first: the first token is never answered — no flow, no default, no error"
	isReport := func(t types.Type) bool {
		if pt, ok := t.(*types.Pointer); ok {
			t = pt.Elem()
		}
		return isNamed(t, pathBpmn, "gatewayProbingReport")
	}
	for _, pk := range p.Target {
		if pk.PkgPath != pathBpmn {
			continue
		}
		scope := pk.Types.Scope()
		names := scope.Names()
		sort.Strings(names)
		for _, nm := range names {
			tn, ok := scope.Lookup(nm).(*types.TypeName)
			if !ok {
				continue
			}
			st, ok := tn.Type().Underlying().(*types.Struct)
			if !ok || nm == "gatewayProbingReport" {
				continue
			}
			for i := 0; i < st.NumFields(); i++ {
				if isReport(st.Field(i).Type()) {
					c.Bad(nil, posNode(st.Field(i).Pos()), "field "+nm+"."+st.Field(i).Name()+" holds one probe report", what, "type "+typeString(st.Field(i).Type()))
				}
			}
		}
	}
}

// ---- R201–R203 (round 9) ----

func init() {
	register(&Rule{ID: "R201", Title: "what a trace carries is not reused: a slice put into a trace that is sent is made for that trace, never a re-slice of a field of the sender (a later step would rewrite a trace subscribers still hold)", Min: 1, Run: ruleR201})
	register(&Rule{ID: "R202", Title: "references are compared exactly: the engine never matches an id or a reference with HasSuffix / HasPrefix / Contains / EqualFold", Min: 0, Run: ruleR202})
	register(&Rule{ID: "R203", Title: "an answered output is stored whatever its value: in the functions that turn a task's answer into items, the store is controlled by the presence of the declared name in the answer only", Min: 2, Run: ruleR203})
}

func ruleR201(c *Ctx) {
	p := c.P
	what := "subscribers read a trace after the tracer has handed it over — a buffered or lagging one much later. A FlowTrace whose list of flows lives in a buffer the token reuses at its next fork then lists the next fork's flows and ids: two subscribers see different traces, and the flow started at the first fork is announced by no trace at all"
	n := 0
	for _, f := range p.Funcs {
		if f.Body == nil || f.Pkg.PkgPath != pathBpmn {
			continue
		}
		in := info(f)
		inspectNoLit(f.Body, func(m ast.Node) bool {
			cl, ok := m.(*ast.CallExpr)
			if !ok || !isTracerMethod(in, cl, "Send") || len(cl.Args) != 1 {
				return true
			}
			lit, ok := unparen(cl.Args[0]).(*ast.CompositeLit)
			if !ok {
				return true
			}
			for _, el := range lit.Elts {
				kv, ok := el.(*ast.KeyValueExpr)
				if !ok {
					continue
				}
				if _, isSl := in.TypeOf(kv.Value).Underlying().(*types.Slice); !isSl {
					continue
				}
				n++
				reused := ""
				check := func(e ast.Expr) {
					e = unparen(e)
					if se, ok := e.(*ast.SliceExpr); ok {
						if fv := fieldOf(in, se.X); fv != nil {
							reused = "a re-slice of the field " + fv.Name()
						}
					}
					if fv := fieldOf(in, e); fv != nil {
						if r := rootIdent(e); r != nil {
							if rv, ok := objOf(in, r).(*types.Var); ok && isParamOrRecv(f.Root(), rv) && !isParam(f.Root(), rv) {
								reused = "the field " + fv.Name() + " of the sender"
							}
						}
					}
				}
				check(kv.Value)
				if id, isId := unparen(kv.Value).(*ast.Ident); isId {
					if o := objOf(in, id); o != nil && isLocalVar(f.Root(), o) {
						defs, _ := localDefs(in, f.Root().Body, o)
						for _, d := range defs {
							check(d)
						}
					}
				}
				c.Check(reused == "", f, kv, "slice "+exprString(kv.Value)+" carried by a "+typeString(in.TypeOf(lit)), what, ifElse(reused == "", "made for this trace", "it is "+reused))
			}
			return true
		})
	}
	if n == 0 {
		c.Missing("slices in traces", "no trace literal with a slice-valued field was found at a Send")
	}
}

func ruleR202(c *Ctx) {
	p := c.P
	what := "ids are opaque: `check` is a suffix of `recheck`, `task` of `subtask`. A boundary event that is attached by suffix also attaches to every activity whose id ends the referenced id — it reacts while a different activity waits, and its exception flow can continue twice"
	isIdLike := func(in *types.Info, e ast.Expr) bool {
		t := in.TypeOf(e)
		if t == nil {
			return false
		}
		if nt := namedOf(t); nt != nil && nt.Obj().Pkg() != nil && nt.Obj().Pkg().Path() == pathSchema {
			switch nt.Obj().Name() {
			case "Id", "IdRef", "QName":
				return true
			}
		}
		s := strings.ToLower(exprString(e))
		return strings.Contains(s, "ref") || strings.HasSuffix(s, "id") || strings.Contains(s, "id)")
	}
	for _, f := range p.Funcs {
		if f.Body == nil || f.Pkg.PkgPath != pathBpmn {
			continue
		}
		in := info(f)
		inspectNoLit(f.Body, func(m ast.Node) bool {
			cl, ok := m.(*ast.CallExpr)
			if !ok || len(cl.Args) != 2 {
				return true
			}
			fn := callee(in, cl)
			if fn == nil || fn.Pkg() == nil || fn.Pkg().Path() != "strings" {
				return true
			}
			switch fn.Name() {
			case "HasSuffix", "HasPrefix", "Contains", "EqualFold":
			default:
				return true
			}
			if isIdLike(in, cl.Args[0]) || isIdLike(in, cl.Args[1]) {
				c.Bad(f, cl, "inexact comparison of a reference: "+exprString(cl), what, "strings."+fn.Name()+" on an id or reference")
			}
			return true
		})
	}
}

func ruleR203(c *Ctx) {
	p := c.P
	what := "a declared data output that the answer sets to nil (or to a nil pointer) clears the output: later inputs, conditions and snapshots see it empty. Skipped 'because there is nothing to encode', the value an earlier task stored stays visible as if this answer had never been given"
	n := 0
	for _, f := range p.Funcs {
		if f.Body == nil || f.Obj == nil || f.Pkg.PkgPath != pathBpmn || !strings.HasPrefix(f.Obj.Name(), "ApplyTask") {
			continue
		}
		in := info(f)
		// comma-ok results of map lookups
		okVars := map[types.Object]bool{}
		inspectNoLit(f.Body, func(m ast.Node) bool {
			if as, ok := m.(*ast.AssignStmt); ok && len(as.Lhs) == 2 && len(as.Rhs) == 1 {
				if ix, ok := unparen(as.Rhs[0]).(*ast.IndexExpr); ok {
					if _, isMap := in.TypeOf(ix.X).Underlying().(*types.Map); isMap {
						if id, ok := as.Lhs[1].(*ast.Ident); ok {
							okVars[objOf(in, id)] = true
						}
					}
				}
			}
			return true
		})
		inspectNoLit(f.Body, func(m ast.Node) bool {
			as, ok := m.(*ast.AssignStmt)
			if !ok || len(as.Lhs) != 1 {
				return true
			}
			ix, ok := unparen(as.Lhs[0]).(*ast.IndexExpr)
			if !ok {
				return true
			}
			if _, isMap := in.TypeOf(ix.X).Underlying().(*types.Map); !isMap {
				return true
			}
			n++
			var extra []string
			for _, pc := range polarConds(p, as) {
				e := unparen(pc.cond)
				if u, isNot := e.(*ast.UnaryExpr); isNot && u.Op == token.NOT {
					e = unparen(u.X)
				}
				if id, isId := e.(*ast.Ident); isId {
					if okVars[objOf(in, id)] {
						continue
					}
					if o := objOf(in, id); o != nil && o.Type() == types.Typ[types.Bool] {
						continue // `found` of ExtensionElements()
					}
				}
				if be, isBin := e.(*ast.BinaryExpr); isBin {
					// nil tests of the declaration (`field != nil`)
					if tv, has := in.Types[be.Y]; has && tv.IsNil() {
						continue
					}
				}
				extra = append(extra, exprString(pc.cond))
			}
			c.Check(len(extra) == 0, f, as, "store of an answered output in "+f.QName(), what, ifElse(len(extra) == 0, "controlled by the presence of the declared name only", fmt.Sprintf("also controlled by %v", extra)))
			return true
		})
	}
	if n == 0 {
		c.Missing("answer to items", "no ApplyTask* function that stores into a map was found")
	}
}

// ---- R204, R205 (round 9) ----

func init() {
	register(&Rule{ID: "R204", Title: "every flow a join hands out is marked unconditional: in a distributor, a flowAction that carries more than one sequence flow does not mark a fixed number of them", Min: 1, Run: ruleR204})
	register(&Rule{ID: "R205", Title: "a token asks its node again only after its request was answered or withdrawn: every jump back to the select that posts the request sits in the clause that received the answer or in the termination clause", Min: 2, Run: ruleR205})
}

func ruleR204(c *Ctx) {
	p := c.P
	what := "the flows a parallel or inclusive gateway releases were decided by the gateway; the token must take them as they are. A flow that is not marked unconditional has its condition evaluated again by the token: a parallel fork whose second flow still carries a condition from the days it was an XOR loses that branch, and the join behind it never fires"
	dist := distributorFuncs(p)
	n := 0
	for _, f := range p.Funcs {
		if f.Body == nil || f.Obj == nil || !dist[f.Obj] {
			continue
		}
		in := info(f)
		inspectNoLit(f.Body, func(m ast.Node) bool {
			lit, ok := m.(*ast.CompositeLit)
			if !ok || !isNamed(in.TypeOf(lit), pathBpmn, "flowAction") {
				return true
			}
			var flows, marks ast.Expr
			for _, el := range lit.Elts {
				if kv, ok := el.(*ast.KeyValueExpr); ok {
					if id, ok := kv.Key.(*ast.Ident); ok {
						switch id.Name {
						case "sequenceFlows":
							flows = kv.Value
						case "unconditionalFlows":
							marks = kv.Value
						}
					}
				}
			}
			if flows == nil {
				return true
			}
			n++
			// how many flows? a one-element window s[i:i+1] / s[i:rangeEnd] is fine with anything; an open or wider
			// window needs marks that grow with it (a slice of an index table), not a literal
			oneFlow := false
			if se, ok := unparen(flows).(*ast.SliceExpr); ok && se.High != nil && se.Low != nil {
				if be, ok := unparen(se.High).(*ast.BinaryExpr); ok && be.Op == token.ADD && sameRef(in, be.X, se.Low) {
					if tv, has := in.Types[be.Y]; has && tv.Value != nil && tv.Value.String() == "1" {
						oneFlow = true
					}
				}
			}
			ok2, wit := true, "the marks are a window of an index table (or there is exactly one flow)"
			if marks == nil {
				ok2, wit = false, "no flow is marked unconditional"
			} else if ml, isLit := unparen(marks).(*ast.CompositeLit); isLit && !oneFlow {
				ok2, wit = false, fmt.Sprintf("%s carries a window of flows, but %d index(es) are marked by a literal", exprString(flows), len(ml.Elts))
			}
			c.Check(ok2, f, lit, "flows handed to a token by "+f.QName(), what, wit)
			return true
		})
	}
	if n == 0 {
		c.Missing("distributor actions", "no flowAction literal in a distributor was found")
	}
}

func ruleR205(c *Ctx) {
	p := c.P
	what := "the select header `<-f.current.NextAction(ctx, f)` posts a request every time it is evaluated. Jumping back to it from a clause that neither received the answer nor withdrew the token (a watchdog timer, say) posts a second request for the same token: a join counts it as another arrival, fires early, hands a flow to a reply channel nobody reads, and the real late token is parked for ever"
	n := 0
	for _, f := range p.Funcs {
		if f.Body == nil || f.Pkg.PkgPath != pathBpmn {
			continue
		}
		in := info(f)
		inspectNoLit(f.Body, func(m ast.Node) bool {
			// the select that posts the request: labelled (re-entered with goto) or the body of a for loop
			// (re-entered with continue)
			var sel *ast.SelectStmt
			label := ""
			var loop *ast.ForStmt
			switch x := m.(type) {
			case *ast.LabeledStmt:
				sel, _ = x.Stmt.(*ast.SelectStmt)
				label = x.Label.Name
			case *ast.SelectStmt:
				if _, isLabeled := p.Parent(x).(*ast.LabeledStmt); !isLabeled {
					sel = x
				}
			}
			if sel == nil {
				return true
			}
			for cur := p.Parent(sel); cur != nil; cur = p.Parent(cur) {
				if fs, ok := cur.(*ast.ForStmt); ok {
					loop = fs
					break
				}
				if _, ok := cur.(*ast.FuncLit); ok {
					break
				}
			}
			// the clause kinds of this select
			kind := map[*ast.CommClause]string{}
			posts := false
			for _, st := range sel.Body.List {
				cc := st.(*ast.CommClause)
				var rx ast.Expr
				switch cm := cc.Comm.(type) {
				case *ast.ExprStmt:
					if u, ok := cm.X.(*ast.UnaryExpr); ok && u.Op == token.ARROW {
						rx = u.X
					}
				case *ast.AssignStmt:
					if len(cm.Rhs) == 1 {
						if u, ok := unparen(cm.Rhs[0]).(*ast.UnaryExpr); ok && u.Op == token.ARROW {
							rx = u.X
						}
					}
				}
				if rx == nil {
					kind[cc] = "other"
					continue
				}
				if cl, ok := unparen(rx).(*ast.CallExpr); ok {
					if fn := callee(in, cl); fn != nil && fn.Name() == "NextAction" {
						kind[cc] = "answer"
						posts = true
						continue
					}
				}
				if isCtxDoneCall(in, rx) {
					kind[cc] = "done"
					continue
				}
				if et, ok := chanElem(in.TypeOf(rx)); ok && et == types.Typ[types.Bool] {
					kind[cc] = "termination"
					continue
				}
				kind[cc] = "other (" + exprString(rx) + ")"
			}
			if !posts {
				return true
			}
			inspectNoLit(sel, func(z ast.Node) bool {
				bs, ok := z.(*ast.BranchStmt)
				if !ok {
					return true
				}
				isGoto := bs.Tok == token.GOTO && bs.Label != nil && label != "" && bs.Label.Name == label
				isContinue := bs.Tok == token.CONTINUE && bs.Label == nil && loop != nil && innermostLoop(p, bs) == ast.Node(loop)
				if !isGoto && !isContinue {
					return true
				}
				n++
				k := "outside the select's clauses"
				for cur := p.Parent(bs); cur != nil && cur != ast.Node(sel); cur = p.Parent(cur) {
					if cc, ok := cur.(*ast.CommClause); ok {
						if kk, has := kind[cc]; has {
							k = kk
						}
					}
				}
				c.Check(k == "answer" || k == "termination", f, bs, "jump back to the wait (the request is posted again)", what, "in the "+k+" clause")
				return true
			})
			return true
		})
	}
	if n == 0 {
		c.Missing("re-requests", "no jump back to a select that posts a NextAction request was found")
	}
}

// ---- R206 (reports F18) ----

func init() {
	register(&Rule{ID: "R206", Title: "cohort membership follows ancestry: the cohort tag the flow tracker records for a flow that is new to it depends on what it has on record for the token that forked it, not only on the node that emitted the trace", Min: 1, Run: ruleR206})
}

func ruleR206(c *Ctx) {
	p := c.P
	what := "an inclusive join waits for the live tokens that descend from its fork. A token that is forked further down a branch (by a parallel gateway, by a task with two outgoing flows) descends from the fork as well; recorded under the node that forked it, it is in nobody's cohort: the token that leaves the inner block arrives at the join alone in its cohort, the join fires while other branches of the fork are still running, and fires again when they arrive"
	n := 0
	for _, f := range p.Funcs {
		if f.Body == nil || f.Pkg.PkgPath != pathBpmn {
			continue
		}
		r := f.Root()
		if r.Obj == nil || recvNamed(r.Obj) == nil || recvNamed(r.Obj).Obj().Name() != "flowTracker" {
			continue
		}
		in := info(f)
		for _, d := range typeDispatches(p, f, isITrace) {
			for _, a := range d {
				if len(a.Types) != 1 || !isNamed(a.Types[0], pathBpmn, "FlowTrace") {
					continue
				}
				// stores into a map field of the tracker (in the arm, or in a method of the tracker the arm calls)
				var stores []*ast.AssignStmt
				var table *types.Var
				bodies := append([]ast.Stmt{}, a.Body...)
				armF := f // the finding is keyed by the function that dispatches over the trace, wherever the store sits
				for _, st := range a.Body {
					for _, cl := range callsIn(st) {
						if cf := p.byObj[callee(in, cl)]; cf != nil && cf.Pkg == f.Pkg && cf.Body != nil && cf.Obj != nil && recvNamed(cf.Obj) != nil && recvNamed(cf.Obj) == recvNamed(r.Obj) {
							bodies = append(bodies, cf.Body.List...)
							f, in = cf, info(cf)
						}
					}
				}
				for _, st := range bodies {
					inspectNoLit(st, func(m ast.Node) bool {
						as, ok := m.(*ast.AssignStmt)
						if !ok || len(as.Lhs) != 1 || len(as.Rhs) != 1 {
							return true
						}
						ix, ok := unparen(as.Lhs[0]).(*ast.IndexExpr)
						if !ok {
							return true
						}
						if fv := fieldOf(in, ix.X); fv != nil {
							if _, isMap := fv.Type().Underlying().(*types.Map); isMap {
								stores = append(stores, as)
								table = fv
							}
						}
						return true
					})
				}
				if len(stores) == 0 {
					continue
				}
				n++
				// does any stored value depend on a read of the table (directly or through a local)?
				dependsOnTable := func(e ast.Expr) bool {
					seen := map[types.Object]bool{}
					var dep func(x ast.Expr) bool
					dep = func(x ast.Expr) bool {
						return mentionsDeep(x, func(z ast.Node) bool {
							switch y := z.(type) {
							case *ast.IndexExpr:
								return fieldOf(in, y.X) == table
							case *ast.Ident:
								if o := objOf(in, y); o != nil && isLocalVar(f.Root(), o) && !seen[o] {
									seen[o] = true
									defs, _ := localDefs(in, f.Root().Body, o)
									for _, dd := range defs {
										// `v, ok := table[k]` — only the value matters
										if dep(dd) {
											return true
										}
									}
								}
							}
							return false
						})
					}
					return dep(e)
				}
				inherits := false
				for _, as := range stores {
					if dependsOnTable(as.Rhs[0]) {
						inherits = true
					}
				}
				c.Check(inherits, armF, stores[0], "cohort tag recorded for a flow in "+armF.QName(), what, ifElse(inherits, "some recorded tag derives from the tracker's own records", fmt.Sprintf("%d store(s) into %s, every one records the id of the node that emitted the trace", len(stores), table.Name())))
			}
		}
	}
	if n == 0 {
		c.Missing("cohort records", "no FlowTrace arm of the flow tracker that stores into its table was found")
	}
}

// ---- R207–R209 (round 9, second half) ----

func init() {
	register(&Rule{ID: "R207", Title: "timers know one clock: pkg/timer never reads the wall clock or a context's deadline (time.Now / Until / Since, Context.Deadline) — a due time is a time of the injected clock", Min: 0, Run: ruleR207})
	register(&Rule{ID: "R208", Title: "a read of a variable is a private decode: GetVariable indexes only the table of stored items (no table of already decoded values that several readers would share)", Min: 1, Run: ruleR208})
	register(&Rule{ID: "R209", Title: "a shape is drawn where the layout put its node: the bounds given to a shape are the node's x, y, width and height as laid out (also through single-assignment locals)", Min: 1, Run: ruleR209})
}

func ruleR207(c *Ctx) {
	p := c.P
	what := "a context deadline is wall-clock time; the due time of a timer is a time of the clock it was given. With a simulated clock that runs ahead (or behind) the two cannot be compared: 'the context expires before the due time' is false, the wake-up is never registered and the timer never fires although its clock reaches the due time"
	for _, f := range p.Funcs {
		if f.Body == nil || f.Pkg.PkgPath != pathTimer {
			continue
		}
		in := info(f)
		inspectNoLit(f.Body, func(m ast.Node) bool {
			cl, ok := m.(*ast.CallExpr)
			if !ok {
				return true
			}
			fn := callee(in, cl)
			if fn == nil || fn.Pkg() == nil {
				return true
			}
			bad := ""
			if fn.Pkg().Path() == "time" && (fn.Name() == "Now" || fn.Name() == "Until" || fn.Name() == "Since") {
				bad = "time." + fn.Name()
			}
			if fn.Pkg().Path() == "context" && fn.Name() == "Deadline" {
				bad = "Context.Deadline"
			}
			if bad != "" {
				c.Bad(f, cl, bad+" in "+f.QName(), what, "wall-clock time read in the timer package")
			}
			return true
		})
	}
}

func ruleR208(c *Ctx) {
	p := c.P
	what := "variables are stored as encoded items and decoded per read, so every reader gets a map or slice of its own. A table of decoded values hands the same map to every reader — and to the engine's own `$ref` resolution: what one reader changes, every later read of the variable shows"
	n := 0
	for _, f := range p.Funcs {
		if f.Body == nil || f.Obj == nil || f.Pkg.PkgPath != pathData || f.Obj.Name() != "GetVariable" || f.Parent != nil {
			continue
		}
		in := info(f)
		n++
		var other []string
		ast.Inspect(f.Body, func(m ast.Node) bool {
			ix, ok := m.(*ast.IndexExpr)
			if !ok {
				return true
			}
			fv := fieldOf(in, ix.X)
			if fv == nil {
				return true
			}
			mp, isMap := fv.Type().Underlying().(*types.Map)
			if !isMap {
				return true
			}
			if nt := namedOf(mp.Elem()); nt != nil && nt.Obj().Name() == "IItem" {
				return true
			}
			other = append(other, fv.Name()+" ("+typeString(fv.Type())+")")
			return true
		})
		c.Check(len(other) == 0, f, f.Decl, f.QName()+" decodes per read", what, ifElse(len(other) == 0, "only the table of stored items is indexed", "also indexes "+strings.Join(other, ", ")))
	}
	if n == 0 {
		c.Missing("GetVariable", "no GetVariable method was found in pkg/data")
	}
}

func ruleR209(c *Ctx) {
	p := c.P
	what := "the edges of a diagram are routed on the bounds the layout computed for the nodes. A shape that is drawn with other bounds than its node was laid out with (a sub-process drawn collapsed in an expanded slot) has its edges start and end beside it"
	n := 0
	for _, f := range p.Funcs {
		if f.Body == nil || f.Pkg.PkgPath != pathSchema || f.File == nil || !strings.HasSuffix(p.Fset.Position(f.File.Pos()).Filename, "builder.go") {
			continue
		}
		in := info(f)
		inspectNoLit(f.Body, func(m ast.Node) bool {
			cl, ok := m.(*ast.CallExpr)
			if !ok {
				return true
			}
			se, ok := unparen(cl.Fun).(*ast.SelectorExpr)
			if !ok || se.Sel.Name != "SetBounds" || len(cl.Args) != 1 {
				return true
			}
			nb, ok := unparen(cl.Args[0]).(*ast.CallExpr)
			if !ok || len(nb.Args) != 4 {
				return true
			}
			n++
			want := []string{"x", "y", "width", "height"}
			var wrong []string
			var base types.Object
			for i, a := range nb.Args {
				e := unparen(a)
				if id, isId := e.(*ast.Ident); isId {
					if o := objOf(in, id); o != nil && isLocalVar(f.Root(), o) {
						defs, _ := localDefs(in, f.Root().Body, o)
						if len(defs) == 1 {
							e = unparen(defs[0])
						} else {
							wrong = append(wrong, fmt.Sprintf("%s (assigned %d times)", id.Name, len(defs)))
							continue
						}
					}
				}
				fv := fieldOf(in, e)
				if fv == nil || fv.Name() != want[i] {
					wrong = append(wrong, exprString(a))
					continue
				}
				if r := rootIdent(e); r != nil {
					if base == nil {
						base = objOf(in, r)
					} else if objOf(in, r) != base {
						wrong = append(wrong, exprString(a)+" (another node)")
					}
				}
			}
			c.Check(len(wrong) == 0, f, cl, "bounds of a shape in "+f.QName(), what, ifElse(len(wrong) == 0, "x, y, width, height of the laid-out node", fmt.Sprintf("not the node's laid-out value: %v", wrong)))
			return true
		})
	}
	if n == 0 {
		c.Missing("shape bounds", "no SetBounds(newBounds(...)) was found in schema/builder.go")
	}
}

// ---- R210–R212 (round 9, second half) ----

func init() {
	register(&Rule{ID: "R210", Title: "geometry is written as computed: the constructors of points and bounds in the builder hand their coordinate parameters to the setters verbatim", Min: 6, Run: ruleR210})
	register(&Rule{ID: "R211", Title: "a fallback id carries its generator's own prefix: what (*fallbackGenerator).New returns is a concatenation in which a string field of the generator is an operand", Min: 1, Run: ruleR211})
	register(&Rule{ID: "R212", Title: "one lock, one generator: every SnoGenerator is built on a sno generator made for it in the same call, never on one kept in a field and shared by several handles (each handle has a mutex of its own)", Min: 1, Run: ruleR212})
}

func ruleR210(c *Ctx) {
	p := c.P
	what := "way points are computed from the exact borders of the shapes; rounded 'to whole pixels' while the bounds stay exact, an edge on a fractional grid ends up to half a pixel beside the shape it is meant to touch"
	n := 0
	for _, f := range p.Funcs {
		if f.Body == nil || f.Obj == nil || f.Pkg.PkgPath != pathSchema || f.File == nil || !strings.HasSuffix(p.Fset.Position(f.File.Pos()).Filename, "builder.go") {
			continue
		}
		sig := f.Obj.Type().(*types.Signature)
		params := map[types.Object]bool{}
		for i := 0; i < sig.Params().Len(); i++ {
			if b, ok := sig.Params().At(i).Type().Underlying().(*types.Basic); ok && b.Info()&types.IsFloat != 0 {
				params[sig.Params().At(i)] = true
			}
		}
		if len(params) == 0 {
			continue
		}
		in := info(f)
		inspectNoLit(f.Body, func(m ast.Node) bool {
			cl, ok := m.(*ast.CallExpr)
			if !ok || len(cl.Args) != 1 {
				return true
			}
			se, ok := unparen(cl.Fun).(*ast.SelectorExpr)
			if !ok {
				return true
			}
			switch se.Sel.Name {
			case "SetX", "SetY", "SetWidth", "SetHeight":
			default:
				return true
			}
			// only where a parameter is involved at all
			uses := mentionsDeep(cl.Args[0], func(z ast.Node) bool { id, ok := z.(*ast.Ident); return ok && params[objOf(in, id)] })
			if !uses {
				return true
			}
			n++
			id, isId := unparen(cl.Args[0]).(*ast.Ident)
			verbatim := isId && params[objOf(in, id)]
			c.Check(verbatim, f, cl, se.Sel.Name+" in "+f.QName(), what, ifElse(verbatim, "the parameter itself", "derived: "+exprString(cl.Args[0])))
			return true
		})
	}
	if n == 0 {
		c.Missing("geometry constructors", "no setter call with a coordinate parameter was found in schema/builder.go")
	}
}

func ruleR211(c *Ctx) {
	p := c.P
	what := "fallback generators are told apart by their prefix, the ids of one generator by its counter: two fields side by side cannot collide. Packed into one number (generator number times a block size plus the counter), the counter runs into the next generator's block after 65536 draws and the two generators issue the same ids"
	n := 0
	for _, f := range p.Funcs {
		if f.Body == nil || f.Obj == nil || f.Pkg.PkgPath != pathID || f.Obj.Name() != "New" {
			continue
		}
		rn := recvNamed(f.Obj)
		if rn == nil || !strings.Contains(strings.ToLower(rn.Obj().Name()), "fallback") {
			continue
		}
		in := info(f)
		n++
		found := false
		inspectNoLit(f.Body, func(m ast.Node) bool {
			rs, ok := m.(*ast.ReturnStmt)
			if !ok {
				return true
			}
			for _, r := range rs.Results {
				// a string concatenation with a string field of the receiver as an operand
				var walk func(e ast.Expr)
				walk = func(e ast.Expr) {
					e = unparen(e)
					if be, ok := e.(*ast.BinaryExpr); ok && be.Op == token.ADD {
						walk(be.X)
						walk(be.Y)
						return
					}
					if fv := fieldOf(in, e); fv != nil {
						if b, ok := fv.Type().Underlying().(*types.Basic); ok && b.Info()&types.IsString != 0 {
							found = true
						}
					}
				}
				ast.Inspect(r, func(z ast.Node) bool {
					if be, ok := z.(*ast.BinaryExpr); ok && be.Op == token.ADD {
						if t := in.TypeOf(be); t != nil {
							if b, ok := t.Underlying().(*types.Basic); ok && b.Info()&types.IsString != 0 {
								walk(be)
							}
						}
					}
					return true
				})
			}
			return true
		})
		c.Check(found, f, f.Decl, f.QName()+" joins prefix and counter", what, ifElse(found, "a string field of the generator is an operand of the returned concatenation", "no string field of the generator appears in the returned id"))
	}
	if n == 0 {
		c.Missing("fallback generator", "no New method of a fallback generator was found in pkg/id")
	}
}

func ruleR212(c *Ctx) {
	p := c.P
	what := "sno hands out duplicates when two goroutines draw at the same moment, so every SnoGenerator serialises its draws with its own mutex. That only works while a sno generator has exactly one handle: several handles over one shared generator each lock their own mutex and draw concurrently — and a generator restored from a snapshot shares the partition of all of them"
	n := 0
	for _, f := range p.Funcs {
		if f.Body == nil || f.Pkg.PkgPath != pathID {
			continue
		}
		in := info(f)
		inspectNoLit(f.Body, func(m ast.Node) bool {
			lit, ok := m.(*ast.CompositeLit)
			if !ok || !isNamed(in.TypeOf(lit), pathID, "SnoGenerator") {
				return true
			}
			for _, el := range lit.Elts {
				kv, ok := el.(*ast.KeyValueExpr)
				if !ok {
					continue
				}
				t := in.TypeOf(kv.Value)
				pt, isPtr := t.(*types.Pointer)
				if !isPtr {
					continue
				}
				nt := namedOf(pt.Elem())
				if nt == nil || nt.Obj().Name() != "Generator" || nt.Obj().Pkg() == nil || !strings.HasSuffix(nt.Obj().Pkg().Path(), "sno") {
					continue
				}
				n++
				fresh, how := false, exprString(kv.Value)
				if id, isId := unparen(kv.Value).(*ast.Ident); isId {
					if o := objOf(in, id); o != nil && isLocalVar(f.Root(), o) {
						defs, _ := localDefs(in, f.Root().Body, o)
						fresh = len(defs) > 0
						for _, d := range defs {
							cl, isCall := unparen(d).(*ast.CallExpr)
							if !isCall {
								fresh = false
								continue
							}
							fn := callee(in, cl)
							ok := fn != nil && fn.Pkg() != nil && strings.HasSuffix(fn.Pkg().Path(), "sno") && fn.Name() == "NewGenerator"
							if !ok {
								if cf := p.byObj[fn]; cf != nil && cf.Pkg == f.Pkg && cf.Body != nil {
									// a helper of the package that makes the generator itself
									cin := info(cf)
									inspectNoLit(cf.Body, func(z ast.Node) bool {
										if c2, isC := z.(*ast.CallExpr); isC {
											if f2 := callee(cin, c2); f2 != nil && f2.Pkg() != nil && strings.HasSuffix(f2.Pkg().Path(), "sno") && f2.Name() == "NewGenerator" {
												ok = true
											}
										}
										return true
									})
								}
							}
							if !ok {
								fresh = false
							}
						}
						how = id.Name + " (a local)"
					}
				}
				c.Check(fresh, f, lit, "sno generator under a SnoGenerator in "+f.QName(), what, ifElse(fresh, how+" is made by sno.NewGenerator in this call", how+" is not a generator made for this handle"))
			}
			return true
		})
	}
	if n == 0 {
		c.Missing("SnoGenerator construction", "no SnoGenerator literal was found in pkg/id")
	}
}

// ---- R213–R216 (round 9, second half) ----

func init() {
	register(&Rule{ID: "R213", Title: "nothing is sent after the handle is given back: in a function that defers the release of its sender handle no trace send is deferred before it (deferred calls run in reverse order)", Min: 10, Run: ruleR213})
	register(&Rule{ID: "R214", Title: "node loops live as long as the instance: the context handed to the calls that start node loops (Trigger, startAll, startWith) is a context parameter, never a context the engine derives and cancels itself", Min: 4, Run: ruleR214})
	register(&Rule{ID: "R215", Title: "a woken catch event is handed every event it waits for: the loops of the process set that deliver one event per event definition run to their end", Min: 2, Run: ruleR215})
	register(&Rule{ID: "R216", Title: "an event is credited to one chain: in a satisfier's fitting loop every path from the Set of the bit leaves the loop before the next chain is looked at", Min: 2, Run: ruleR216})
}

func ruleR213(c *Ctx) {
	p := c.P
	what := "the tracer terminates once every registered sender has called Done; a Send after that finds nobody receiving and blocks for ever. `defer tracer.Send(...)` written above `defer sender.Done()` runs after it: in a few per cent of the cancellations the node's goroutine is left parked in that send"
	n := 0
	for _, f := range p.Funcs {
		if f.Body == nil || !isTargetPkg(p, f.Pkg.PkgPath) {
			continue
		}
		in := info(f)
		var done *ast.DeferStmt
		var sends []*ast.DeferStmt
		inspectNoLit(f.Body, func(m ast.Node) bool {
			d, ok := m.(*ast.DeferStmt)
			if !ok {
				return true
			}
			if isSenderDone(in, d.Call) {
				if done == nil {
					done = d
				}
				return true
			}
			if isTracerMethod(in, d.Call, "Send") {
				sends = append(sends, d)
			}
			return true
		})
		if done == nil {
			continue
		}
		n++
		var early *ast.DeferStmt
		for _, s := range sends {
			if s.Pos() < done.Pos() {
				early = s
			}
		}
		wit := "no trace send is deferred before it"
		if early != nil {
			wit = "a Send deferred earlier (it runs later) at " + c.pos(early)
		}
		c.Check(early == nil, f, done, "deferred release of the sender handle in "+f.QName(), what, wit)
	}
	if n == 0 {
		c.Missing("deferred releases", "no function that defers the release of a sender handle was found")
	}
}

func ruleR214(c *Ctx) {
	p := c.P
	what := "a node's loop is started once, by whoever reaches the node first, and serves every later token and every event handed to the instance. Started under a context that the engine cancels when 'this activation is over', the loops exit while the nodes stay registered as event consumers: the next events pile up in mailboxes nobody drains and the publisher blocks"
	n := 0
	for _, f := range p.Funcs {
		if f.Body == nil || f.Pkg.PkgPath != pathBpmn {
			continue
		}
		in := info(f)
		inspectNoLit(f.Body, func(m ast.Node) bool {
			cl, ok := m.(*ast.CallExpr)
			if !ok || len(cl.Args) == 0 {
				return true
			}
			fn := callee(in, cl)
			if fn == nil || fn.Pkg() == nil || fn.Pkg().Path() != pathBpmn {
				return true
			}
			switch fn.Name() {
			case "Trigger", "startAll", "startWith", "StartAll", "StartWith":
			default:
				return true
			}
			if !isNamed(in.TypeOf(cl.Args[0]), "context", "Context") {
				return true
			}
			n++
			good, wit := false, exprString(cl.Args[0])+" is not a context parameter"
			if id, isId := unparen(cl.Args[0]).(*ast.Ident); isId {
				if v, isVar := objOf(in, id).(*types.Var); isVar {
					for cur := f; cur != nil; cur = cur.Parent {
						if isParam(cur, v) {
							good, wit = true, id.Name+" is a parameter of "+cur.QName()
						}
					}
					if !good {
						defs, _ := localDefs(in, f.Root().Body, v)
						for _, d := range defs {
							if dc, ok := unparen(d).(*ast.CallExpr); ok {
								if dfn := callee(in, dc); dfn != nil && dfn.Pkg() != nil && dfn.Pkg().Path() == "context" {
									wit = id.Name + " is derived with context." + dfn.Name()
								}
							}
						}
					}
				}
			}
			c.Check(good, f, cl, "context of "+exprString(cl.Fun), what, wit)
			return true
		})
	}
	if n == 0 {
		c.Missing("loop starters", "no call of Trigger / startAll / startWith with a context was found")
	}
}

func ruleR215(c *Ctx) {
	p := c.P
	what := "a message flow into a parallel-multiple catch event stands for all the events that catch event waits for; handed only the first, the catch event never fires, its process never ends and the set never completes"
	n := 0
	for _, f := range p.Funcs {
		if f.Body == nil || f.Pkg.PkgPath != pathBpmn {
			continue
		}
		r := f.Root()
		if r.Obj == nil || recvNamed(r.Obj) == nil || recvNamed(r.Obj).Obj().Name() != "ProcessSet" {
			continue
		}
		in := info(f)
		inspectNoLit(f.Body, func(m ast.Node) bool {
			rs, ok := m.(*ast.RangeStmt)
			if !ok {
				return true
			}
			fv := fieldOf(in, rs.X)
			if fv == nil || !strings.Contains(fv.Name(), "EventDefinition") {
				return true
			}
			delivers := false
			var leaves ast.Node
			inspectNoLit(rs.Body, func(z ast.Node) bool {
				switch x := z.(type) {
				case *ast.CallExpr:
					if fn := callee(in, x); fn != nil && fn.Name() == "ConsumeEvent" {
						delivers = true
					}
				case *ast.ReturnStmt:
					leaves = x
				case *ast.BranchStmt:
					if x.Tok == token.BREAK || x.Tok == token.GOTO {
						leaves = x
					}
				}
				return true
			})
			if !delivers {
				return true
			}
			n++
			wit := "runs over every definition"
			if leaves != nil {
				wit = "left early at " + c.pos(leaves)
			}
			c.Check(leaves == nil, f, rs, "delivery loop over "+fv.Name(), what, wit)
			return true
		})
	}
	if n == 0 {
		c.Missing("delivery loops", "no loop of the process set that delivers one event per definition was found")
	}
}

func ruleR216(c *Ctx) {
	p := c.P
	what := "one occurrence of a definition fills one open set. A scan that goes on after it has set the bit in a chain sets it in every later chain that lacks it as well: with three definitions and two open sets, A,A,B,C,C fires twice although B was matched once"
	n := 0
	for _, f := range p.Funcs {
		if f.Body == nil || f.Obj == nil || f.Pkg.PkgPath != pathLogic || f.Obj.Name() != "Satisfy" {
			continue
		}
		in := info(f)
		g := p.Graph(f)
		inspectNoLit(f.Body, func(m ast.Node) bool {
			var body *ast.BlockStmt
			switch x := m.(type) {
			case *ast.RangeStmt:
				body = x.Body
			case *ast.ForStmt:
				body = x.Body
			}
			if body == nil {
				return true
			}
			// the Set call on an element of a chain list inside this loop (not in a nested loop)
			var set *ast.CallExpr
			inspectNoLit(body, func(z ast.Node) bool {
				if cl, ok := z.(*ast.CallExpr); ok {
					if se, ok := unparen(cl.Fun).(*ast.SelectorExpr); ok && se.Sel.Name == "Set" {
						if ix, ok := unparen(se.X).(*ast.IndexExpr); ok && fieldOf(in, ix.X) != nil {
							if innermostLoop(p, cl) == m {
								set = cl
							}
						}
					}
				}
				return true
			})
			if set == nil {
				return true
			}
			pt, ok := g.PointOf(set)
			if !ok {
				return true
			}
			n++
			bad := g.RegionPaths(pt, regionOf(body), func(z ast.Node) bool {
				switch x := z.(type) {
				case *ast.ReturnStmt:
					return true
				case *ast.BranchStmt:
					return x.Tok == token.BREAK || x.Tok == token.GOTO
				}
				return false
			})
			wit := "every path from the Set leaves the loop"
			if len(bad) > 0 {
				wit = "a path goes on to the next chain: " + witnessLines(g, bad[:1])
			}
			c.Check(len(bad) == 0, f, set, "fitting loop of "+f.QName(), what, wit)
			return true
		})
	}
	if n == 0 {
		c.Missing("fitting loops", "no loop in a Satisfy method that sets a bit of a chain was found")
	}
}

// ---- R217: the channel-operation classes of R0, for the inclusive gateway's tracker only ----

func init() {
	register(&Rule{ID: "R217", Title: "the tracker's wake-up is not lost: every channel operation of the inclusive gateway's flow tracker is in a discharged class — in particular a notification that is sent with select/default goes to a channel with room for it", Min: 3, Run: ruleR217})
}

func ruleR217(c *Ctx) {
	start := len(*c.obs)
	ruleR0(c, false)
	var kept []Obligation
	for _, o := range (*c.obs)[start:] {
		if strings.Contains(o.Func, "flowTracker") {
			kept = append(kept, o)
		}
	}
	*c.obs = append((*c.obs)[:start], kept...)
}

// ---- R218 ----

func init() {
	register(&Rule{ID: "R218", Title: "a consumer registers once: RegisterEventConsumer is called where the consumer is constructed, never from a node's loop or from a method that runs per activation (there is no unsubscribe: every further registration delivers every event once more)", Min: 5, Run: ruleR218})
}

func ruleR218(c *Ctx) {
	p := c.P
	what := "an event source forwards an event to every registered consumer, once per registration. A catch event that registers each time it starts to listen is registered n times at its n-th activation: it receives every event n times, a parallel-multiple catch is credited with a definition it saw once, and fires on a set that was never complete"
	n := 0
	for _, f := range p.Funcs {
		if f.Body == nil || f.Pkg.PkgPath != pathBpmn {
			continue
		}
		_ = info(f)
		inspectNoLit(f.Body, func(m ast.Node) bool {
			cl, ok := m.(*ast.CallExpr)
			if !ok || len(cl.Args) != 1 {
				return true
			}
			se, ok := unparen(cl.Fun).(*ast.SelectorExpr)
			if !ok || se.Sel.Name != "RegisterEventConsumer" {
				return true
			}
			n++
			// a constructor: named new… / New…, or a function that returns the object it registers
			rootName := ""
			if f.Root().Obj != nil {
				rootName = f.Root().Obj.Name()
			}
			ctor := strings.HasPrefix(rootName, "new") || strings.HasPrefix(rootName, "New")
			inLoop := innermostLoop(p, cl) != nil
			c.Check(ctor && !inLoop, f, cl, "registration of "+exprString(cl.Args[0])+" as event consumer", what, ifElse(ctor && !inLoop, "in the constructor "+f.Root().QName(), fmt.Sprintf("in %s (constructor: %v, inside a loop: %v)", f.QName(), ctor, inLoop)))
			return true
		})
	}
	if n == 0 {
		c.Missing("consumer registrations", "no call of RegisterEventConsumer was found in the engine package")
	}
}

// ---- R219, R220 ----

func init() {
	register(&Rule{ID: "R219", Title: "wiring is read-only while instances run: no field of a SequenceFlow or of a node's wiring is assigned outside the functions that construct them (tokens share these objects across goroutines)", Min: 1, Run: ruleR219})
	register(&Rule{ID: "R220", Title: "an element keeps the name its parent gave it: a hand-written MarshalXML that re-qualifies its start element builds the new name from start.Name.Local", Min: 5, Run: ruleR220})
}

func ruleR219(c *Ctx) {
	p := c.P
	what := "the *SequenceFlow values in a node's wiring are shared by every token that passes the node, each in its own goroutine. A field written on the way ('resolve the target once and keep it') is written and read concurrently without synchronisation: a data race on engine state, even if every writer stores the same value"
	n := 0
	shared := func(t types.Type) *types.Named {
		if pt, ok := t.(*types.Pointer); ok {
			t = pt.Elem()
		}
		nt := namedOf(t)
		if nt == nil || nt.Obj().Pkg() == nil || nt.Obj().Pkg().Path() != pathBpmn {
			return nil
		}
		switch nt.Obj().Name() {
		case "SequenceFlow", "wiring":
			return nt
		}
		return nil
	}
	for _, f := range p.Funcs {
		if f.Body == nil || f.Pkg.PkgPath != pathBpmn {
			continue
		}
		in := info(f)
		rootName := ""
		if f.Root().Obj != nil {
			rootName = f.Root().Obj.Name()
		}
		ctor := strings.HasPrefix(rootName, "new") || strings.HasPrefix(rootName, "New") || strings.HasPrefix(rootName, "Make") || strings.HasPrefix(rootName, "Clone")
		ast.Inspect(f.Body, func(m ast.Node) bool {
			var lhs []ast.Expr
			switch x := m.(type) {
			case *ast.AssignStmt:
				lhs = x.Lhs
			case *ast.IncDecStmt:
				lhs = []ast.Expr{x.X}
			}
			for _, l := range lhs {
				se, ok := unparen(l).(*ast.SelectorExpr)
				if !ok {
					continue
				}
				fv := fieldOf(in, se)
				if fv == nil {
					continue
				}
				owner := shared(in.TypeOf(se.X))
				if owner == nil {
					continue
				}
				n++
				c.Check(ctor, f, m, "write of "+owner.Obj().Name()+"."+fv.Name(), what, ifElse(ctor, "in a constructing function", "in "+f.QName()+", which runs while instances run"))
			}
			return true
		})
	}
	// the constructors initialise through literals: count them as the positive instances
	for _, f := range p.Funcs {
		if f.Body == nil || f.Pkg.PkgPath != pathBpmn {
			continue
		}
		in := info(f)
		ast.Inspect(f.Body, func(m ast.Node) bool {
			if lit, ok := m.(*ast.CompositeLit); ok && shared(in.TypeOf(lit)) != nil {
				n++
				c.Ok(f, lit, "literal of "+typeString(in.TypeOf(lit)), what, "fields set where the object is constructed", true)
			}
			return true
		})
	}
	if n == 0 {
		c.Missing("wiring construction", "no construction of a SequenceFlow or wiring was found")
	}
}

func ruleR220(c *Ctx) {
	p := c.P
	what := "one Go type can serve several element names (ExtensionAssociation is olive:dataInput and olive:dataOutput); the encoder tells MarshalXML which one through start.Name. A MarshalXML that spells its name out writes both under one name: after a round trip the task's data output is a second data input"
	n := 0
	for _, f := range p.Funcs {
		if f.Body == nil || f.Obj == nil || f.Obj.Name() != "MarshalXML" || f.Pkg.PkgPath != pathSchema || f.File == nil {
			continue
		}
		if strings.HasSuffix(p.Fset.Position(f.File.Pos()).Filename, "_generated.go") {
			continue
		}
		sig := f.Obj.Type().(*types.Signature)
		if sig.Params().Len() != 2 {
			continue
		}
		startP := sig.Params().At(1)
		in := info(f)
		// does the method rename its start element at all?
		renames := false
		derived := false
		usesGivenName := func(e ast.Node, fi *FuncInfo, sp types.Object) bool {
			fin := info(fi)
			return mentionsDeep(e, func(z ast.Node) bool {
				se, ok := z.(*ast.SelectorExpr)
				if !ok || se.Sel.Name != "Local" {
					return false
				}
				r := rootIdent(se)
				return r != nil && objOf(fin, r) == sp
			})
		}
		inspectNoLit(f.Body, func(m ast.Node) bool {
			switch x := m.(type) {
			case *ast.AssignStmt:
				for i, l := range x.Lhs {
					if r := rootIdent(l); r != nil && objOf(in, r) == types.Object(startP) && i < len(x.Rhs) {
						if se, ok := unparen(l).(*ast.SelectorExpr); ok && (se.Sel.Name == "Name" || se.Sel.Name == "Local") {
							renames = true
							if usesGivenName(x.Rhs[i], f, startP) {
								derived = true
							}
						}
					}
				}
			case *ast.CallExpr:
				// a helper that is handed the start element and returns the renamed one
				if cf := p.byObj[callee(in, x)]; cf != nil && cf.Pkg == f.Pkg && cf.Body != nil && cf.Obj != nil {
					csig := cf.Obj.Type().(*types.Signature)
					for i, a := range x.Args {
						if id, ok := unparen(a).(*ast.Ident); ok && objOf(in, id) == types.Object(startP) && i < csig.Params().Len() {
							if isNamed(csig.Params().At(i).Type(), "encoding/xml", "StartElement") {
								renames = true
								if usesGivenName(cf.Body, cf, csig.Params().At(i)) {
									derived = true
								}
							}
						}
					}
				}
			}
			return true
		})
		if !renames {
			continue
		}
		n++
		// under how many element names is this type used? (fields of the schema's structs with an xml tag)
		names := map[string]bool{}
		if T := recvNamed(f.Obj); T != nil {
			for _, pk := range p.Target {
				if pk.PkgPath != pathSchema {
					continue
				}
				sc := pk.Types.Scope()
				for _, nm := range sc.Names() {
					tn, ok := sc.Lookup(nm).(*types.TypeName)
					if !ok {
						continue
					}
					st, ok := tn.Type().Underlying().(*types.Struct)
					if !ok {
						continue
					}
					for i := 0; i < st.NumFields(); i++ {
						ft := st.Field(i).Type()
						if sl, ok := ft.(*types.Slice); ok {
							ft = sl.Elem()
						}
						if pt, ok := ft.(*types.Pointer); ok {
							ft = pt.Elem()
						}
						if namedOf(ft) != T {
							continue
						}
						tag := reflectTag(st.Tag(i), "xml")
						if tag == "" || tag == "-" {
							continue
						}
						tag = strings.Split(tag, ",")[0]
						if j := strings.LastIndexByte(tag, ' '); j >= 0 {
							tag = tag[j+1:]
						}
						if tag != "" {
							names[tag] = true
						}
					}
				}
			}
		}
		if len(names) < 2 && !derived {
			c.Ok(f, f.Decl, f.QName()+" re-qualifies the name it was given", what, fmt.Sprintf("spelled out, and the type is used under one element name only %v", sortedKeys(names)), false)
			continue
		}
		c.Check(derived, f, f.Decl, f.QName()+" re-qualifies the name it was given", what, ifElse(derived, "the new name is built from start.Name.Local", fmt.Sprintf("the new name does not depend on start.Name.Local although the type is used as %v", sortedKeys(names))))
	}
	if n == 0 {
		c.Missing("re-qualifying marshalers", "no hand-written MarshalXML that renames its start element was found")
	}
}

func reflectTag(tag, key string) string {
	return reflect.StructTag(tag).Get(key)
}

// ---- R221 ----

func init() {
	register(&Rule{ID: "R221", Title: "a count is given back by whoever it was taken for: in the process set every WaitGroup.Done is a deferred call of the goroutine (or handler) the Add was made for — no compensating Done on a path of somebody else's function", Min: 3, Run: ruleR221})
}

func ruleR221(c *Ctx) {
	p := c.P
	what := "the watcher of a process that failed to start is still alive and gives its count back when the context ends. A compensating Done 'so that the set can complete' releases the same count a second time: the set completes one watcher too early, or — when the watcher's own Done comes last — the program dies with `sync: negative WaitGroup counter` in a library goroutine"
	n := 0
	for _, f := range p.Funcs {
		if f.Body == nil || f.Pkg.PkgPath != pathBpmn {
			continue
		}
		r := f.Root()
		if r.Obj == nil || recvNamed(r.Obj) == nil || recvNamed(r.Obj).Obj().Name() != "ProcessSet" {
			continue
		}
		in := info(f)
		inspectNoLit(f.Body, func(m ast.Node) bool {
			cl, ok := m.(*ast.CallExpr)
			if !ok || !isSyncMethod(in, cl, "WaitGroup", "Done") {
				return true
			}
			n++
			_, deferred := p.Parent(cl).(*ast.DeferStmt)
			c.Check(deferred, f, cl, "release of a count of the set's wait group in "+f.QName(), what, ifElse(deferred, "deferred: it belongs to this function's own count", "a bare Done on one path"))
			return true
		})
	}
	if n == 0 {
		c.Missing("wait group releases", "no WaitGroup.Done in the methods of ProcessSet was found")
	}
}

// ---- R222 ----

func init() {
	register(&Rule{ID: "R222", Title: "boundary events are looked up in the activity's own scope: where the harness collects the boundary events attached to its activity, it reads them from the scope element of its wiring (process or sub-process), not from the processes of the definitions", Min: 2, Run: ruleR222})
}

func ruleR222(c *Ctx) {
	p := c.P
	what := "a boundary event is declared in the scope of the activity it is attached to — for an activity inside a sub-process, in the subProcess element. Looked up among the top-level processes only, it is never found: its catch event is not built and the event is ignored while the activity waits"
	n := 0
	for _, f := range p.Funcs {
		if f.Body == nil || f.Pkg.PkgPath != pathBpmn {
			continue
		}
		in := info(f)
		inspectNoLit(f.Body, func(m ast.Node) bool {
			cl, ok := m.(*ast.CallExpr)
			if !ok {
				return true
			}
			se, ok := unparen(cl.Fun).(*ast.SelectorExpr)
			if !ok || se.Sel.Name != "BoundaryEvents" {
				return true
			}
			n++
			fromDefinitions := func(e ast.Node) bool {
				return mentionsDeep(e, func(z ast.Node) bool {
					s2, ok := z.(*ast.SelectorExpr)
					return ok && (s2.Sel.Name == "definitions" || s2.Sel.Name == "Processes")
				})
			}
			bad := fromDefinitions(se.X)
			if r := rootIdent(se.X); r != nil && !bad {
				if o := objOf(in, r); o != nil && isLocalVar(f.Root(), o) {
					defs, _ := localDefs(in, f.Root().Body, o)
					for _, d := range defs {
						if fromDefinitions(d) {
							bad = true
						}
					}
				}
			}
			c.Check(!bad, f, cl, "scope "+exprString(se.X)+" searched for boundary events", what, ifElse(bad, "taken from the definitions' top-level processes", "the scope element of the wiring"))
			return true
		})
	}
	if n == 0 {
		c.Missing("boundary event lookup", "no call of BoundaryEvents() was found in the engine package")
	}
}

// ---- R223 (states F19's repaired shape) ----

func init() {
	register(&Rule{ID: "R223", Title: "a token's request can be abandoned: in every NextAction the post into the node's mailbox is a clause of a select that also watches the token's context", Min: 10, Run: ruleR223})
}

func ruleR223(c *Ctx) {
	p := c.P
	what := "NextAction is called in the header of the token's select, before the select can observe anything. A mailbox has room for 2n+1 requests; after a cancellation the node's loop may have left without draining it, and when more tokens than that are on their way to the node the next plain send blocks for ever — the token keeps its sender handle and the tracers never terminate"
	ce := chanEngine(p)
	n := 0
	for _, op := range ce.Ops {
		if op.Kind != OpSend || !isMailboxChan(op.Type) {
			continue
		}
		f := op.Func
		if f.Root().Obj == nil || f.Root().Obj.Name() != "NextAction" || f.Pkg.PkgPath != pathBpmn {
			continue
		}
		n++
		guarded := false
		if op.Select != nil {
			if ok, how := ce.selectGuard(op); ok && how != "select with default" {
				guarded = true
			}
		}
		c.Check(guarded, f, op.Node, "post of the token's request in "+f.Root().QName(), what, ifElse(guarded, "a clause of a select with a done-source", "a plain send"))
	}
	if n == 0 {
		c.Missing("request posts", "no send into a mailbox in a NextAction method was found")
	}
}
