package main

// Thorough tier: checker self-validation against the confirmed seeded faults in <verif>/seeded.
// Each fault that names this property (as its target or as a property that reports it) is applied
// to a scratch copy of the repository under the system temp directory, the property's rules are
// evaluated on that copy, and the copy is removed. A fault that is not reported is a recorded
// weakness of the checker, never a VIOLATION of the property.

import (
	"encoding/json"
	"fmt"
	"os"
	"os/exec"
	"path/filepath"
	"sort"
	"strings"
	"syscall"
	"time"
)

type seededMeta struct {
	Property   string   `json:"property"`
	DetectedBy []string `json:"detected_by"`
	Summary    string   `json:"summary"`
}

func selfTest(spec *PropSpec, ids []string, repo, verif string, known []KnownFinding) map[string]any {
	dirs, _ := filepath.Glob(filepath.Join(verif, "seeded", "*", "meta.json"))
	sort.Strings(dirs)
	type job struct {
		name, patch string
	}
	var jobs []job
	for _, mp := range dirs {
		b, err := os.ReadFile(mp)
		if err != nil {
			continue
		}
		var m seededMeta
		if json.Unmarshal(b, &m) != nil {
			continue
		}
		relevant := m.Property == spec.ID
		for _, d := range m.DetectedBy {
			if d == spec.ID {
				relevant = true
			}
		}
		if relevant {
			jobs = append(jobs, job{filepath.Base(filepath.Dir(mp)), filepath.Join(filepath.Dir(mp), "patch.diff")})
		}
	}
	type outcome struct {
		name, status, detail string // status: hit | missed | skipped
	}
	self, err := os.Executable()
	if err != nil {
		self = filepath.Join(verif, "bin", "bpmnlint")
	}
	results := make([]outcome, len(jobs))
	sem := make(chan struct{}, 6)
	done := make(chan int, len(jobs))
	for i := range jobs {
		go func(i int) {
			sem <- struct{}{}
			defer func() { <-sem; done <- i }()
			// machine-wide: several thorough checks may run at the same time, each analysis is a process of ~1 GB
			release := acquireSlot()
			defer release()
			j := jobs[i]
			tmp, err := os.MkdirTemp("", "bpmnlint-seeded-")
			if err != nil {
				results[i] = outcome{j.name, "skipped", "no temp dir"}
				return
			}
			defer os.RemoveAll(tmp)
			cp := exec.Command("sh", "-c", fmt.Sprintf("cd %q && tar --exclude=.git -cf - . | (cd %q && tar -xf -)", repo, tmp))
			if out, err := cp.CombinedOutput(); err != nil {
				results[i] = outcome{j.name, "skipped", "copy failed: " + string(out)}
				return
			}
			ap := exec.Command("git", "apply", j.patch)
			ap.Dir = tmp
			if _, err := ap.CombinedOutput(); err != nil {
				results[i] = outcome{j.name, "skipped", "patch no longer applies to the current tree"}
				return
			}
			// each scratch copy is analysed in a process of its own (the rule engine keeps per-program state)
			cmd := exec.Command(self, "-json", "-rules", strings.Join(ids, ","), "-repo", tmp, "-verif", verif)
			out, _ := cmd.Output()
			first := ""
			for _, line := range strings.Split(string(out), "\n") {
				if strings.HasPrefix(line, "{") {
					var o Obligation
					if json.Unmarshal([]byte(line), &o) == nil && first == "" {
						first = o.Rule
					}
				}
			}
			if first != "" {
				results[i] = outcome{j.name, "hit", first}
			} else {
				results[i] = outcome{j.name, "missed", ""}
			}
		}(i)
	}
	for range jobs {
		<-done
	}
	total, reported, skipped := len(jobs), 0, 0
	var missed, hit, skippedNames []string
	for _, r := range results {
		switch r.status {
		case "hit":
			reported++
			hit = append(hit, r.name+": "+r.detail)
		case "missed":
			missed = append(missed, r.name)
		default:
			skipped++
			skippedNames = append(skippedNames, r.name+": "+r.detail)
		}
	}
	for _, m := range missed {
		fmt.Fprintf(os.Stderr, "%s: checker weakness: seeded fault %s is not reported by this property's rules\n", spec.ID, m)
	}
	return map[string]any{
		"seeded_faults":             total,
		"seeded_faults_reported":    reported,
		"seeded_faults_skipped":     skipped,
		"seeded_faults_missed":      missed,
		"seeded_faults_hit":         hit,
		"seeded_faults_skipped_why": skippedNames,
	}
}

// acquireSlot takes one of a fixed number of machine-wide slots (advisory file locks under the temp directory,
// created on demand) and returns the function that gives it back. If the lock files cannot be used the caller
// simply proceeds: the slots bound memory, they are not needed for correctness.
func acquireSlot() func() {
	dir := filepath.Join(os.TempDir(), "bpmnlint-slots")
	if err := os.MkdirAll(dir, 0o777); err != nil {
		return func() {}
	}
	const slots = 12
	for attempt := 0; attempt < 20000; attempt++ {
		for i := 0; i < slots; i++ {
			f, err := os.OpenFile(filepath.Join(dir, fmt.Sprintf("slot-%d", i)), os.O_CREATE|os.O_RDWR, 0o666)
			if err != nil {
				return func() {}
			}
			if err := syscall.Flock(int(f.Fd()), syscall.LOCK_EX|syscall.LOCK_NB); err == nil {
				return func() {
					_ = syscall.Flock(int(f.Fd()), syscall.LOCK_UN)
					_ = f.Close()
				}
			}
			_ = f.Close()
		}
		time.Sleep(50 * time.Millisecond)
	}
	return func() {}
}
