package main

// Thorough tier: checker self-validation against the confirmed seeded faults in <verif>/seeded.
// Each fault that names this property (as its target or as a property that reports it) is applied
// to a scratch copy of the repository under the system temp directory, the property's rules are
// evaluated on that copy, and the copy is removed. A fault that is not reported is a recorded
// weakness of the checker, never a VIOLATION of the property.

import (
	"encoding/json"
	"fmt"
	"os"
	"os/exec"
	"path/filepath"
	"sort"
)

type seededMeta struct {
	Property   string   `json:"property"`
	DetectedBy []string `json:"detected_by"`
	Summary    string   `json:"summary"`
}

func selfTest(spec *PropSpec, ids []string, repo, verif string, known []KnownFinding) map[string]any {
	dirs, _ := filepath.Glob(filepath.Join(verif, "seeded", "*", "meta.json"))
	sort.Strings(dirs)
	total, reported, skipped := 0, 0, 0
	var missed, hit, skippedNames []string
	for _, mp := range dirs {
		b, err := os.ReadFile(mp)
		if err != nil {
			continue
		}
		var m seededMeta
		if json.Unmarshal(b, &m) != nil {
			continue
		}
		relevant := m.Property == spec.ID
		for _, d := range m.DetectedBy {
			if d == spec.ID {
				relevant = true
			}
		}
		if !relevant {
			continue
		}
		name := filepath.Base(filepath.Dir(mp))
		total++
		tmp, err := os.MkdirTemp("", "bpmnlint-seeded-")
		if err != nil {
			skipped++
			continue
		}
		func() {
			defer os.RemoveAll(tmp)
			cp := exec.Command("sh", "-c", fmt.Sprintf("cd %q && tar --exclude=.git -cf - . | (cd %q && tar -xf -)", repo, tmp))
			if out, err := cp.CombinedOutput(); err != nil {
				skipped++
				skippedNames = append(skippedNames, name+": copy failed: "+string(out))
				return
			}
			ap := exec.Command("git", "apply", filepath.Join(filepath.Dir(mp), "patch.diff"))
			ap.Dir = tmp
			if _, err := ap.CombinedOutput(); err != nil {
				skipped++
				skippedNames = append(skippedNames, name+": patch no longer applies to the current tree")
				return
			}
			p, err := Load(tmp, "", false)
			if err != nil {
				skipped++
				skippedNames = append(skippedNames, name+": does not load: "+err.Error())
				return
			}
			res := runRules(p, ids)
			classify(res, known)
			if len(res.Violations) > 0 {
				reported++
				hit = append(hit, fmt.Sprintf("%s: %s", name, res.Violations[0].Rule))
			} else {
				missed = append(missed, name)
			}
		}()
	}
	for _, m := range missed {
		fmt.Fprintf(os.Stderr, "%s: checker weakness: seeded fault %s is not reported by this property's rules\n", spec.ID, m)
	}
	return map[string]any{
		"seeded_faults":             total,
		"seeded_faults_reported":    reported,
		"seeded_faults_skipped":     skipped,
		"seeded_faults_missed":      missed,
		"seeded_faults_hit":         hit,
		"seeded_faults_skipped_why": skippedNames,
	}
}
