package main

// Control-flow graph wrapper: node-level points, dominators, path searches
// with witnesses, regions (a case clause, a loop body) and a defer model.

import (
	"go/ast"
	"go/token"
	"sort"

	"verif/checker/internal/xcfg"
)

// Point is a position in the CFG: node I of block B. I == len(B.Nodes) is the
// end of the block.
type Point struct {
	B *xcfg.Block
	I int
}

func (pt Point) Node() ast.Node {
	if pt.B == nil || pt.I >= len(pt.B.Nodes) {
		return nil
	}
	return pt.B.Nodes[pt.I]
}

type Graph struct {
	P      *Prog
	F      *FuncInfo
	CFG    *xcfg.CFG
	Blocks []*xcfg.Block // live blocks
	preds  map[*xcfg.Block][]*xcfg.Block
	idom   map[*xcfg.Block]*xcfg.Block
	owner  map[ast.Node]Point // every AST node inside a CFG node -> its point
	Defers []Point            // defer statements of this function body
	rpo    []*xcfg.Block
}

func newGraph(p *Prog, f *FuncInfo) *Graph {
	g := &Graph{P: p, F: f, preds: map[*xcfg.Block][]*xcfg.Block{}, owner: map[ast.Node]Point{}}
	g.CFG = xcfg.New(f.Body, mayReturn(f.Pkg.TypesInfo))
	for _, b := range g.CFG.Blocks {
		if !b.Live {
			continue
		}
		g.Blocks = append(g.Blocks, b)
		for _, s := range b.Succs {
			g.preds[s] = append(g.preds[s], b)
		}
		for i, n := range b.Nodes {
			pt := Point{b, i}
			if _, ok := n.(*ast.DeferStmt); ok {
				g.Defers = append(g.Defers, pt)
			}
			inspectNoLit(n, func(m ast.Node) bool {
				if _, dup := g.owner[m]; !dup {
					g.owner[m] = pt
				}
				return true
			})
		}
	}
	g.computeDominators()
	return g
}

// inspectNoLit walks n but does not descend into function literal bodies
// (the literal node itself is visited).
func inspectNoLit(n ast.Node, f func(ast.Node) bool) {
	ast.Inspect(n, func(m ast.Node) bool {
		if m == nil {
			return true
		}
		if !f(m) {
			return false
		}
		if _, ok := m.(*ast.FuncLit); ok {
			return false
		}
		return true
	})
}

func (g *Graph) computeDominators() {
	if len(g.Blocks) == 0 {
		return
	}
	entry := g.Blocks[0]
	// reverse post-order
	seen := map[*xcfg.Block]bool{}
	var post []*xcfg.Block
	var dfs func(b *xcfg.Block)
	dfs = func(b *xcfg.Block) {
		seen[b] = true
		for _, s := range b.Succs {
			if !seen[s] {
				dfs(s)
			}
		}
		post = append(post, b)
	}
	dfs(entry)
	order := map[*xcfg.Block]int{}
	for i := len(post) - 1; i >= 0; i-- {
		order[post[i]] = len(g.rpo)
		g.rpo = append(g.rpo, post[i])
	}
	idom := map[*xcfg.Block]*xcfg.Block{entry: entry}
	intersect := func(a, b *xcfg.Block) *xcfg.Block {
		for a != b {
			for order[a] > order[b] {
				a = idom[a]
			}
			for order[b] > order[a] {
				b = idom[b]
			}
		}
		return a
	}
	for changed := true; changed; {
		changed = false
		for _, b := range g.rpo[1:] {
			var nd *xcfg.Block
			for _, p := range g.preds[b] {
				if idom[p] == nil {
					continue
				}
				if nd == nil {
					nd = p
				} else {
					nd = intersect(p, nd)
				}
			}
			if nd != nil && idom[b] != nd {
				idom[b] = nd
				changed = true
			}
		}
	}
	g.idom = idom
}

// PointOf returns the CFG point whose node contains n.
func (g *Graph) PointOf(n ast.Node) (Point, bool) {
	pt, ok := g.owner[n]
	if ok {
		return pt, true
	}
	// n may be a compound statement: use the first CFG node inside it.
	best := Point{}
	found := false
	for m, p := range g.owner {
		if m.Pos() >= n.Pos() && m.End() <= n.End() {
			if !found || g.before(p, best) {
				best, found = p, true
			}
		}
	}
	return best, found
}

// before orders points by source position (tie-break only).
func (g *Graph) before(a, b Point) bool {
	an, bn := a.Node(), b.Node()
	if an == nil || bn == nil {
		return an != nil
	}
	return an.Pos() < bn.Pos()
}

func (g *Graph) blockDominates(a, b *xcfg.Block) bool {
	if g.idom == nil {
		return false
	}
	for {
		if a == b {
			return true
		}
		nb := g.idom[b]
		if nb == nil || nb == b {
			return false
		}
		b = nb
	}
}

// Dominates reports whether every path from the function entry to b passes a.
func (g *Graph) Dominates(a, b Point) bool {
	if a.B == b.B {
		return a.I <= b.I
	}
	return g.blockDominates(a.B, b.B)
}

// Action is the verdict of a visitor at one node.
type Action int

const (
	Continue Action = iota // keep walking this path
	Prune                  // this path is fine / irrelevant; do not go further along it
	Found                  // stop the search; the path to here is the witness
)

// Search explores all paths forward from start. If inclusive, the node at
// start is visited too. visit is called for every node reached; n == nil is
// passed for the parking block of a select without default. Returns whether
// some visitor returned Found, and the block path to it.
func (g *Graph) Search(start Point, inclusive bool, visit func(pt Point, n ast.Node) Action) (bool, []Point) {
	return g.SearchB(start, inclusive, visit, nil)
}

// SearchB is Search with a hook called when a path enters a new block (not
// for the start block): Prune stops the path there, Found ends the search.
func (g *Graph) SearchB(start Point, inclusive bool, visit func(pt Point, n ast.Node) Action, enter func(b *xcfg.Block) Action) (bool, []Point) {
	type item struct {
		pt   Point
		from int // index into trail
	}
	type trailEnt struct {
		pt   Point
		prev int
	}
	var trail []trailEnt
	seen := map[*xcfg.Block]bool{}
	var stack []item
	first := start
	if !inclusive {
		first.I++
	}
	stack = append(stack, item{first, -1})
	startSeenWhole := first.I == 0
	if startSeenWhole {
		seen[first.B] = true
	}
	witness := func(idx int, last Point) []Point {
		var w []Point
		w = append(w, last)
		for i := idx; i >= 0; i = trail[i].prev {
			w = append(w, trail[i].pt)
		}
		for l, r := 0, len(w)-1; l < r; l, r = l+1, r-1 {
			w[l], w[r] = w[r], w[l]
		}
		return w
	}
	for len(stack) > 0 {
		it := stack[len(stack)-1]
		stack = stack[:len(stack)-1]
		b := it.pt.B
		trail = append(trail, trailEnt{it.pt, it.from})
		me := len(trail) - 1
		pruned := false
		if enter != nil && it.from >= 0 {
			switch enter(b) {
			case Found:
				return true, witness(me, Point{b, 0})
			case Prune:
				continue
			}
		}
		if b.Kind == xcfg.KindSelectBlocked {
			switch visit(Point{b, 0}, nil) {
			case Found:
				return true, witness(me, Point{b, 0})
			}
			continue
		}
		for i := it.pt.I; i < len(b.Nodes); i++ {
			switch visit(Point{b, i}, b.Nodes[i]) {
			case Found:
				return true, witness(me, Point{b, i})
			case Prune:
				pruned = true
			}
			if pruned {
				break
			}
		}
		if pruned {
			continue
		}
		for _, s := range b.Succs {
			if !seen[s] {
				seen[s] = true
				stack = append(stack, item{Point{s, 0}, me})
			}
		}
	}
	return false, nil
}

// Region is a source range; a path "escapes" when it reaches a node outside.
type Region struct{ Pos, End token.Pos }

func regionOf(n ast.Node) Region { return Region{n.Pos(), n.End()} }

func regionOfStmts(list []ast.Stmt) Region {
	if len(list) == 0 {
		return Region{}
	}
	return Region{list[0].Pos(), list[len(list)-1].End()}
}

func (r Region) Contains(n ast.Node) bool {
	return n != nil && n.Pos() >= r.Pos && n.End() <= r.End
}

// blockInRegion decides whether an (empty) block belongs to the region.
func (g *Graph) blockInRegion(b *xcfg.Block, r Region) bool {
	if len(b.Nodes) > 0 {
		return r.Contains(b.Nodes[0])
	}
	if b.Stmt != nil {
		switch b.Kind {
		case xcfg.KindSelectCaseBody, xcfg.KindSwitchCaseBody, xcfg.KindIfThen, xcfg.KindIfElse,
			xcfg.KindForBody, xcfg.KindRangeBody:
			// the block is *inside* Stmt
			return b.Stmt.Pos() >= r.Pos && b.Stmt.End() <= r.End
		}
		return b.Stmt.Pos() >= r.Pos && b.Stmt.End() <= r.End
	}
	return false
}

// EntryOfStmts returns the point of the first CFG node of a statement list.
func (g *Graph) EntryOfStmts(list []ast.Stmt) (Point, bool) {
	for _, s := range list {
		if pt, ok := g.PointOf(s); ok {
			return pt, true
		}
	}
	return Point{}, false
}

// EscapeKind says how a path left a region.
type EscapeKind string

// RegionPaths walks every path from the region entry until it leaves the
// region. accept(n) == true ends a path as satisfied. It returns the paths
// that leave the region (fall out, return, branch out) without having been
// accepted, each with the line of the node where it left.
func (g *Graph) RegionPaths(entry Point, r Region, accept func(n ast.Node) bool) [][]Point {
	var bad [][]Point
	reported := map[ast.Node]bool{}
	reportedBlk := map[*xcfg.Block]bool{}
	for iter := 0; iter < 32; iter++ {
		found, w := g.SearchB(entry, true, func(pt Point, n ast.Node) Action {
			if n == nil {
				return Prune // parked forever: not an escape
			}
			if !r.Contains(n) {
				if reported[n] || reportedBlk[pt.B] {
					return Prune
				}
				return Found
			}
			if accept(n) {
				return Prune
			}
			if _, ok := n.(*ast.ReturnStmt); ok {
				if reported[n] {
					return Prune
				}
				return Found
			}
			return Continue
		}, func(b *xcfg.Block) Action {
			if b.Kind == xcfg.KindSelectBlocked {
				return Continue
			}
			if len(b.Nodes) == 0 && !g.blockInRegion(b, r) {
				if reportedBlk[b] {
					return Prune
				}
				return Found
			}
			return Continue
		})
		if !found {
			break
		}
		last := w[len(w)-1]
		if n := last.Node(); n != nil {
			reported[n] = true
		}
		reportedBlk[last.B] = true
		bad = append(bad, w)
	}
	return bad
}

// WithinRegion is a block hook that prunes paths leaving region r.
func (g *Graph) WithinRegion(r Region) func(b *xcfg.Block) Action {
	return func(b *xcfg.Block) Action {
		if b.Kind == xcfg.KindSelectBlocked {
			return Continue
		}
		if len(b.Nodes) == 0 && !g.blockInRegion(b, r) {
			return Prune
		}
		if len(b.Nodes) > 0 && !r.Contains(b.Nodes[0]) {
			return Prune
		}
		return Continue
	}
}

// Lines renders a witness path as the distinct source lines of its block
// entry nodes.
func (g *Graph) Lines(w []Point) []int {
	var out []int
	lastLine := -1
	for _, pt := range w {
		var pos token.Pos
		if n := pt.Node(); n != nil {
			pos = n.Pos()
		} else if pt.B != nil && pt.B.Stmt != nil {
			pos = pt.B.Stmt.Pos()
		}
		if !pos.IsValid() {
			continue
		}
		l := g.P.Fset.Position(pos).Line
		if l != lastLine {
			out = append(out, l)
			lastLine = l
		}
	}
	return out
}

// ReturnPoints lists every return (explicit or synthetic) of the function.
func (g *Graph) ReturnPoints() []Point {
	var out []Point
	for _, b := range g.Blocks {
		for i, n := range b.Nodes {
			if _, ok := n.(*ast.ReturnStmt); ok {
				out = append(out, Point{b, i})
			}
		}
	}
	sort.Slice(out, func(i, j int) bool { return out[i].Node().Pos() < out[j].Node().Pos() })
	return out
}

// AllPoints enumerates every node point.
func (g *Graph) AllPoints() []Point {
	var out []Point
	for _, b := range g.Blocks {
		for i := range b.Nodes {
			out = append(out, Point{b, i})
		}
	}
	return out
}

// MustPassBeforeExit checks that every path from `from` (exclusive) to a
// function exit passes a node accepted by pred, where a `defer` of an accepted
// call counts (it runs at exit). If a defer of an accepted call dominates
// `from`, the obligation is discharged as well. Returns the offending paths.
func (g *Graph) MustPassBeforeExit(from Point, inclusive bool, pred func(n ast.Node) bool) [][]Point {
	for _, d := range g.Defers {
		if g.Dominates(d, from) && pred(d.Node()) {
			return nil
		}
	}
	var bad [][]Point
	reported := map[ast.Node]bool{}
	for iter := 0; iter < 32; iter++ {
		found, w := g.Search(from, inclusive, func(pt Point, n ast.Node) Action {
			if n == nil {
				return Prune
			}
			if pred(n) {
				return Prune
			}
			if _, ok := n.(*ast.ReturnStmt); ok {
				if reported[n] {
					return Prune
				}
				return Found
			}
			return Continue
		})
		if !found {
			break
		}
		reported[w[len(w)-1].Node()] = true
		bad = append(bad, w)
	}
	return bad
}

// Reaches reports whether some path from `from` (exclusive) reaches a node
// satisfying target without first passing a node satisfying stop.
func (g *Graph) Reaches(from Point, target, stop func(n ast.Node) bool) (bool, []Point) {
	return g.Search(from, false, func(pt Point, n ast.Node) Action {
		if n == nil {
			return Prune
		}
		if target(n) {
			return Found
		}
		if stop != nil && stop(n) {
			return Prune
		}
		return Continue
	})
}

// Entry is the function entry point.
func (g *Graph) Entry() Point {
	if len(g.Blocks) == 0 {
		return Point{}
	}
	return Point{g.Blocks[0], 0}
}
