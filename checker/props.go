package main

var propSpecs = map[string]*PropSpec{}
