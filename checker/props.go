package main

// Property -> rules mapping. The explanation texts are copied into each
// evidence file; they state what is decided and, as importantly, what is not.

var propSpecs = map[string]*PropSpec{}

func prop(id, title string, quick, thorough []string, decided, notDecided string) {
	propSpecs[id] = &PropSpec{ID: id, Title: title, Quick: quick, Thorough: thorough, Explanation: decided, NotDecided: notDecided}
}

func init() {
	prop("C01", "Token flow conforms to BPMN semantics",
		[]string{"R1", "R2", "R3", "R3d", "R3e", "R5", "R6", "R7", "R8", "R9", "R10", "R13", "R36", "R38", "R39", "R51", "R57", "R52", "R53", "R54", "R59", "R78", "R79", "R80", "R82", "R83", "R85", "R86", "R87"}, nil,
		"Structural necessary conditions of token accounting, decided on every path of the analysed functions: every token goroutine is counted before it starts and uncounted exactly once on every exit (R1); every request taken from a node mailbox is answered, parked, delegated or reported on every path and never answered twice, a releasing join hands each parked token exactly one action and empties its parked list / counter (R2,R3,R3d); every message type posted has a handler (R5) and every action type an interpreter, enum switches are exhaustive (R6); forked flows start only after the FlowTrace that announces them, a terminal trace is the last trace, leave/move/visit are ordered, every token exit is announced (R7-R10); the element->node mapping is frozen before use (R13); process and sub-process build and register the same 18 node kinds with checked constructor errors (R36). Round 2: a probed decision is final and its reply slot is cleared on every answering path (R52,R53); the inclusive join's decision depends on the identities of arrived and awaited tokens and is re-evaluated after every refresh of the cohort (R54,R59); a token that did not move never asks its node again (R57).",
		"that conditions evaluate to the right truth value, that the number of requests equals what the token game prescribes for a given graph and data, order consistency for a given graph, final variable values (these quantify over process graphs and inputs).")
	prop("C02", "Completion is reported iff all start events fired and no token remains",
		[]string{"R1", "R11", "R12", "R14[WaitUntilComplete]", "R58", "R60", "R77"}, nil,
		"Decides: the wait group 'no token remains' is read from is paired (R1); CeaseFlowTrace has one send site per monitor, only in the branch that saw the flow wait group drained and after the loop that counted all start events, the completion lock is taken synchronously before the monitor goroutine exists and released on all exits, and WaitUntilComplete observes that lock (R12); the monitor's subscription must precede the start trigger (R11); WaitUntilComplete and its helper contain no unguarded blocking operation, i.e. a waiter whose context expired cannot leave a helper behind that owns the completion lock (R14). Round 2: every mutex (incl. the completion lock) is released on every path or handed over structurally (R58); start trigger, monitor and watchers run under the caller's context (R60).",
		"bounded latency of completion, behaviour with several start events beyond the single send site, 'exactly once after every other flow trace' as a history fact.")
	prop("C03", "Parallel gateway",
		[]string{"R2", "R3", "R3d", "R3e", "R4", "R24", "R47", "R51", "R82", "R83"}, nil,
		"Decides: a token's request at the gateway is never dropped (R2); on release every parked token receives exactly one action (surplus ones completeAction), the parked list is emptied and the arrival counter re-initialised in the releasing branch so that re-entry starts from scratch (R3,R3d); a release can never strand the gateway on a token that left (reply capacity, R4); join state is confined to the gateway goroutine (R24).",
		"that the comparison is == N rather than >= N, the partition arithmetic of distributeFlows (value-level facts).")
	prop("C04", "Exclusive gateway",
		[]string{"R2", "R5", "R24", "R26", "R38", "R39", "R51", "R52", "R53", "R78", "R79", "R80"}, nil,
		"Decides: every request and every probe report is answered, parked, re-queued or reported (R2,R5); probing state is confined to the gateway goroutine (R24); both registered expression engines are usable from the token goroutine without a nil-map write (R26a); the list of candidate flows is an order-preserving filter of the gateway's outgoing flows and is not reordered afterwards (R39); a decision handed to a token is a fresh slice that later decisions cannot overwrite (R38). Round 2: the flowAction answered after a probe marks its flows unconditional (R52); the probing slot is cleared on every answering path (R53).",
		"'first true wins' as a value fact, truth values of conditions, position of the default.")
	prop("C05", "Inclusive gateway",
		[]string{"R2", "R3", "R3e", "R4", "R10", "R16", "R19", "R22", "R24", "R47", "R48", "R52", "R53", "R54", "R59", "R79", "R80", "R83", "R85", "R86"}, nil,
		"Decides: requests are never dropped (R2); every way a token can end is visible in the trace stream the join's tracker reads (R10); the tracker's subscription and goroutine have a lifecycle (R19,R16); tracker map accesses follow its lock protocol (R22); gateway state is confined (R24); the join releases each parked token exactly once and re-arms (R3); reply capacity (R4). Round 2: R52/R53 as for the exclusive gateway; the synchronise decision is control dependent on the elements of both the awaited and the arrived set (R54) and is re-evaluated after each cohort refresh (R59).",
		"that `awaiting` is the right set at the right time (it is read from an asynchronously maintained picture), early or late firing under a given schedule.")
	prop("C06", "Event-based gateway",
		[]string{"R0", "R16", "R20", "R21", "R23", "R25", "R87"}, nil,
		"Decides: the winner is chosen by one atomic compare-and-swap on a variable that is accessed only atomically (R23); the notification of losers cannot block the winner and is not sent on a closed channel (R0,R21,R20); the termination-channel map is not shared unsynchronised between the winner's and the losers' goroutines (R25); every loser's token honours its termination channel in the same select as its pending action (R16).",
		"'the instance goes on to complete', outcomes of particular delivery interleavings.")
	prop("C07", "Cancellation stops everything and leaks nothing",
		[]string{"R0", "R1", "R4", "R12", "R14", "R16", "R17", "R18", "R19", "R20", "R21", "R40", "R58", "R60", "R56", "R76", "R37"}, nil,
		"Decides, for every goroutine the engine can start and every channel operation in the engine packages: each operation falls into a discharged class — select-guarded by a done-source or default, reply with capacity, mailbox post with a running owner, tracer protocol, closed-only/timer receive, buffered single-use (R0,R4,R14); every parking loop leaves through a done-source case and no done-source case spins (R16); what a goroutine acquired it releases on all exits: wait-group count (R1), sender handle (R17), subscription (R19), completion lock (R12); every goroutine that sends traces holds a sender handle of the tracer it sends on (R18); channels are closed once and never sent to afterwards (R20,R21). Round 2: lock pairing (R58), context agreement (R60), per-request goroutine state (R56); a registered sender handle reaches its owner goroutine on every path (R17 post-dominance).",
		"'promptly'; that a task request racing the cancel carries a cancelled context beyond the structural binding; liveness of third-party code.")
	prop("C08", "Task requests",
		[]string{"R6", "R14[Do]", "R20", "R27", "R40", "R55", "R56", "R76", "R81"}, nil,
		"Decides: Do cannot block (R14); the answer path forwards at most one response and always closes `done` exactly once (R20,R40); only declared result names / data outputs reach instance data (R27); the error-mode switch is exhaustive, the retry branch steps the counter on every path back to the select, skip falls through to the flow handling and exit returns (R6,R40). Round 2: the retry decision is taken against Reset(handler.Retries) on every path and every further attempt is stepped (R55); the per-request goroutine shares no mutable state declared outside the message loop (R56).",
		"'first Do wins' as a value fact, retry count arithmetic.")
	prop("C09", "Trace stream total order",
		[]string{"R7", "R8", "R9", "R37", "R63", "R83"}, nil,
		"Decides: single broadcaster, sequential, non-dropping delivery to every subscriber, subscriber list confined to it, one select serving subscribe/unsubscribe/trace/terminate, Unsubscribe drains while requesting, relay forwards sequentially (R37); announce-before-start, terminal-last, leave/visit bracketing in the token goroutine (R7,R8,R9). Round 2: removal of a subscriber moves the last element into the hole, not the other way round (R63).",
		"absence of deadlock in general (Subscribe after termination blocks), per-run order facts.")
	prop("C10", "Boundary events",
		[]string{"R41", "R23", "R0", "R61", "R62", "R76", "R84"}, nil,
		"Decides: Activity.Cancel is called only inside the harness's once-only cancellation; the interrupting transformer is installed iff CancelActivity(); events reach boundary listeners only while the activity is active and `active` is set before the activity is asked and cleared after its answer is relayed (R41,R23); necessary conditions for 'normal flow never after interruption' (state written by the cancellation is read on the relay path) and for 'boundary listeners do not keep the instance from completing' (listener flows do not count on the process wait group or are terminated with the activity) (R41). Round 2: per-iteration state of the boundary-event loop does not leak between boundary events (R61); no mailbox post is lossy (R62).",
		"interleavings of event and answer.")
	prop("C11", "Event delivery",
		[]string{"R3", "R5", "R14[ConsumeEvent]", "R22", "R41", "R42", "R62"}, nil,
		"Decides: delivery cannot block on a node that was never reached (R14); ForwardEvent visits every consumer; the consumer list is copied under the read lock and forwarded outside it; a catch event matches only while activated, releases every parked token exactly once and clears the list (R42,R3,R22); posted message types have handlers (R5). Round 2: no post of a delivered event to a node mailbox can be skipped by a default clause (R62).",
		"matching semantics per event kind, 'dropped without effect on later listeners' as a history fact.")
	prop("C12", "Embedded sub-process",
		[]string{"R1", "R2", "R3", "R11", "R36", "R35", "R60", "R73", "R12"}, nil,
		"Decides: the completion signal the parent waits for can reach it (trace route, R35); the parent is resumed only after that signal and once (R2,R3); the inner monitor and the forwarding subscription precede the inner start (R11); the sub-process supports exactly the node kinds of a process (R36); inner tokens are counted (R1). Round 2: the inner start runs under the caller's context (R60); the sub-process shares the enclosing scope's data locator (R73); the completion monitor's counting loop has no other exit (R12).",
		"equivalence with the inlined content, re-entry in a loop.")
	prop("C13", "Timers",
		[]string{"R3", "R16", "R20", "R21", "R43", "R62", "R65"}, nil,
		"Decides: the timer callback runs only after a receive from the channel returned by clock.Until/After; one-shot timers call it at most once and then close; the cycle loop tests `repetitions == 0` at its head and decrements on every iteration; after ctx.Done and end-timer cases the function returns (R43,R16); sends never follow close, closes run once (R21,R20); the mock clock sorts before it delivers and removes what it delivered (R43). Round 2: event posts are not lossy (R62); an index loop that removes the current timer steps back (R65).",
		"every clause about times: never early for a given clock history, interval spacing, end bound.")
	prop("C14", "Multiple / parallel-multiple catch events",
		[]string{"R44", "R63"}, nil,
		"Decides: an event that matches no definition changes nothing — every store that mutates satisfier state is control-dependent on a successful MatchesEventInstance; Satisfy is only called from a node's run goroutine or under a mutex (R44). Round 2: a completed chain is removed by moving the last chain into its place (R63).",
		"the counting arithmetic over histories (the substance of the property).")
	prop("C15", "XML round trip",
		[]string{"R29", "R30", "R31", "R71"}, nil,
		"Decides: id retrievability is structurally complete — every child-element field of every schema struct is reached by its FindBy (R29); writer/reader tables agree: every namespace in a struct tag is mapped, every prefix written has an xmlns declaration, the xsi:type attribute written is the one tested on parse, marshal and unmarshal expression kinds form the same closed set (R30); serialising does not write to the model (R31). Round 2: documents are decoded into fresh values, never into a value aliasing package-level defaults (R71).",
		"equality of the re-parsed model, identical engine behaviour.")
	prop("C16", "Values survive storage; nothing panics",
		[]string{"R26", "R28", "R45", "R66", "R67", "R74"}, nil,
		"Decides: reflect accessor/kind agreement and nil-type discipline in the value layer (R26b,c); ItemType switches are exhaustive (R28); no mutable package-level state in the value/data layer besides a locked registry, and NewOptions allocates a fresh locator (R45). Round 2: numbers are written into ItemValue with a lossless format (R66); a map decoded with the error ignored is never nil (R67).",
		"round-trip equality of values (formatting, integer ranges).")
	prop("C17", "No data race, no panic",
		[]string{"R20", "R21", "R22", "R23", "R24", "R25", "R26", "Rerr", "R58", "R1", "R74", "R87"}, nil,
		"Decides: lockset discipline over all mutex-bearing structs (R22), atomic-only consistency (R23), owner-goroutine confinement of node state (R24), closure-shared locals (R25), nil-map / reflect discipline (R26), dropped constructor errors (Rerr, thorough). Round 2: lock pairing on every path (R58); wait-group Add precedes the go statement (R1).",
		"races on memory that has no discipline to infer; 'the outcome is one the sequential semantics allows'.")
	prop("C18", "Process set",
		[]string{"R1", "R11", "R14[WaitUntilComplete]", "R20", "R22", "R35", "R46", "R58", "R60", "R64", "R62", "R77"}, nil,
		"Decides: `done` closed once (R20); watchers subscribed before the process they watch starts (R11); wait-group pairing (R1); exactly one Send(CeaseProcessSetTrace) site followed by return, one instantiation per throw message (R46); WaitUntilComplete has an escape (R14); the catch registry is locked (R22). Round 2: each instantiated process gets resources created in its own iteration (R64); the post of a throw to the set's mailbox cannot be dropped (R62); lock pairing and context agreement (R58,R60).",
		"'returns true exactly when all completed' under all interleavings.")
	prop("C19", "Builder output",
		[]string{"R32", "R34", "R68", "R69"}, nil,
		"Decides: the AddActivity type switch covers every activity type the process can store, or rejects it before linking; the node copy is appended only after link filled its incomings; link stores both ends (R32); generated ids do not come from a clock-only source (R34). Round 2: no unsynchronised package-level random source (R68); Out() resets the whole builder (R69).",
		"geometry (overlap, waypoints), executability.")
	prop("C20", "Generated identifiers never collide",
		[]string{"R23", "R33", "R34", "R68", "R70", "R72"}, nil,
		"Decides: the fallback counter is only accessed atomically (R23); every id stored into flow/process/trace id fields originates from IGenerator.New (or the single pre-generated fork id) and the rolling NewWithTime is never used (R33); id sources are not a pure function of the clock (R34). Round 2: draws from the third-party generator are serialised (R72); Snapshot serialises the generator's own snapshot (R70); no unsynchronised shared random source (R68).",
		"sno's own guarantees, time regressions, snapshot histories.")
}
