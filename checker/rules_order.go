package main

// Ordering and agreement rules: R11 subscribe-before-trigger, R12
// cease-after-wait, R13 freeze-before-use, R36 node-kind agreement, R37
// single broadcaster.

import (
	"fmt"
	"go/ast"
	"go/token"
	"go/types"
	"sort"
	"strings"
)

func init() {
	register(&Rule{ID: "R11", Title: "subscribe-before-trigger: a watcher's subscription is made synchronously before the instance it watches is started", Min: 4, Run: ruleR11})
	register(&Rule{ID: "R12", Title: "cease-after-wait: CeaseFlowTrace only after the start events were observed and the flow wait group drained; completion lock taken before go, released on all exits", Min: 6, Run: ruleR12})
	register(&Rule{ID: "R13", Title: "freeze-before-use: the element->node mapping is only written while construction-locked and is finalized before it is published", Min: 28, Run: ruleR13})
	register(&Rule{ID: "R36", Title: "node-kind-agreement: process and sub-process construct and register the same node kinds", Min: 30, Run: ruleR36})
	register(&Rule{ID: "R37", Title: "single-broadcaster: one goroutine owns the subscriber list and delivers every trace to every subscriber in order, without dropping", Min: 5, Run: ruleR37})
}

// ---- R11 ----

// subscribesSync: function body f contains (at top level, or in a function it
// calls statically up to depth) a call of tracer.Subscribe/SubscribeChannel.
func subscribesSync(p *Prog, f *FuncInfo, depth int) bool {
	if f == nil || depth > 2 {
		return false
	}
	in := info(f)
	found := false
	inspectNoLit(f.Body, func(m ast.Node) bool {
		if _, isGo := m.(*ast.GoStmt); isGo {
			return false
		}
		if call, ok := m.(*ast.CallExpr); ok {
			if isTracerMethod(in, call, "Subscribe") || isTracerMethod(in, call, "SubscribeChannel") {
				found = true
			} else if fn := callee(in, call); fn != nil && depth < 1 {
				if cf := p.byObj[fn]; cf != nil && cf != f && cf.Pkg.PkgPath == pathBpmn && !isStartTrigger(fn) && subscribesSync(p, cf, depth+1) {
					found = true
				}
			}
		}
		return !found
	})
	return found
}

func isStartTrigger(fn *types.Func) bool {
	if fn == nil {
		return false
	}
	switch {
	case isMethod(fn, pathBpmn, "Trigger", "startEvent", "throwEvent"):
		return true
	case isMethod(fn, pathBpmn, "StartWith", "Process"), isMethod(fn, pathBpmn, "StartAll", "Process"), isMethod(fn, pathBpmn, "ThrowAll", "Process"):
		return true
	case isMethod(fn, pathBpmn, "startAll", "subProcess"), isMethod(fn, pathBpmn, "startWith", "subProcess"):
		return true
	}
	return false
}

func ruleR11(c *Ctx) {
	p := c.P
	ce := chanEngine(p)
	launchByStmt := map[*ast.GoStmt]*Launch{}
	for _, l := range ce.Launches() {
		launchByStmt[l.Site.Stmt] = l
	}
	for _, f := range p.Funcs {
		if shortPkg(f.Pkg.PkgPath) != "bpmn" {
			continue
		}
		in := info(f)
		g := p.Graph(f)
		type ev struct {
			pt    Point
			n     ast.Node
			sync  bool
			label string
		}
		var triggers, watches []ev
		for _, pt := range g.AllPoints() {
			n := pt.Node()
			if gs, ok := n.(*ast.GoStmt); ok {
				// go f(x)(..): the inner call f(x) is evaluated synchronously
				if inner, ok := unparen(gs.Call.Fun).(*ast.CallExpr); ok {
					if fn := callee(in, inner); fn != nil && subscribesSync(p, p.byObj[fn], 0) {
						watches = append(watches, ev{pt, gs, true, "go " + fn.Name() + "(...)(...) (subscription made while evaluating the go statement)"})
						continue
					}
				}
				if l := launchByStmt[gs]; l != nil && l.Root != nil && subscribesSync(p, l.Root, 0) {
					// a goroutine is a watcher of an instance only if it is handed that instance
					handed := false
					for _, a := range gs.Call.Args {
						if n := namedOf(in.TypeOf(a)); n != nil && (n.Obj().Name() == "Process" || n.Obj().Name() == "subProcess") {
							handed = true
						}
					}
					if handed || l.Root.Lit != nil {
						watches = append(watches, ev{pt, gs, false, "go " + l.Root.QName() + " (subscribes inside the new goroutine)"})
					}
				}
				continue
			}
			if ss, ok := n.(*ast.SendStmt); ok && isMailboxChan(in.TypeOf(ss.Chan)) {
				if r := f.Root(); r.Obj != nil && r.Obj.Name() == "NextAction" && recvNamed(r.Obj) != nil && recvNamed(r.Obj).Obj().Name() == "subProcess" {
					triggers = append(triggers, ev{pt, ss, true, "post of the activation request to the sub-process loop (which starts the inner start events)"})
				}
			}
			for _, call := range callsIn(n) {
				// sync.Once.Do(func(){ ... watch ... }): the watch is made (once) at this point
				if lf := syncLitOfCall(p, in, call); lf != nil {
					lin := info(lf)
					made := false
					inspectNoLit(lf.Body, func(z ast.Node) bool {
						switch y := z.(type) {
						case *ast.GoStmt:
							if inner, ok := unparen(y.Call.Fun).(*ast.CallExpr); ok {
								if ifn := callee(lin, inner); ifn != nil && subscribesSync(p, p.byObj[ifn], 0) {
									made = true
								}
							}
							return false
						case *ast.CallExpr:
							if isTracerMethod(lin, y, "Subscribe") || isTracerMethod(lin, y, "SubscribeChannel") {
								made = true
							}
						}
						return true
					})
					if made {
						watches = append(watches, ev{pt, call, true, "sync.Once.Do(...) that creates the watcher (subscription made synchronously, once)"})
					}
				}
				fn := callee(in, call)
				if isStartTrigger(fn) {
					triggers = append(triggers, ev{pt, call, true, calleeName(fn)})
				} else if isTracerMethod(in, call, "Subscribe") || isTracerMethod(in, call, "SubscribeChannel") {
					watches = append(watches, ev{pt, call, true, "Subscribe"})
				} else if fn != nil && p.byObj[fn] != nil && p.byObj[fn].Pkg.PkgPath == pathBpmn && !isStartTrigger(fn) && subscribesSync(p, p.byObj[fn], 0) {
					watches = append(watches, ev{pt, call, true, "call of " + fn.Name() + " (subscribes synchronously)"})
				}
			}
		}
		if len(triggers) == 0 || len(watches) == 0 {
			continue
		}
		for _, t := range triggers {
			for _, w := range watches {
				// a watch made under a first-activation guard (CompareAndSwap / sync.Once) is treated as
				// located at the guard: it was made, once, before anything after the guard runs
				wpt := w.pt
				if underCASGuard(p, f, w.n) {
					for cur := p.Parent(w.n); cur != nil; cur = p.Parent(cur) {
						if ifs, ok := cur.(*ast.IfStmt); ok && w.n.Pos() >= ifs.Body.Pos() && w.n.End() <= ifs.Body.End() {
							if cpt, ok := g.PointOf(ifs.Cond); ok {
								wpt = cpt
							}
							break
						}
					}
				}
				if !(g.Dominates(t.pt, wpt) || g.Dominates(wpt, t.pt)) {
					continue
				}
				ok := w.sync && g.Dominates(wpt, t.pt) && wpt != t.pt
				wit := fmt.Sprintf("watch %q at %s; trigger %s at %s; watch is synchronous=%v and precedes the trigger=%v", w.label, p.Pos(w.n.Pos()), t.label, p.Pos(t.n.Pos()), w.sync, g.Dominates(wpt, t.pt) && wpt != t.pt)
				c.Check(ok, f, t.n, "trigger "+t.label+" vs watch",
					"the subscription that watches an instance must be established, in the caller's own goroutine, before the call that lets the instance emit its first trace; otherwise the watcher can miss the start/cease traces and never finish", wit)
			}
		}
	}
}

// ---- R12 ----

// goroutineTree: the functions that run synchronously in the goroutine rooted at R: R, the
// same-package functions it calls statically (not through interfaces), literals it runs
// synchronously (sync.Once.Do, immediately invoked, deferred), up to a small depth.
func goroutineTree(p *Prog, R *FuncInfo) map[*FuncInfo]bool {
	tree := map[*FuncInfo]bool{}
	var add func(f *FuncInfo, d int)
	add = func(f *FuncInfo, d int) {
		if f == nil || tree[f] || d > 4 {
			return
		}
		tree[f] = true
		in := info(f)
		inspectNoLit(f.Body, func(m ast.Node) bool {
			if _, isGo := m.(*ast.GoStmt); isGo {
				return false
			}
			switch x := m.(type) {
			case *ast.CallExpr:
				if lf := syncLitOfCall(p, in, x); lf != nil {
					add(lf, d+1)
				}
				if fn := callee(in, x); fn != nil {
					if _, isIface := recvUnderlyingInterface(fn); !isIface {
						if cf := p.byObj[fn]; cf != nil && cf.Pkg == R.Pkg {
							add(cf, d+1)
						}
					}
				}
			case *ast.DeferStmt:
				if lit, ok := unparen(x.Call.Fun).(*ast.FuncLit); ok {
					add(p.byLit[lit], d+1)
				}
			}
			return true
		})
	}
	add(R, 0)
	return tree
}

func ruleR12(c *Ctx) {
	p := c.P
	ce := chanEngine(p)
	n := 0
	seenRoot := map[*FuncInfo]bool{}
	for _, l := range ce.Launches() {
		R := l.Root
		if R == nil || seenRoot[R] || R.Pkg.PkgPath != pathBpmn {
			continue
		}
		seenRoot[R] = true
		tree := goroutineTree(p, R)
		type site struct {
			f  *FuncInfo
			pt Point
		}
		var sends []site
		for f := range tree {
			in := info(f)
			g := p.Graph(f)
			for _, pt := range g.AllPoints() {
				if _, ok := nodeSendsTraceDirect(in, pt.Node(), "CeaseFlowTrace"); ok {
					sends = append(sends, site{f, pt})
				}
			}
		}
		if len(sends) == 0 {
			continue
		}
		n++
		sort.Slice(sends, func(i, j int) bool { return sends[i].pt.Node().Pos() < sends[j].pt.Node().Pos() })
		// (1) exactly one send site, not in a loop
		one := len(sends) == 1 && innermostLoop(p, sends[0].pt.Node()) == nil
		c.Check(one, R, sends[0].pt.Node(), "single Send(CeaseFlowTrace)", "a completion monitor sends CeaseFlowTrace at exactly one site outside any loop (the trace appears once)", fmt.Sprintf("%d send sites in the monitor goroutine's call tree", len(sends)))
		sf, cp := sends[0].f, sends[0].pt
		// (2) in the clause that observed a channel closed only after WaitGroup.Wait
		okWait, witWait := false, "no receive from a wait-completion channel dominates the send"
		for _, op := range ce.Ops {
			if op.Func != sf || op.Kind != OpRecv || op.Ref.Var == nil || !ce.ClosedOnly(op.Ref.Var) || op.Clause == nil {
				continue
			}
			if !regionOfStmts(op.Clause.Clause.Body).Contains(cp.Node()) {
				continue
			}
			for _, cl := range ce.closes[op.Ref.Var] {
				cg := p.Graph(cl.Func)
				cpt, _ := cg.PointOf(cl.Node)
				cin := info(cl.Func)
				for _, q := range cg.AllPoints() {
					for _, call := range callsIn(q.Node()) {
						if _, ok := isWGMethod(cin, call, "Wait"); ok && cg.Dominates(q, cpt) && q != cpt {
							okWait = true
							witWait = fmt.Sprintf("send is in the clause receiving from %s, closed at %s only after %s", op.Ref.Var.Name(), p.Pos(cl.Node.Pos()), exprString(call.Fun))
						}
					}
				}
			}
		}
		c.Check(okWait, sf, cp.Node(), "CeaseFlowTrace after wait-group drain", "CeaseFlowTrace is sent only in the branch that observed the channel closed after flowWaitGroup.Wait() returned (no token remains)", witWait)
		// (3) preceded by the loop that counts start events from the subscription
		countingLoop := func(f *FuncInfo) *ast.ForStmt {
			fin := info(f)
			var res *ast.ForStmt
			inspectNoLit(f.Body, func(m ast.Node) bool {
				fs, ok := m.(*ast.ForStmt)
				if !ok {
					return true
				}
				if fs.Cond != nil {
					// `for len(observed) != len(declared) { ... }`: the same loop with the test in its header
					be, ok := unparen(fs.Cond).(*ast.BinaryExpr)
					if !ok || be.Op != token.NEQ || !isLenCall(fin, be.X) || !isLenCall(fin, be.Y) || fs.Init != nil || fs.Post != nil {
						return true
					}
					for _, op := range ce.Ops {
						if op.Func == f && op.Kind == OpRecv && regionOf(fs.Body).Contains(op.Node) {
							if e, ok := chanElem(op.Type); ok && isITrace(e) {
								// no break out of the loop other than return
								brk := false
								inspectNoLit(fs.Body, func(y ast.Node) bool {
									if b, ok := y.(*ast.BranchStmt); ok && b.Tok == token.BREAK && b.Label != nil {
										brk = true
									}
									return true
								})
								if !brk {
									res = fs
								}
							}
						}
					}
					return true
				}
				recvsTraces := false
				for _, op := range ce.Ops {
					if op.Func == f && op.Kind == OpRecv && regionOf(fs.Body).Contains(op.Node) {
						if e, ok := chanElem(op.Type); ok && isITrace(e) {
							recvsTraces = true
						}
					}
				}
				if !recvsTraces {
					return true
				}
				inspectNoLit(fs.Body, func(y ast.Node) bool {
					ifs, ok := y.(*ast.IfStmt)
					if !ok {
						return true
					}
					leaves := false
					for _, st := range ifs.Body.List {
						switch b := st.(type) {
						case *ast.BranchStmt:
							if b.Tok == token.BREAK {
								leaves = true
							}
						case *ast.ReturnStmt:
							leaves = true
						}
					}
					if be, ok := unparen(ifs.Cond).(*ast.BinaryExpr); ok && leaves && be.Op == token.EQL && isLenCall(fin, be.X) && isLenCall(fin, be.Y) {
						res = fs
						// no other way out of the loop to the code after it: a labelled break / goto (e.g. a
						// timeout case) would let the monitor go on before every start event was observed
						inspectNoLit(fs.Body, func(z ast.Node) bool {
							if b, ok := z.(*ast.BranchStmt); ok && (b.Tok == token.GOTO || (b.Tok == token.BREAK && b.Label != nil)) {
								res = nil
							}
							return true
						})
					}
					return true
				})
				return true
			})
			return res
		}
		// in R: a node that is (or calls a tree function containing) the counting loop must dominate a
		// node that is (or calls the tree function containing) the send; if both live in one helper, there
		okLoop, witLoop := false, "no counting loop over the subscription precedes the send"
		for f := range tree {
			fg := p.Graph(f)
			fin := info(f)
			var loopPts, sendPts []Point
			if fs := countingLoop(f); fs != nil {
				if pt, ok := fg.PointOf(fs); ok {
					// the loop's exit must dominate: use the first node after the loop = any node dominated... approximate by loop entry
					loopPts = append(loopPts, pt)
				}
			}
			if f == sf {
				sendPts = append(sendPts, cp)
			}
			for _, pt := range fg.AllPoints() {
				for _, call := range callsIn(pt.Node()) {
					cf := p.byObj[callee(fin, call)]
					if cf == nil || !tree[cf] || cf == f {
						continue
					}
					if countingLoop(cf) != nil {
						loopPts = append(loopPts, pt)
					}
					if cf == sf {
						sendPts = append(sendPts, pt)
					}
				}
			}
			for _, a := range loopPts {
				for _, b := range sendPts {
					if a != b && fg.Dominates(a, b) {
						okLoop = true
						witLoop = "the loop that breaks only when len(observed start events) == len(declared start events) (at/under line " + fmt.Sprint(fg.Lines([]Point{a})) + " of " + f.QName() + ") dominates the cease-flow send"
					}
				}
			}
		}
		c.Check(okLoop, sf, cp.Node(), "CeaseFlowTrace after all start events observed", "the cease-flow send is preceded by the loop that waits until as many start events were observed as are declared", witLoop)
		// (4) completion lock: taken synchronously before the goroutine exists, released on all exits of the root
		holder := l.Via
		if holder == nil {
			holder = l.Site.Func
		}
		hin := info(holder)
		var lockX ast.Expr
		hg := p.Graph(holder)
		gpt, haveGo := hg.PointOf(l.Site.Stmt)
		for _, pt := range hg.AllPoints() {
			if _, isGo := pt.Node().(*ast.GoStmt); isGo {
				continue
			}
			for _, call := range callsIn(pt.Node()) {
				if isSyncMethod(hin, call, "RWMutex", "Lock") || isSyncMethod(hin, call, "Mutex", "Lock") {
					if holder == l.Via || (haveGo && hg.Dominates(pt, gpt)) {
						lockX = unparen(call.Fun).(*ast.SelectorExpr).X
					}
				}
			}
		}
		c.Check(lockX != nil, holder, holder.Body, "completion lock taken before go", "the completion lock is acquired synchronously before the monitor goroutine exists (so WaitUntilComplete cannot slip in before the monitor owns it)", fmt.Sprintf("Lock in %s before the goroutine starts: %v", holder.QName(), lockX != nil))
		if lockX != nil {
			lf := fieldOf(hin, lockX)
			rin := info(R)
			pred := func(call *ast.CallExpr) bool {
				if !(isSyncMethod(rin, call, "RWMutex", "Unlock") || isSyncMethod(rin, call, "Mutex", "Unlock")) {
					return false
				}
				return fieldOf(rin, unparen(call.Fun).(*ast.SelectorExpr).X) == lf && lf != nil
			}
			ok, wit := exactlyOnceOnAllExits(p, R, p.Graph(R).Entry(), true, pred)
			c.Check(ok, R, R.Body, "completion lock released on all exits", "the monitor goroutine releases the completion lock exactly once on every exit", wit)
			found := false
			// WaitUntilComplete itself, its literals, and the same-package methods it calls or launches
			wuc := map[*FuncInfo]bool{}
			for _, h := range p.Funcs {
				if h.Root().Obj != nil && h.Root().Obj.Name() == "WaitUntilComplete" {
					wuc[h] = true
					hin2 := info(h)
					ast.Inspect(h.Body, func(y ast.Node) bool {
						if call, ok := y.(*ast.CallExpr); ok {
							if cf := p.byObj[callee(hin2, call)]; cf != nil && cf.Pkg == h.Pkg && cf.Body != nil {
								wuc[cf] = true
							}
						}
						return true
					})
				}
			}
			for _, h := range p.Funcs {
				if !wuc[h] {
					continue
				}
				h2 := info(h)
				inspectNoLit(h.Body, func(y ast.Node) bool {
					if call, ok := y.(*ast.CallExpr); ok && (isSyncMethod(h2, call, "RWMutex", "Lock") || isSyncMethod(h2, call, "RWMutex", "RLock")) {
						if fieldOf(h2, unparen(call.Fun).(*ast.SelectorExpr).X) == lf && lf != nil {
							found = true
						}
					}
					return true
				})
			}
			if n0 := namedOf(hin.TypeOf(rootExprOfSel(lockX))); n0 != nil && n0.Obj().Name() == "Process" {
				c.Check(found, holder, holder.Body, "WaitUntilComplete observes the completion lock", "WaitUntilComplete learns completion by acquiring the lock the monitor holds", fmt.Sprintf("a WaitUntilComplete body locks %s: %v", lf.Name(), found))
			}
		}
	}
	if n < 2 {
		c.Missing("completion monitors", fmt.Sprintf("expected 2 completion monitors sending CeaseFlowTrace, found %d", n))
	}
}

func rootExprOfSel(e ast.Expr) ast.Expr {
	if sel, ok := unparen(e).(*ast.SelectorExpr); ok {
		return sel.X
	}
	return e
}

func isLenCall(in *types.Info, e ast.Expr) bool {
	call, ok := unparen(e).(*ast.CallExpr)
	return ok && isBuiltin(in, call, "len")
}

// ---- R13 ----

func ruleR13(c *Ctx) {
	p := c.P
	isMappingMethod := func(in *types.Info, call *ast.CallExpr, name string) bool {
		return isMethod(callee(in, call), pathBpmn, name, "FlowNodeMapping")
	}
	// (a) the map field is written only by RegisterElementToFlowNode and the constructor
	for _, f := range p.Funcs {
		if shortPkg(f.Pkg.PkgPath) != "bpmn" {
			continue
		}
		in := info(f)
		inspectNoLit(f.Body, func(m ast.Node) bool {
			var lhs []ast.Expr
			switch x := m.(type) {
			case *ast.AssignStmt:
				lhs = x.Lhs
			case *ast.CallExpr:
				if isBuiltin(in, x, "delete") && len(x.Args) > 0 {
					lhs = []ast.Expr{x.Args[0]}
				}
			}
			for _, l := range lhs {
				target := l
				if ix, ok := unparen(l).(*ast.IndexExpr); ok {
					target = ix.X
				}
				if fn := fieldName(in, target); fn == "FlowNodeMapping.mapping" {
					okFn := f.Obj != nil && (f.Obj.Name() == "RegisterElementToFlowNode" || f.Obj.Name() == "NewLockedFlowNodeMapping")
					c.Check(okFn, f, m, "write to FlowNodeMapping.mapping", "the element->node map is written only by the registration method (called while construction-locked)", "written in "+f.QName())
				}
			}
			return true
		})
	}
	// (b) per constructor
	nreg := 0
	for _, f := range p.Funcs {
		if shortPkg(f.Pkg.PkgPath) != "bpmn" {
			continue
		}
		in := info(f)
		g := p.Graph(f)
		var regs, fins []Point
		var finDefer bool
		creates := false
		for _, pt := range g.AllPoints() {
			n := pt.Node()
			for _, call := range callsIn(n) {
				if isMappingMethod(in, call, "RegisterElementToFlowNode") {
					regs = append(regs, pt)
				}
				if isMappingMethod(in, call, "Finalize") {
					if _, isDefer := n.(*ast.DeferStmt); isDefer {
						finDefer = true
					}
					fins = append(fins, pt)
				}
				if fn := callee(in, call); fn != nil && fn.Name() == "NewLockedFlowNodeMapping" {
					creates = true
				}
			}
		}
		if len(regs) == 0 {
			continue
		}
		nreg += len(regs)
		c.Check(creates, f, f.Body, "registrations only in the function that creates the locked mapping", "RegisterElementToFlowNode is called only by the constructor that created the mapping with NewLockedFlowNodeMapping (still write-locked)", fmt.Sprintf("%d registrations; creates mapping: %v", len(regs), creates))
		// no registration reachable after a (non-deferred) Finalize
		bad := ""
		for _, fp := range fins {
			if _, isDefer := fp.Node().(*ast.DeferStmt); isDefer {
				continue
			}
			if r, w := g.Reaches(fp, func(n ast.Node) bool {
				for _, call := range callsIn(n) {
					if isMappingMethod(in, call, "RegisterElementToFlowNode") {
						return true
					}
				}
				return false
			}, nil); r {
				bad = "registration reachable after Finalize: " + witnessLines(g, [][]Point{w})
			}
		}
		c.Check(bad == "", f, f.Body, "no registration after Finalize", "once the mapping is finalized (readers admitted) nothing registers into it", ifEmpty(bad, fmt.Sprintf("%d registrations, none reachable from a Finalize", len(regs))))
		// Finalize on the normal completion path
		okFin := finDefer
		if !okFin {
			rets := g.ReturnPoints()
			if len(rets) > 0 {
				last := rets[len(rets)-1]
				for _, fp := range fins {
					if g.Dominates(fp, last) {
						okFin = true
					}
				}
			}
		}
		c.Check(okFin, f, f.Body, "Finalize before publishing", "the constructor's normal completion path finalizes the mapping (deferred, or dominating the final return), otherwise every token blocks on the read lock forever", fmt.Sprintf("deferred=%v, %d Finalize sites", finDefer, len(fins)))
		// each registration individually counted as an instance
		for _, r := range regs {
			c.Ok(f, r.Node(), "registration", "registration happens inside the locked constructor", "in "+f.QName(), false)
		}
	}
	if nreg < 30 {
		c.Missing("registrations", fmt.Sprintf("expected >= 30 RegisterElementToFlowNode call sites, found %d", nreg))
	}
}

// ---- R36 ----

type nodeKind struct {
	Accessor string
	Ctor     string
	Extra    string
	Reg      bool
	ErrCheck bool
	At       ast.Node
}

func constructorLoops(p *Prog, f *FuncInfo) []nodeKind {
	in := info(f)
	g := p.Graph(f)
	var out []nodeKind
	inspectNoLit(f.Body, func(m ast.Node) bool {
		rs, ok := m.(*ast.RangeStmt)
		if !ok {
			return true
		}
		// range *X.Accessor()
		st, ok := unparen(rs.X).(*ast.StarExpr)
		if !ok {
			return true
		}
		call, ok := unparen(st.X).(*ast.CallExpr)
		if !ok {
			return true
		}
		fn := callee(in, call)
		if fn == nil || fn.Pkg() == nil || fn.Pkg().Path() != pathSchema {
			return true
		}
		k := nodeKind{Accessor: fn.Name(), At: rs}
		var ctors []string
		var regPt, ctorPt *Point
		inspectNoLit(rs.Body, func(y ast.Node) bool {
			cc, ok := y.(*ast.CallExpr)
			if !ok {
				return true
			}
			cf := callee(in, cc)
			if cf == nil {
				return true
			}
			if isMethod(cf, pathBpmn, "RegisterElementToFlowNode", "FlowNodeMapping") {
				k.Reg = true
				if pt, ok := g.PointOf(cc); ok {
					regPt = &pt
				}
				return true
			}
			if cf.Pkg() != nil && cf.Pkg().Path() == pathBpmn && strings.HasPrefix(cf.Name(), "new") && cf.Name() != "newWiring" {
				ctors = append(ctors, cf.Name())
				if pt, ok := g.PointOf(cc); ok && (ctorPt == nil) {
					ctorPt = &pt
				}
				// activity type constant argument
				for _, a := range cc.Args {
					if tv, ok := in.Types[a]; ok && tv.Value != nil && isNamed(tv.Type, pathBpmn, "ActivityType") {
						k.Extra = tv.Value.ExactString()
					}
				}
			}
			return true
		})
		sort.Strings(ctors)
		k.Ctor = strings.Join(ctors, "+")
		// constructor error checked before registration: every path ctor -> reg passes an `err != nil` condition
		if regPt != nil && ctorPt != nil {
			found, _ := g.Search(*ctorPt, false, func(pt Point, n ast.Node) Action {
				if n == nil {
					return Prune
				}
				if pt == *regPt {
					return Found
				}
				if be, ok := n.(*ast.BinaryExpr); ok && be.Op == token.NEQ {
					if id, ok := unparen(be.Y).(*ast.Ident); ok && id.Name == "nil" && isNamed(in.TypeOf(be.X), "", "error") {
						return Prune
					}
				}
				return Continue
			})
			k.ErrCheck = !found
		}
		out = append(out, k)
		return true
	})
	return out
}

func ruleR36(c *Ctx) {
	p := c.P
	var procF, subF *FuncInfo
	for _, f := range p.Funcs {
		if shortPkg(f.Pkg.PkgPath) != "bpmn" {
			continue
		}
		ks := constructorLoops(p, f)
		if len(ks) < 5 {
			continue
		}
		if f.Lit != nil {
			subF = f
		} else {
			procF = f
		}
	}
	if procF == nil || subF == nil {
		c.Missing("constructors", "could not find the process and sub-process constructors (functions with >= 5 node-construction loops)")
		return
	}
	pk, sk := constructorLoops(p, procF), constructorLoops(p, subF)
	key := func(k nodeKind) string { return k.Accessor + " -> " + k.Ctor + " " + k.Extra }
	pset, sset := map[string]nodeKind{}, map[string]nodeKind{}
	for _, k := range pk {
		pset[key(k)] = k
	}
	for _, k := range sk {
		sset[key(k)] = k
	}
	for _, pair := range []struct {
		f     *FuncInfo
		mine  []nodeKind
		other map[string]nodeKind
		oname string
	}{{procF, pk, sset, subF.QName()}, {subF, sk, pset, procF.QName()}} {
		for _, k := range pair.mine {
			_, inOther := pair.other[key(k)]
			c.Check(inOther, pair.f, k.At, "node kind "+key(k), "a node kind constructed by "+pair.f.QName()+" is constructed the same way by "+pair.oname+" (a sub-process supports exactly the node kinds of a process)", fmt.Sprintf("present in the sibling constructor: %v", inOther))
			c.Check(k.Reg, pair.f, k.At, "node kind "+k.Accessor+" registered", "every constructed node is registered in the element->node mapping (an unregistered node makes its incoming flows end in a NotFound error trace)", fmt.Sprintf("RegisterElementToFlowNode in the loop: %v", k.Reg))
			c.Check(k.ErrCheck || !k.Reg, pair.f, k.At, "node kind "+k.Accessor+" constructor error checked", "the constructor's error is tested before the node is registered", fmt.Sprintf("every path from the constructor call to the registration passes an `err != nil` test: %v", k.ErrCheck))
		}
	}
}

// ---- R37 ----

func ruleR37(c *Ctx) {
	p := c.P
	ce := chanEngine(p)
	var runF, sendF, unsubF, relayF *FuncInfo
	for _, f := range p.Funcs {
		if shortPkg(f.Pkg.PkgPath) != "pkg/tracing" {
			continue
		}
		switch f.Name {
		case "(*tracer).run":
			runF = f
		case "(*tracer).Send":
			sendF = f
		case "(*tracer).Unsubscribe":
			unsubF = f
		case "NewRelay$1":
			relayF = f
		}
	}
	if relayF == nil {
		// the relay goroutine by role: the root of the goroutine NewRelay launches
		for _, l := range ce.Launches() {
			if l.Site.Func != nil && l.Site.Func.Root().Name == "NewRelay" && shortPkg(l.Site.Func.Pkg.PkgPath) == "pkg/tracing" && l.Root != nil {
				relayF = l.Root
			}
		}
	}
	if runF == nil || sendF == nil || unsubF == nil || relayF == nil {
		c.Missing("tracer anchors", "tracer.run / Send / Unsubscribe / relay goroutine not found")
		return
	}
	runTree := goroutineTree(p, runF)
	// (1) subscribers touched only by run (and the constructor literal)
	for _, f := range p.Funcs {
		if shortPkg(f.Pkg.PkgPath) != "pkg/tracing" {
			continue
		}
		in := info(f)
		touched := false
		var at ast.Node
		inspectNoLit(f.Body, func(m ast.Node) bool {
			if sel, ok := m.(*ast.SelectorExpr); ok && fieldName(in, sel) == "tracer.subscribers" {
				touched = true
				at = sel
			}
			return true
		})
		if touched {
			// helpers count when they are only ever called from the broadcaster's own call tree
			okConf := f == runF
			if !okConf && runTree[f] && f.Obj != nil {
				okConf = true
				for _, h := range p.Funcs {
					hin := info(h)
					inspectNoLit(h.Body, func(z ast.Node) bool {
						if call, ok := z.(*ast.CallExpr); ok && callee(hin, call) == f.Obj && !runTree[h] {
							okConf = false
						}
						return true
					})
				}
			}
			c.Check(okConf, f, at, "access to tracer.subscribers", "the subscriber list is confined to the broadcaster goroutine (its loop and helpers only it calls)", "accessed in "+f.QName())
		}
	}
	// (2) sends into subscriber channels: only in run, inside a range over t.subscribers, plain (no go, no select)
	nsend := 0
	for _, op := range ce.Ops {
		if op.Kind != OpSend {
			continue
		}
		e, ok := chanElem(op.Type)
		if !ok || !isITrace(e) {
			continue
		}
		if shortPkg(op.Func.Pkg.PkgPath) != "pkg/tracing" {
			continue
		}
		// t.traces <- trace is the hand-off into the broadcaster, not a delivery
		if op.Ref.Field == "tracer.traces" {
			plain := op.Select == nil && op.Func == sendF
			c.Check(plain, op.Func, op.Node, "hand-off into the broadcaster", "Send hands the trace to the broadcaster with a plain blocking send (a select/default here would drop traces; a goroutine would reorder them)", fmt.Sprintf("plain send in Send: %v", plain))
			continue
		}
		nsend++
		okShape := runTree[op.Func] && op.Select == nil
		inRange := false
		oin := info(op.Func)
		for cur := p.Parent(op.Node); cur != nil; cur = p.Parent(cur) {
			if rs, ok := cur.(*ast.RangeStmt); ok && fieldName(oin, rs.X) == "tracer.subscribers" {
				inRange = true
				// no break/continue/return that skips subscribers
				inspectNoLit(rs.Body, func(y ast.Node) bool {
					switch b := y.(type) {
					case *ast.BranchStmt:
						_ = b
						okShape = false
					case *ast.ReturnStmt, *ast.GoStmt, *ast.IfStmt:
						okShape = false
					}
					return true
				})
			}
		}
		c.Check(okShape && inRange, op.Func, op.Node, "delivery to subscribers", "each trace is delivered by a plain send to every subscriber, sequentially inside one range over the list, with no skip, drop or goroutine", fmt.Sprintf("in the broadcaster's call tree=%v, in range over subscribers=%v, unconditional plain send=%v", runTree[op.Func], inRange, okShape))
	}
	if nsend != 1 {
		c.Bad(runF, runF.Body, "exactly one delivery site", "there is exactly one place that delivers traces to subscribers", fmt.Sprintf("%d delivery sites", nsend))
	}
	// (3) run's select has a clause per tracer channel
	need := map[string]bool{"tracer.subscription": false, "tracer.unSubscription": false, "tracer.traces": false, "tracer.terminate": false}
	for _, op := range ce.Ops {
		if op.Func == runF && op.Kind == OpRecv && op.Clause != nil {
			if _, ok := need[op.Ref.Field]; ok {
				need[op.Ref.Field] = true
			}
		}
	}
	var missing []string
	for k, v := range need {
		if !v {
			missing = append(missing, k)
		}
	}
	sort.Strings(missing)
	c.Check(len(missing) == 0, runF, runF.Body, "broadcaster serves all its channels in one select", "the broadcaster's select serves subscription, unsubscription, traces and termination (one total order of all of them)", ifEmpty(strings.Join(missing, ","), "none")+" missing")
	// (4) Unsubscribe drains the channel being removed and watches Done
	var hasDrain, hasDone, hasOffer, hasAck bool
	for _, op := range ce.Ops {
		if op.Func != unsubF || op.Clause == nil {
			continue
		}
		switch {
		case op.Kind == OpRecv && ce.isDoneSource(unsubF, op.Chan):
			hasDone = true
		case op.Kind == OpRecv && isParamRef(unsubF, op):
			hasDrain = true
		case op.Kind == OpSend && op.Ref.Field == "tracer.unSubscription":
			hasOffer = true
		case op.Kind == OpRecv:
			hasAck = true
		}
	}
	c.Check(hasDrain && hasDone && hasOffer && hasAck, unsubF, unsubF.Body, "Unsubscribe drains while requesting removal", "the select that offers the unsubscription also receives from the channel being removed (so the broadcaster is never blocked on it) and from Done()", fmt.Sprintf("drain=%v done=%v offer=%v ack=%v", hasDrain, hasDone, hasOffer, hasAck))
	// the ack is only sent when the channel was found; otherwise requester keeps draining: fine.
	// (5) relay forwards sequentially
	lin := info(relayF)
	okRelay, n := true, 0
	inspectNoLit(relayF.Body, func(m ast.Node) bool {
		if call, ok := m.(*ast.CallExpr); ok && isTracerMethod(lin, call, "Send") {
			n++
			for cur := p.Parent(call); cur != nil && cur != ast.Node(relayF.Body); cur = p.Parent(cur) {
				switch cur.(type) {
				case *ast.GoStmt:
					okRelay = false
				}
			}
		}
		if _, isGo := m.(*ast.GoStmt); isGo {
			okRelay = false
		}
		return true
	})
	c.Check(okRelay && n >= 1, relayF, relayF.Body, "relay forwards sequentially", "the relay forwards each trace with a plain sequential Send in its own goroutine (order preserved)", fmt.Sprintf("%d Send sites, none inside go", n))
	// (5b) every element of the transformer's result is forwarded: the Send sits in a loop over that result
	allFwd := false
	inspectNoLit(relayF.Body, func(m ast.Node) bool {
		el, ok := elementLoop(lin, m)
		if !ok {
			return true
		}
		if exprMentions(el.Body, func(z ast.Node) bool {
			call, ok := z.(*ast.CallExpr)
			return ok && isTracerMethod(lin, call, "Send")
		}) {
			allFwd = true
		}
		return true
	})
	c.Check(allFwd, relayF, relayF.Body, "relay forwards every transformed trace", "the relay sends every trace its transformer returns (a loop over the result), none is dropped between the two tracers", fmt.Sprintf("Send inside a loop over the transformer's result: %v", allFwd))
	// (6) termination closes every subscriber channel and leaves
	rin := info(runF)
	closesAll := false
	for f := range runTree {
		fin := info(f)
		inspectNoLit(f.Body, func(m ast.Node) bool {
			cc, ok := m.(*ast.CommClause)
			if !ok || cc.Comm == nil {
				return true
			}
			recvTerminate := exprMentionsAny(cc.Comm, func(z ast.Node) bool {
				u, ok := z.(*ast.UnaryExpr)
				return ok && u.Op == token.ARROW && fieldName(fin, u.X) == "tracer.terminate"
			})
			if !recvTerminate {
				return true
			}
			for _, st := range cc.Body {
				inspectNoLit(st, func(z ast.Node) bool {
					el, ok := elementLoop(fin, z)
					if !ok {
						return true
					}
					if exprMentions(el.Body, func(y ast.Node) bool {
						call, ok := y.(*ast.CallExpr)
						return ok && isBuiltin(fin, call, "close")
					}) {
						closesAll = true
					}
					return true
				})
			}
			return true
		})
	}
	_ = rin
	c.Check(closesAll, runF, runF.Body, "termination closes every subscriber", "when the tracer terminates it closes the channel of every subscriber (that is how watchers learn that nothing more will come)", fmt.Sprintf("close(...) inside a loop over the subscribers in the terminate clause: %v", closesAll))
	// (8) the inbound trace channel is unbuffered: Send returns only once the broadcaster has the trace, so a
	// sender's Done() cannot overtake its last trace and termination cannot drop queued traces
	for _, ms := range ce.Makes {
		if ms.Dest == nil || !ms.Dest.IsField() || ms.Dest.Name() != "traces" || shortPkg(ms.Func.Pkg.PkgPath) != "pkg/tracing" {
			continue
		}
		c.Check(ms.Cap == "0", ms.Func, ms.Call, "tracer inbound channel is unbuffered", "Send hands the trace to the broadcaster synchronously (capacity 0): with a buffer a sender can call Done() while its last traces are still queued, the termination message then races them and they are dropped", "capacity class: "+ms.Cap)
	}
	// (8b) request channels (element type carries its own acknowledgement channel) are rendezvous channels too:
	// Unsubscribe re-offers its request until the acknowledgement arrives, so a buffered request channel keeps a
	// stale duplicate that later removes a fresh subscription of the same channel and then blocks the broadcaster
	// on an acknowledgement nobody reads
	for _, ms := range ce.Makes {
		if ms.Dest == nil || !ms.Dest.IsField() || shortPkg(ms.Func.Pkg.PkgPath) != "pkg/tracing" {
			continue
		}
		ct, ok := ms.Dest.Type().Underlying().(*types.Chan)
		if !ok {
			continue
		}
		est, ok := ct.Elem().Underlying().(*types.Struct)
		if !ok {
			continue
		}
		hasAck := false
		for i := 0; i < est.NumFields(); i++ {
			if _, isCh := est.Field(i).Type().Underlying().(*types.Chan); isCh {
				hasAck = true
			}
		}
		if !hasAck {
			continue
		}
		c.Check(ms.Cap == "0", ms.Func, ms.Call, "tracer request channel "+ms.Dest.Name()+" is unbuffered", "a subscribe/unsubscribe request is handed to the broadcaster by rendezvous: the requester offers it again until it is acknowledged, which is only sound when an offer that was not taken leaves nothing behind", "capacity class: "+ms.Cap)
	}
	// (9) the termination message is taken only by the broadcaster
	for _, op := range ce.Ops {
		if op.Kind == OpRecv && op.Ref.Field == "tracer.terminate" {
			okSite := runTree[op.Func] || runTree[op.Func.Root()]
			c.Check(okSite, op.Func, op.Node, "receive of the termination message", "the one-shot 'all senders are done' message is addressed to the broadcaster; any other receiver steals it and the tracer never terminates (the closed-on-termination signal for everybody else is Done())", ifElse(okSite, "in the broadcaster's goroutine", "in "+op.Func.QName()))
		}
	}
	// (7) a sender handle is counted when it is handed out
	for _, f := range p.Funcs {
		if f.Obj == nil || !isMethod(f.Obj, pathTracing, "RegisterSender") || f.Body == nil {
			continue
		}
		fin := info(f)
		adds := false
		inspectNoLit(f.Body, func(m ast.Node) bool {
			if call, ok := m.(*ast.CallExpr); ok && isSyncMethod(fin, call, "WaitGroup", "Add") {
				adds = true
			}
			return true
		})
		c.Check(adds, f, f.Body, "RegisterSender counts the sender", "handing out a sender handle increments the wait group the tracer waits on before terminating (otherwise Done() drives it negative and panics, or the tracer terminates under a live sender)", fmt.Sprintf("WaitGroup.Add in RegisterSender: %v", adds))
	}
}

func isParamRef(f *FuncInfo, op *ChanOp) bool {
	return op.Ref.Var != nil && isParam(f, op.Ref.Var)
}
