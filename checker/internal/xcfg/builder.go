// Copyright 2016 The Go Authors. All rights reserved.
// Use of this source code is governed by a BSD-style
// license that can be found in the LICENSE file.

package xcfg

// This file implements the CFG construction pass.

import (
	"fmt"
	"go/ast"
	"go/token"
)

type builder struct {
	cfg       *CFG
	mayReturn func(*ast.CallExpr) bool
	current   *Block
	lblocks   map[string]*lblock // labeled blocks
	targets   *targets           // linked stack of branch targets
}

func (b *builder) stmt(_s ast.Stmt) {
	// The label of the current statement.  If non-nil, its _goto
	// target is always set; its _break and _continue are set only
	// within the body of switch/typeswitch/select/for/range.
	// It is effectively an additional default-nil parameter of stmt().
	var label *lblock
start:
	switch s := _s.(type) {
	case *ast.BadStmt,
		*ast.SendStmt,
		*ast.IncDecStmt,
		*ast.GoStmt,
		*ast.DeferStmt,
		*ast.EmptyStmt,
		*ast.AssignStmt:
		// No effect on control flow.
		b.add(s)

	case *ast.ExprStmt:
		b.add(s)
		if call, ok := s.X.(*ast.CallExpr); ok && !b.mayReturn(call) {
			// Calls to panic, os.Exit, etc, never return.
			b.current = b.newBlock(KindUnreachable, s)
		}

	case *ast.DeclStmt:
		// Treat each var ValueSpec as a separate statement.
		d := s.Decl.(*ast.GenDecl)
		if d.Tok == token.VAR {
			for _, spec := range d.Specs {
				if spec, ok := spec.(*ast.ValueSpec); ok {
					b.add(spec)
				}
			}
		}

	case *ast.LabeledStmt:
		label = b.labeledBlock(s.Label, s)
		b.jump(label._goto)
		b.current = label._goto
		_s = s.Stmt
		goto start // effectively: tailcall stmt(g, s.Stmt, label)

	case *ast.ReturnStmt:
		b.add(s)
		b.current = b.newBlock(KindUnreachable, s)

	case *ast.BranchStmt:
		b.branchStmt(s)

	case *ast.BlockStmt:
		b.stmtList(s.List)

	case *ast.IfStmt:
		if s.Init != nil {
			b.stmt(s.Init)
		}
		then := b.newBlock(KindIfThen, s)
		done := b.newBlock(KindIfDone, s)
		_else := done
		if s.Else != nil {
			_else = b.newBlock(KindIfElse, s)
		}
		b.add(s.Cond)
		b.ifelse(then, _else)
		b.current = then
		b.stmt(s.Body)
		b.jump(done)

		if s.Else != nil {
			b.current = _else
			b.stmt(s.Else)
			b.jump(done)
		}

		b.current = done

	case *ast.SwitchStmt:
		b.switchStmt(s, label)

	case *ast.TypeSwitchStmt:
		b.typeSwitchStmt(s, label)

	case *ast.SelectStmt:
		b.selectStmt(s, label)

	case *ast.ForStmt:
		b.forStmt(s, label)

	case *ast.RangeStmt:
		b.rangeStmt(s, label)

	default:
		panic(fmt.Sprintf("unexpected statement kind: %T", s))
	}
}

func (b *builder) stmtList(list []ast.Stmt) {
	for _, s := range list {
		b.stmt(s)
	}
}

func (b *builder) branchStmt(s *ast.BranchStmt) {
	var block *Block
	switch s.Tok {
	case token.BREAK:
		if s.Label != nil {
			if lb := b.labeledBlock(s.Label, nil); lb != nil {
				block = lb._break
			}
		} else {
			for t := b.targets; t != nil && block == nil; t = t.tail {
				block = t._break
			}
		}

	case token.CONTINUE:
		if s.Label != nil {
			if lb := b.labeledBlock(s.Label, nil); lb != nil {
				block = lb._continue
			}
		} else {
			for t := b.targets; t != nil && block == nil; t = t.tail {
				block = t._continue
			}
		}

	case token.FALLTHROUGH:
		for t := b.targets; t != nil && block == nil; t = t.tail {
			block = t._fallthrough
		}

	case token.GOTO:
		if s.Label != nil {
			block = b.labeledBlock(s.Label, nil)._goto
		}
	}
	if block == nil { // ill-typed (e.g. undefined label)
		block = b.newBlock(KindUnreachable, s)
	}
	b.jump(block)
	b.current = b.newBlock(KindUnreachable, s)
}

func (b *builder) switchStmt(s *ast.SwitchStmt, label *lblock) {
	if s.Init != nil {
		b.stmt(s.Init)
	}
	if s.Tag != nil {
		b.add(s.Tag)
	}
	done := b.newBlock(KindSwitchDone, s)
	if label != nil {
		label._break = done
	}
	// We pull the default case (if present) down to the end.
	// But each fallthrough label must point to the next
	// body block in source order, so we preallocate a
	// body block (fallthru) for the next case.
	// Unfortunately this makes for a confusing block order.
	var defaultBody *[]ast.Stmt
	var defaultFallthrough *Block
	var fallthru, defaultBlock *Block
	ncases := len(s.Body.List)
	for i, clause := range s.Body.List {
		body := fallthru
		if body == nil {
			body = b.newBlock(KindSwitchCaseBody, clause) // first case only
		}

		// Preallocate body block for the next case.
		fallthru = done
		if i+1 < ncases {
			fallthru = b.newBlock(KindSwitchCaseBody, s.Body.List[i+1])
		}

		cc := clause.(*ast.CaseClause)
		if cc.List == nil {
			// Default case.
			defaultBody = &cc.Body
			defaultFallthrough = fallthru
			defaultBlock = body
			continue
		}

		var nextCond *Block
		for _, cond := range cc.List {
			nextCond = b.newBlock(KindSwitchNextCase, cc)
			b.add(cond) // one half of the tag==cond condition
			b.ifelse(body, nextCond)
			b.current = nextCond
		}
		b.current = body
		b.targets = &targets{
			tail:         b.targets,
			_break:       done,
			_fallthrough: fallthru,
		}
		b.stmtList(cc.Body)
		b.targets = b.targets.tail
		b.jump(done)
		b.current = nextCond
	}
	if defaultBlock != nil {
		b.jump(defaultBlock)
		b.current = defaultBlock
		b.targets = &targets{
			tail:         b.targets,
			_break:       done,
			_fallthrough: defaultFallthrough,
		}
		b.stmtList(*defaultBody)
		b.targets = b.targets.tail
	}
	b.jump(done)
	b.current = done
}

func (b *builder) typeSwitchStmt(s *ast.TypeSwitchStmt, label *lblock) {
	if s.Init != nil {
		b.stmt(s.Init)
	}
	if s.Assign != nil {
		b.add(s.Assign)
	}

	done := b.newBlock(KindSwitchDone, s)
	if label != nil {
		label._break = done
	}
	var default_ *ast.CaseClause
	for _, clause := range s.Body.List {
		cc := clause.(*ast.CaseClause)
		if cc.List == nil {
			default_ = cc
			continue
		}
		body := b.newBlock(KindSwitchCaseBody, cc)
		var next *Block
		for _, casetype := range cc.List {
			next = b.newBlock(KindSwitchNextCase, cc)
			// casetype is a type, so don't call b.add(casetype).
			// This block logically contains a type assertion,
			// x.(casetype), but it's unclear how to represent x.
			_ = casetype
			b.ifelse(body, next)
			b.current = next
		}
		b.current = body
		b.typeCaseBody(cc, done)
		b.current = next
	}
	if default_ != nil {
		b.typeCaseBody(default_, done)
	} else {
		b.jump(done)
	}
	b.current = done
}

func (b *builder) typeCaseBody(cc *ast.CaseClause, done *Block) {
	b.targets = &targets{
		tail:   b.targets,
		_break: done,
	}
	b.stmtList(cc.Body)
	b.targets = b.targets.tail
	b.jump(done)
}

func (b *builder) selectStmt(s *ast.SelectStmt, label *lblock) {
	// MODIFIED for bpmnlint: the comm statement of each clause is the
	// first node of that clause's body block (it is NOT emitted before the
	// branch), the default clause gets its own body block, and a select
	// without default ends in a KindSelectBlocked block without successors
	// (the goroutine parks), which is not a function exit.
	done := b.newBlock(KindSelectDone, s)
	if label != nil {
		label._break = done
	}

	var defaultClause *ast.CommClause
	for _, cc := range s.Body.List {
		clause := cc.(*ast.CommClause)
		if clause.Comm == nil {
			defaultClause = clause
			continue
		}
		body := b.newBlock(KindSelectCaseBody, clause)
		next := b.newBlock(KindSelectAfterCase, clause)
		b.ifelse(body, next)
		b.current = body
		b.targets = &targets{
			tail:   b.targets,
			_break: done,
		}
		b.add(clause.Comm)
		b.stmtList(clause.Body)
		b.targets = b.targets.tail
		b.jump(done)
		b.current = next
	}
	if defaultClause != nil {
		body := b.newBlock(KindSelectCaseBody, defaultClause)
		b.jump(body)
		b.current = body
		b.targets = &targets{
			tail:   b.targets,
			_break: done,
		}
		b.stmtList(defaultClause.Body)
		b.targets = b.targets.tail
		b.jump(done)
	} else {
		blocked := b.newBlock(KindSelectBlocked, s)
		b.jump(blocked)
	}
	b.current = done
}

func (b *builder) forStmt(s *ast.ForStmt, label *lblock) {
	//	...init...
	//      jump loop
	// loop:
	//      if cond goto body else done
	// body:
	//      ...body...
	//      jump post
	// post:				 (target of continue)
	//      ...post...
	//      jump loop
	// done:                                 (target of break)
	if s.Init != nil {
		b.stmt(s.Init)
	}
	body := b.newBlock(KindForBody, s)
	done := b.newBlock(KindForDone, s) // target of 'break'
	loop := body                       // target of back-edge
	if s.Cond != nil {
		loop = b.newBlock(KindForLoop, s)
	}
	cont := loop // target of 'continue'
	if s.Post != nil {
		cont = b.newBlock(KindForPost, s)
	}
	if label != nil {
		label._break = done
		label._continue = cont
	}
	b.jump(loop)
	b.current = loop
	if loop != body {
		b.add(s.Cond)
		b.ifelse(body, done)
		b.current = body
	}
	b.targets = &targets{
		tail:      b.targets,
		_break:    done,
		_continue: cont,
	}
	b.stmt(s.Body)
	b.targets = b.targets.tail
	b.jump(cont)

	if s.Post != nil {
		b.current = cont
		b.stmt(s.Post)
		b.jump(loop) // back-edge
	}
	b.current = done
}

func (b *builder) rangeStmt(s *ast.RangeStmt, label *lblock) {
	b.add(s.X)

	if s.Key != nil {
		b.add(s.Key)
	}
	if s.Value != nil {
		b.add(s.Value)
	}

	//      ...
	// loop:                                   (target of continue)
	// 	if ... goto body else done
	// body:
	//      ...
	// 	jump loop
	// done:                                   (target of break)

	loop := b.newBlock(KindRangeLoop, s)
	b.jump(loop)
	b.current = loop

	body := b.newBlock(KindRangeBody, s)
	done := b.newBlock(KindRangeDone, s)
	b.ifelse(body, done)
	b.current = body

	if label != nil {
		label._break = done
		label._continue = loop
	}
	b.targets = &targets{
		tail:      b.targets,
		_break:    done,
		_continue: loop,
	}
	b.stmt(s.Body)
	b.targets = b.targets.tail
	b.jump(loop) // back-edge
	b.current = done
}

// -------- helpers --------

// Destinations associated with unlabeled for/switch/select stmts.
// We push/pop one of these as we enter/leave each construct and for
// each BranchStmt we scan for the innermost target of the right type.
type targets struct {
	tail         *targets // rest of stack
	_break       *Block
	_continue    *Block
	_fallthrough *Block
}

// Destinations associated with a labeled block.
// We populate these as labels are encountered in forward gotos or
// labeled statements.
type lblock struct {
	_goto     *Block
	_break    *Block
	_continue *Block
}

// labeledBlock returns the branch target associated with the
// specified label, creating it if needed.
func (b *builder) labeledBlock(label *ast.Ident, stmt *ast.LabeledStmt) *lblock {
	lb := b.lblocks[label.Name]
	if lb == nil {
		lb = &lblock{_goto: b.newBlock(KindLabel, nil)}
		if b.lblocks == nil {
			b.lblocks = make(map[string]*lblock)
		}
		b.lblocks[label.Name] = lb
	}
	// Fill in the label later (in case of forward goto).
	// Stmt may be set already if labels are duplicated (ill-typed).
	if stmt != nil && lb._goto.Stmt == nil {
		lb._goto.Stmt = stmt
	}
	return lb
}

// newBlock appends a new unconnected basic block to b.cfg's block
// slice and returns it.
// It does not automatically become the current block.
// comment is an optional string for more readable debugging output.
func (b *builder) newBlock(kind BlockKind, stmt ast.Stmt) *Block {
	g := b.cfg
	block := &Block{
		Index: int32(len(g.Blocks)),
		Kind:  kind,
		Stmt:  stmt,
	}
	block.Succs = block.succs2[:0]
	g.Blocks = append(g.Blocks, block)
	return block
}

func (b *builder) add(n ast.Node) {
	b.current.Nodes = append(b.current.Nodes, n)
}

// jump adds an edge from the current block to the target block,
// and sets b.current to nil.
func (b *builder) jump(target *Block) {
	b.current.Succs = append(b.current.Succs, target)
	b.current = nil
}

// ifelse emits edges from the current block to the t and f blocks,
// and sets b.current to nil.
func (b *builder) ifelse(t, f *Block) {
	b.current.Succs = append(b.current.Succs, t, f)
	b.current = nil
}
