// Copyright 2016 The Go Authors. All rights reserved.
// Use of this source code is governed by a BSD-style
// license that can be found in the LICENSE file.

// Package cfg constructs a simple control-flow graph (CFG) of the
// statements and expressions within a single function.
//
// Use cfg.New to construct the CFG for a function body.
//
// The blocks of the CFG contain all the function's non-control
// statements.  The CFG does not contain control statements such as If,
// Switch, Select, and Branch, but does contain their subexpressions;
// also, each block records the control statement (Block.Stmt) that
// gave rise to it and its relationship (Block.Kind) to that statement.
//
// For example, this source code:
//
//	if x := f(); x != nil {
//		T()
//	} else {
//		F()
//	}
//
// produces this CFG:
//
//	1:  x := f()		Body
//	    x != nil
//	    succs: 2, 3
//	2:  T()			IfThen
//	    succs: 4
//	3:  F()			IfElse
//	    succs: 4
//	4:			IfDone
//
// The CFG does contain Return statements; even implicit returns are
// materialized (at the position of the function's closing brace).
//
// The CFG does not record conditions associated with conditional branch
// edges, nor the short-circuit semantics of the && and || operators,
// nor abnormal control flow caused by panic.  If you need this
// information, use golang.org/x/tools/go/ssa instead.
package xcfg

import (
	"bytes"
	"fmt"
	"go/ast"
	"go/format"
	"go/token"
)

// A CFG represents the control-flow graph of a single function.
//
// The entry point is Blocks[0]; there may be multiple return blocks.
type CFG struct {
	fset   *token.FileSet
	Blocks []*Block // block[0] is entry; order otherwise undefined
}

// A Block represents a basic block: a list of statements and
// expressions that are always evaluated sequentially.
//
// A block may have 0-2 successors: zero for a return block or a block
// that calls a function such as panic that never returns; one for a
// normal (jump) block; and two for a conditional (if) block.
type Block struct {
	Nodes []ast.Node // statements, expressions, and ValueSpecs
	Succs []*Block   // successor nodes in the graph
	Index int32      // index within CFG.Blocks
	Live  bool       // block is reachable from entry
	Kind  BlockKind  // block kind
	Stmt  ast.Stmt   // statement that gave rise to this block (see BlockKind for details)

	succs2 [2]*Block // underlying array for Succs
}

// A BlockKind identifies the purpose of a block.
// It also determines the possible types of its Stmt field.
type BlockKind uint8

const (
	KindInvalid BlockKind = iota // Stmt=nil

	KindUnreachable     // unreachable block after {Branch,Return}Stmt / no-return call ExprStmt
	KindBody            // function body BlockStmt
	KindForBody         // body of ForStmt
	KindForDone         // block after ForStmt
	KindForLoop         // head of ForStmt
	KindForPost         // post condition of ForStmt
	KindIfDone          // block after IfStmt
	KindIfElse          // else block of IfStmt
	KindIfThen          // then block of IfStmt
	KindLabel           // labeled block of BranchStmt (Stmt may be nil for dangling label)
	KindRangeBody       // body of RangeStmt
	KindRangeDone       // block after RangeStmt
	KindRangeLoop       // head of RangeStmt
	KindSelectCaseBody  // body of SelectStmt
	KindSelectDone      // block after SelectStmt
	KindSelectAfterCase // block after a CommClause
	KindSwitchCaseBody  // body of CaseClause
	KindSwitchDone      // block after {Type.}SwitchStmt
	KindSwitchNextCase  // secondary expression of a multi-expression CaseClause
	KindSelectBlocked   // (bpmnlint) select without default: no clause ready, goroutine parks; no successors, not an exit
)

func (kind BlockKind) String() string {
	return [...]string{
		KindInvalid:         "Invalid",
		KindUnreachable:     "Unreachable",
		KindBody:            "Body",
		KindForBody:         "ForBody",
		KindForDone:         "ForDone",
		KindForLoop:         "ForLoop",
		KindForPost:         "ForPost",
		KindIfDone:          "IfDone",
		KindIfElse:          "IfElse",
		KindIfThen:          "IfThen",
		KindLabel:           "Label",
		KindRangeBody:       "RangeBody",
		KindRangeDone:       "RangeDone",
		KindRangeLoop:       "RangeLoop",
		KindSelectCaseBody:  "SelectCaseBody",
		KindSelectDone:      "SelectDone",
		KindSelectAfterCase: "SelectAfterCase",
		KindSwitchCaseBody:  "SwitchCaseBody",
		KindSwitchDone:      "SwitchDone",
		KindSwitchNextCase:  "SwitchNextCase",
		KindSelectBlocked:   "SelectBlocked",
	}[kind]
}

// New returns a new control-flow graph for the specified function body,
// which must be non-nil.
//
// The CFG builder calls mayReturn to determine whether a given function
// call may return.  For example, calls to panic, os.Exit, and log.Fatal
// do not return, so the builder can remove infeasible graph edges
// following such calls.  The builder calls mayReturn only for a
// CallExpr beneath an ExprStmt.
func New(body *ast.BlockStmt, mayReturn func(*ast.CallExpr) bool) *CFG {
	b := builder{
		mayReturn: mayReturn,
		cfg:       new(CFG),
	}
	b.current = b.newBlock(KindBody, body)
	b.stmt(body)

	// Compute liveness (reachability from entry point), breadth-first.
	q := make([]*Block, 0, len(b.cfg.Blocks))
	q = append(q, b.cfg.Blocks[0]) // entry point
	for len(q) > 0 {
		b := q[len(q)-1]
		q = q[:len(q)-1]

		if !b.Live {
			b.Live = true
			q = append(q, b.Succs...)
		}
	}

	// Does control fall off the end of the function's body?
	// Make implicit return explicit.
	if b.current != nil && b.current.Live {
		b.add(&ast.ReturnStmt{
			Return: body.End() - 1,
		})
	}

	return b.cfg
}

func (b *Block) String() string {
	return fmt.Sprintf("block %d (%s)", b.Index, b.comment(nil))
}

func (b *Block) comment(fset *token.FileSet) string {
	s := b.Kind.String()
	if fset != nil && b.Stmt != nil {
		s = fmt.Sprintf("%s@L%d", s, fset.Position(b.Stmt.Pos()).Line)
	}
	return s
}

// Return returns the return statement at the end of this block if present, nil
// otherwise.
//
// When control falls off the end of the function, the ReturnStmt is synthetic
// and its [ast.Node.End] position may be beyond the end of the file.
func (b *Block) Return() (ret *ast.ReturnStmt) {
	if len(b.Nodes) > 0 {
		ret, _ = b.Nodes[len(b.Nodes)-1].(*ast.ReturnStmt)
	}
	return
}

// Format formats the control-flow graph for ease of debugging.
func (g *CFG) Format(fset *token.FileSet) string {
	var buf bytes.Buffer
	for _, b := range g.Blocks {
		fmt.Fprintf(&buf, ".%d: # %s\n", b.Index, b.comment(fset))
		for _, n := range b.Nodes {
			fmt.Fprintf(&buf, "\t%s\n", formatNode(fset, n))
		}
		if len(b.Succs) > 0 {
			fmt.Fprintf(&buf, "\tsuccs:")
			for _, succ := range b.Succs {
				fmt.Fprintf(&buf, " %d", succ.Index)
			}
			buf.WriteByte('\n')
		}
		buf.WriteByte('\n')
	}
	return buf.String()
}

// Dot returns the control-flow graph in the [Dot graph description language].
// Use a command such as 'dot -Tsvg' to render it in a form viewable in a browser.
// This method is provided as a debugging aid; the details of the
// output are unspecified and may change.
//
// [Dot graph description language]: ​​https://en.wikipedia.org/wiki/DOT_(graph_description_language)
func (g *CFG) Dot(fset *token.FileSet) string {
	var buf bytes.Buffer
	buf.WriteString("digraph CFG {\n")
	buf.WriteString("  node [shape=box];\n")
	for _, b := range g.Blocks {
		// node label
		var text bytes.Buffer
		text.WriteString(b.comment(fset))
		for _, n := range b.Nodes {
			fmt.Fprintf(&text, "\n%s", formatNode(fset, n))
		}

		// node and edges
		fmt.Fprintf(&buf, "  n%d [label=%q];\n", b.Index, &text)
		for _, succ := range b.Succs {
			fmt.Fprintf(&buf, "  n%d -> n%d;\n", b.Index, succ.Index)
		}
	}
	buf.WriteString("}\n")
	return buf.String()
}

func formatNode(fset *token.FileSet, n ast.Node) string {
	var buf bytes.Buffer
	format.Node(&buf, fset, n)
	// Indent secondary lines by a tab.
	return string(bytes.Replace(buf.Bytes(), []byte("\n"), []byte("\n\t"), -1))
}
