package main

// Reply discipline: R2 reply-obligation, R3 reply-once / one action per
// parked token, R4 reply-cap, R5 mailbox agreement, R6 exhaustiveness.

import (
	"fmt"
	"go/ast"
	"go/token"
	"go/types"
	"sort"
	"strings"

	"verif/checker/internal/xcfg"
)

func init() {
	register(&Rule{ID: "R2", Title: "reply-obligation: every request taken from a mailbox is answered, parked, delegated or reported on every path", Min: 8, Run: ruleR2})
	register(&Rule{ID: "R3", Title: "reply-once: at most one answer per request; exactly one action per parked token when a join releases", Min: 9, Run: ruleR3})
	register(&Rule{ID: "R4", Title: "reply-cap: reply channels never need a receiver (capacity >= 1)", Min: 8, Run: ruleR4})
	register(&Rule{ID: "R5", Title: "mailbox-agreement: every message type posted into a mailbox has a case in its owner's loop", Min: 9, Run: ruleR5})
	register(&Rule{ID: "R6", Title: "exhaustive: the token interprets every IAction type; enum switches cover every constant", Min: 2, Run: ruleR6})
}

// ---- message types ----

type msgType struct {
	Named  *types.Named
	Field  *types.Var // reply field
	FieldN string
}

// replyMessageTypes: struct types implementing imessage with a reply-channel field.
func replyMessageTypes(p *Prog) []msgType {
	var out []msgType
	pk := p.ByPath[pathBpmn]
	if pk == nil {
		return nil
	}
	scope := pk.Types.Scope()
	for _, name := range scope.Names() {
		tn, ok := scope.Lookup(name).(*types.TypeName)
		if !ok {
			continue
		}
		n, ok := tn.Type().(*types.Named)
		if !ok {
			continue
		}
		st, ok := n.Underlying().(*types.Struct)
		if !ok {
			continue
		}
		if !hasMethod(n, "message") {
			continue
		}
		for i := 0; i < st.NumFields(); i++ {
			if isReplyChan(st.Field(i).Type()) {
				out = append(out, msgType{n, st.Field(i), st.Field(i).Name()})
			}
		}
	}
	return out
}

func hasMethod(n *types.Named, name string) bool {
	for i := 0; i < n.NumMethods(); i++ {
		if n.Method(i).Name() == name {
			return true
		}
	}
	return false
}

// typeSwitchClauses enumerates clauses of type switches whose tag has the
// given interface type predicate.
type tsClause struct {
	Func   *FuncInfo
	Switch *ast.TypeSwitchStmt // nil for the type-assertion forms
	Clause *ast.CaseClause     // nil for the type-assertion forms
	At     ast.Node            // node used for positions
	Body   []ast.Stmt          // the statements that handle a value of the asserted type
	Types  []types.Type
	Var    *types.Var // variable holding the typed value (nil if none)
	TagX   ast.Expr
}

// msgHandlers = clauses of type switches plus the two type-assertion idioms
//
//	m, ok := x.(T); if !ok { continue|return|break }; <body until the end of the block>
//	if m, ok := x.(T); ok { <body> }
func msgHandlers(p *Prog, tagPred func(types.Type) bool) []tsClause {
	out := typeSwitches(p, tagPred)
	for _, f := range p.Funcs {
		in := info(f)
		inspectNoLit(f.Body, func(m ast.Node) bool {
			switch x := m.(type) {
			case *ast.IfStmt:
				as, ok := x.Init.(*ast.AssignStmt)
				if !ok || len(as.Lhs) != 2 || len(as.Rhs) != 1 {
					return true
				}
				ta, ok := unparen(as.Rhs[0]).(*ast.TypeAssertExpr)
				if !ok || ta.Type == nil || !tagPred(in.TypeOf(ta.X)) {
					return true
				}
				okId, _ := as.Lhs[1].(*ast.Ident)
				cid, _ := unparen(x.Cond).(*ast.Ident)
				if okId == nil || cid == nil || objOf(in, cid) != objOf(in, okId) {
					return true
				}
				v, _ := objOf(in, as.Lhs[0]).(*types.Var)
				out = append(out, tsClause{Func: f, At: x, Body: x.Body.List, Types: []types.Type{in.TypeOf(ta.Type)}, Var: v, TagX: ta.X})
			case *ast.BlockStmt, *ast.CommClause, *ast.CaseClause:
				var list []ast.Stmt
				switch y := x.(type) {
				case *ast.BlockStmt:
					list = y.List
				case *ast.CommClause:
					list = y.Body
				case *ast.CaseClause:
					list = y.Body
				}
				for i := 0; i+1 < len(list); i++ {
					as, ok := list[i].(*ast.AssignStmt)
					if !ok || len(as.Lhs) != 2 || len(as.Rhs) != 1 {
						continue
					}
					ta, ok := unparen(as.Rhs[0]).(*ast.TypeAssertExpr)
					if !ok || ta.Type == nil || !tagPred(in.TypeOf(ta.X)) {
						continue
					}
					guard, ok := list[i+1].(*ast.IfStmt)
					if !ok || guard.Else != nil {
						continue
					}
					u, ok := unparen(guard.Cond).(*ast.UnaryExpr)
					okId, _ := as.Lhs[1].(*ast.Ident)
					if !ok || u.Op != token.NOT || okId == nil {
						continue
					}
					cid, _ := unparen(u.X).(*ast.Ident)
					if cid == nil || objOf(in, cid) != objOf(in, okId) {
						continue
					}
					leaves := false
					for _, st := range guard.Body.List {
						switch st.(type) {
						case *ast.BranchStmt, *ast.ReturnStmt:
							leaves = true
						}
					}
					if !leaves {
						continue
					}
					v, _ := objOf(in, as.Lhs[0]).(*types.Var)
					out = append(out, tsClause{Func: f, At: as, Body: list[i+2:], Types: []types.Type{in.TypeOf(ta.Type)}, Var: v, TagX: ta.X})
				}
			}
			return true
		})
	}
	return out
}

func typeSwitches(p *Prog, tagPred func(types.Type) bool) []tsClause {
	var out []tsClause
	for _, f := range p.Funcs {
		in := info(f)
		inspectNoLit(f.Body, func(m ast.Node) bool {
			ts, ok := m.(*ast.TypeSwitchStmt)
			if !ok {
				return true
			}
			var x ast.Expr
			switch a := ts.Assign.(type) {
			case *ast.AssignStmt:
				if ta, ok := a.Rhs[0].(*ast.TypeAssertExpr); ok {
					x = ta.X
				}
			case *ast.ExprStmt:
				if ta, ok := a.X.(*ast.TypeAssertExpr); ok {
					x = ta.X
				}
			}
			if x == nil || !tagPred(in.TypeOf(x)) {
				return true
			}
			for _, s := range ts.Body.List {
				cc := s.(*ast.CaseClause)
				c := tsClause{Func: f, Switch: ts, Clause: cc, At: cc, Body: cc.Body, TagX: x}
				for _, e := range cc.List {
					c.Types = append(c.Types, in.TypeOf(e))
				}
				if v, ok := in.Implicits[cc].(*types.Var); ok {
					c.Var = v
				}
				out = append(out, c)
			}
			return true
		})
	}
	return out
}

// mentionsField: expression e mentions <v>.<field> (v the clause variable).
func mentionsSel(in *types.Info, n ast.Node, v *types.Var, field *types.Var) bool {
	found := false
	if field == nil {
		inspectNoLit(n, func(m ast.Node) bool {
			if id, ok := m.(*ast.Ident); ok && in.Uses[id] == types.Object(v) {
				found = true
			}
			return !found
		})
		return found
	}
	inspectNoLit(n, func(m ast.Node) bool {
		if sel, ok := m.(*ast.SelectorExpr); ok {
			if fieldOf(in, sel) == field {
				if id, ok := unparen(sel.X).(*ast.Ident); ok && in.Uses[id] == types.Object(v) {
					found = true
				}
			}
		}
		return !found
	})
	return found
}

func isErrorTraceSend(in *types.Info, n ast.Node) bool {
	for _, call := range callsIn(n) {
		if t, ok := sentTraceType(in, call); ok && t == "ErrorTrace" {
			return true
		}
	}
	return false
}

// isDoneComm: node is the comm statement of a select clause receiving from a
// done-source (context Done, tracer Done, closed-only channel).
func isDoneComm(p *Prog, f *FuncInfo, n ast.Node) bool {
	ce := chanEngine(p)
	var recv *ast.UnaryExpr
	switch s := n.(type) {
	case *ast.ExprStmt:
		recv, _ = unparen(s.X).(*ast.UnaryExpr)
	case *ast.AssignStmt:
		if len(s.Rhs) == 1 {
			recv, _ = unparen(s.Rhs[0]).(*ast.UnaryExpr)
		}
	}
	if recv == nil || recv.Op != token.ARROW {
		return false
	}
	if _, ok := p.Parent(n).(*ast.CommClause); !ok {
		return false
	}
	return ce.isDoneSource(f, recv.X)
}

// isDoneSource: ctx.Done(), <tracer>.Done(), or a closed-only channel variable.
func (ce *ChanEngine) isDoneSource(f *FuncInfo, ch ast.Expr) bool {
	in := info(f)
	if isCtxDoneCall(in, ch) {
		return true
	}
	if call, ok := unparen(ch).(*ast.CallExpr); ok {
		if fn := callee(in, call); fn != nil && fn.Name() == "Done" && isMethod(fn, pathTracing, "Done", "ITracer", "tracer") {
			return true
		}
	}
	r := ce.refOf(f, ch)
	if r.Var != nil && !r.Elem && ce.ClosedOnly(r.Var) {
		return true
	}
	// a local alias of a done channel: `d := ctx.Done()` (it may later be set to nil to disable the case)
	if r.Var != nil && !r.Elem && !r.Var.IsField() {
		defs, done := 0, 0
		root := f.Root()
		rin := info(root)
		ast.Inspect(root.Body, func(m ast.Node) bool {
			as, ok := m.(*ast.AssignStmt)
			if !ok || len(as.Lhs) != len(as.Rhs) {
				return true
			}
			for i, l := range as.Lhs {
				if id, ok := unparen(l).(*ast.Ident); ok && objOf(rin, id) == types.Object(r.Var) {
					if isNilIdent(as.Rhs[i]) {
						continue
					}
					defs++
					if isCtxDoneCall(rin, as.Rhs[i]) {
						done++
					} else if call, ok := unparen(as.Rhs[i]).(*ast.CallExpr); ok {
						if fn := callee(rin, call); fn != nil && fn.Name() == "Done" && isMethod(fn, pathTracing, "Done", "ITracer", "tracer") {
							done++
						}
					}
				}
			}
			return true
		})
		if defs > 0 && defs == done {
			return true
		}
	}
	return false
}

// replyOutcome decides whether CFG node n discharges the reply obligation for
// the request held in clause variable v (reply field `field`).
func replyOutcome(p *Prog, f *FuncInfo, n ast.Node, v *types.Var, field *types.Var, depth int) (bool, string) {
	in := info(f)
	switch s := n.(type) {
	case *ast.SendStmt:
		if mentionsSel(in, s.Chan, v, field) {
			return true, "reply"
		}
		if mentionsSel(in, s.Value, v, field) {
			return true, "handed on"
		}
	case *ast.GoStmt:
		if lit, ok := unparen(s.Call.Fun).(*ast.FuncLit); ok && depth < 2 {
			lf := p.byLit[lit]
			uses := false
			ast.Inspect(lit.Body, func(x ast.Node) bool {
				if id, ok := x.(*ast.Ident); ok && in.Uses[id] == types.Object(v) {
					uses = true
				}
				return true
			})
			if uses {
				g := p.Graph(lf)
				// helpers called synchronously inside this goroutine run in it: a path of theirs that leaves through
				// a done-source is a cancelled goroutine, not a dropped request
				saved := replyInGoroutine
				replyInGoroutine = true
				defer func() { replyInGoroutine = saved }()
				bad := g.MustPassBeforeExit(g.Entry(), true, func(m ast.Node) bool {
					if ok, _ := replyOutcome(p, lf, m, v, field, depth+1); ok {
						return true
					}
					if isCancellationReturn(p, lf, m) {
						return true
					}
					return isDoneComm(p, lf, m)
				})
				if len(bad) == 0 {
					return true, "delegated to goroutine " + lf.QName() + " which replies, reports or is cancelled on every path"
				}
				return false, "delegated goroutine can finish without replying: " + witnessLines(g, bad)
			}
		}
		if ok, how := delegatedToFunc(p, f, s.Call, v, field, depth, true); ok || how != "" {
			return ok, how
		}
		return false, ""
	}
	if isErrorTraceSend(in, n) {
		return true, "error trace"
	}
	// synchronous helper that receives the request (or its reply channel) and discharges it on every path
	for _, call := range callsIn(n) {
		if ok, how := delegatedToFunc(p, f, call, v, field, depth, replyInGoroutine); ok {
			return true, how
		}
	}
	// store: the reply channel is mentioned in an assignment RHS, an append or a composite literal
	stored := false
	inspectNoLit(n, func(m ast.Node) bool {
		switch x := m.(type) {
		case *ast.AssignStmt:
			for _, r := range x.Rhs {
				if mentionsSel(in, r, v, field) {
					stored = true
				}
			}
		case *ast.CallExpr:
			if isBuiltin(in, x, "append") {
				for _, a := range x.Args[1:] {
					if mentionsSel(in, a, v, field) {
						stored = true
					}
				}
			}
		}
		return !stored
	})
	if stored {
		return true, "parked"
	}
	return false, ""
}

// replyInGoroutine is set while the body of a goroutine the request was delegated to is examined.
var replyInGoroutine bool

// delegatedToFunc: call passes the request variable (or its reply channel) to a declared function of
// the same package whose every path replies / parks / reports (or, for a goroutine, is cancelled).
func delegatedToFunc(p *Prog, f *FuncInfo, call *ast.CallExpr, v *types.Var, field *types.Var, depth int, isGo bool) (bool, string) {
	if depth >= 2 {
		return false, ""
	}
	in := info(f)
	fn := callee(in, call)
	cf := p.byObj[fn]
	if cf == nil || cf.Pkg != f.Pkg {
		return false, ""
	}
	if _, isIface := recvUnderlyingInterface(fn); isIface {
		return false, ""
	}
	for i, a := range call.Args {
		var pf *types.Var // field to use inside the callee (nil: the parameter is the channel itself)
		passes := false
		if id, ok := unparen(a).(*ast.Ident); ok && in.Uses[id] == types.Object(v) {
			passes, pf = true, field
		} else if field != nil {
			if sel, ok := unparen(a).(*ast.SelectorExpr); ok && fieldOf(in, sel) == field {
				if id, ok := unparen(sel.X).(*ast.Ident); ok && in.Uses[id] == types.Object(v) {
					passes, pf = true, nil
				}
			}
		}
		if !passes {
			continue
		}
		pv := paramAt(cf, i)
		if pv == nil {
			continue
		}
		g := p.Graph(cf)
		bad := g.MustPassBeforeExit(g.Entry(), true, func(m ast.Node) bool {
			if ok, _ := replyOutcome(p, cf, m, pv, pf, depth+1); ok {
				return true
			}
			return isGo && isDoneComm(p, cf, m)
		})
		kind := "helper"
		if isGo {
			kind = "goroutine"
		}
		if len(bad) == 0 {
			return true, "delegated to " + kind + " " + cf.QName() + " which replies, parks, reports or is cancelled on every path"
		}
		return false, "delegated " + kind + " " + cf.QName() + " can finish without replying: " + witnessLines(g, bad)
	}
	return false, ""
}

func ruleR2(c *Ctx) {
	p := c.P
	mts := replyMessageTypes(p)
	if len(mts) < 3 {
		c.Missing("message types", fmt.Sprintf("expected >= 3 request message types with a reply channel, found %d", len(mts)))
	}
	for _, cl := range msgHandlers(p, isIMessage) {
		if cl.Var == nil || len(cl.Types) != 1 {
			continue
		}
		var mt *msgType
		for i := range mts {
			if types.Identical(cl.Types[0], mts[i].Named) {
				mt = &mts[i]
			}
		}
		if mt == nil {
			continue
		}
		f := cl.Func
		g := p.Graph(f)
		desc := "case " + mt.Named.Obj().Name()
		entry, ok := g.EntryOfStmts(cl.Body)
		if !ok {
			c.Bad(f, cl.At, desc, "request clause must answer, park, delegate or report the request", "empty clause: the request is dropped")
			continue
		}
		region := regionOfStmts(cl.Body)
		var why []string
		seenWhy := map[string]bool{}
		var delegFail string
		bad := g.RegionPaths(entry, region, func(n ast.Node) bool {
			ok, how := replyOutcome(p, f, n, cl.Var, mt.Field, 0)
			if ok && !seenWhy[how] {
				seenWhy[how] = true
				why = append(why, how)
			}
			if !ok && how != "" {
				delegFail = how
			}
			return ok
		})
		sort.Strings(why)
		wit := "every path through the clause ends in: " + strings.Join(why, " | ")
		if len(bad) > 0 {
			wit = "path through the clause with no reply/park/delegate/error-trace: " + witnessLines(g, bad)
			if delegFail != "" {
				wit += "; " + delegFail
			}
		}
		c.Check(len(bad) == 0, f, cl.At, desc, "every path through the "+mt.Named.Obj().Name()+" clause of "+f.QName()+" must answer the request, park its reply channel, delegate it to a goroutine that does, or emit an ErrorTrace (otherwise the token parked on that channel is lost)", wit)
	}
}

// ---- R3 ----

func ruleR3(c *Ctx) {
	p := c.P
	mts := replyMessageTypes(p)
	// (a) at most one send on the request's reply channel per path through a clause
	for _, cl := range msgHandlers(p, isIMessage) {
		if cl.Var == nil || len(cl.Types) != 1 {
			continue
		}
		var mt *msgType
		for i := range mts {
			if types.Identical(cl.Types[0], mts[i].Named) {
				mt = &mts[i]
			}
		}
		if mt == nil {
			continue
		}
		f := cl.Func
		in := info(f)
		g := p.Graph(f)
		region := regionOfStmts(cl.Body)
		isReply := func(n ast.Node) bool {
			s, ok := n.(*ast.SendStmt)
			return ok && mentionsSel(in, s.Chan, cl.Var, mt.Field)
		}
		var sends []Point
		for _, pt := range g.AllPoints() {
			if n := pt.Node(); region.Contains(n) && isReply(n) {
				sends = append(sends, pt)
			}
		}
		double := ""
		for _, s := range sends {
			if found, w := g.SearchB(s, false, func(pt Point, n ast.Node) Action {
				if n == nil || !region.Contains(n) {
					return Prune
				}
				if isReply(n) {
					return Found
				}
				return Continue
			}, g.WithinRegion(region)); found {
				double = witnessLines(g, [][]Point{w})
			}
		}
		c.Check(double == "", f, cl.At, "case "+mt.Named.Obj().Name()+" replies at most once",
			"no path through the clause sends twice on the request's reply channel", ifEmpty(double, fmt.Sprintf("%d reply sites, pairwise on exclusive paths", len(sends))))
	}
	// (b) loops that hand actions to parked tokens: exactly one send per channel per iteration
	n := 0
	for _, pl := range parkedLoops(p) {
		f := pl.F
		in := info(f)
		g := p.Graph(f)
		n++
		region := regionOf(pl.Body)
		isSend := pl.send
		entry, ok := g.EntryOfStmts(pl.Body.List)
		desc := "loop over parked reply channels (" + typeDesc(in, pl.Slice) + ")"
		if !ok {
			c.Bad(f, pl.Loop, desc, "each parked token must receive exactly one action", "empty loop body")
			continue
		}
		bad := g.RegionPaths(entry, region, isSend)
		msg := ""
		if len(bad) > 0 {
			msg = "iteration path without a send (that token stays parked forever): " + witnessLines(g, bad)
		}
		cnt := 0
		for _, pt := range g.AllPoints() {
			if x := pt.Node(); region.Contains(x) && isSend(x) {
				cnt++
				if found, w := g.SearchB(pt, false, func(q Point, y ast.Node) Action {
					if y == nil || !region.Contains(y) {
						return Prune
					}
					if isSend(y) {
						return Found
					}
					return Continue
				}, g.WithinRegion(region)); found {
					msg += " two sends on one iteration path: " + witnessLines(g, [][]Point{w})
				}
			}
		}
		c.Check(msg == "", f, pl.Loop, desc, "every iteration over the parked reply channels sends exactly one action on the channel (no token lost, none answered twice)",
			ifEmpty(msg, fmt.Sprintf("%d send sites in the loop body, exactly one on every path of an iteration", cnt)))
	}
	if n < 2 {
		c.Missing("parked-channel loops", fmt.Sprintf("expected >= 2 loops over parked reply channels (distributeFlows, catch event release), found %d", n))
	}
	// (c) join state reset: see ruleR3reset
	ruleR3reset(c)
}

// parkedLoop: a loop that hands actions to parked tokens. The element channel is the range value of
// a []chan IAction, a local assigned from an index into such a slice, or the index expression itself.
type parkedLoop struct {
	F     *FuncInfo
	Loop  ast.Stmt
	Body  *ast.BlockStmt
	Slice ast.Expr
	send  func(ast.Node) bool
}

func isParkedSlice(in *types.Info, e ast.Expr) bool {
	t := in.TypeOf(e)
	if t == nil {
		return false
	}
	sl, ok := t.Underlying().(*types.Slice)
	return ok && isReplyChan(sl.Elem())
}

func parkedLoops(p *Prog) []parkedLoop {
	var out []parkedLoop
	for _, f := range p.Funcs {
		in := info(f)
		inspectNoLit(f.Body, func(m ast.Node) bool {
			var body *ast.BlockStmt
			var loop ast.Stmt
			elems := map[types.Object]bool{}
			var slice ast.Expr
			switch x := m.(type) {
			case *ast.RangeStmt:
				body, loop = x.Body, x
				if x.Value != nil && isParkedSlice(in, x.X) {
					if o := objOf(in, x.Value); o != nil {
						elems[o] = true
						slice = x.X
					}
				}
			case *ast.ForStmt:
				body, loop = x.Body, x
			default:
				return true
			}
			// locals assigned from an index into a parked slice, directly in this loop's body
			for _, st := range body.List {
				if as, ok := st.(*ast.AssignStmt); ok && len(as.Lhs) == 1 && len(as.Rhs) == 1 {
					if ix, ok := unparen(as.Rhs[0]).(*ast.IndexExpr); ok && isParkedSlice(in, ix.X) {
						if o := objOf(in, as.Lhs[0]); o != nil {
							elems[o] = true
							slice = ix.X
						}
					}
				}
			}
			isSend := func(n ast.Node) bool {
				s, ok := n.(*ast.SendStmt)
				if !ok {
					return false
				}
				if id, ok := unparen(s.Chan).(*ast.Ident); ok && elems[objOf(in, id)] {
					return true
				}
				if ix, ok := unparen(s.Chan).(*ast.IndexExpr); ok && isParkedSlice(in, ix.X) {
					return true
				}
				return false
			}
			has := false
			inspectNoLit(body, func(z ast.Node) bool {
				if isSend(z) {
					// only the innermost loop around the send carries it
					for cur := p.Parent(z); cur != nil && cur != ast.Node(loop); cur = p.Parent(cur) {
						switch cur.(type) {
						case *ast.ForStmt, *ast.RangeStmt:
							return true
						}
					}
					has = true
					if slice == nil {
						if ix, ok := unparen(z.(*ast.SendStmt).Chan).(*ast.IndexExpr); ok {
							slice = ix.X
						}
					}
				}
				return true
			})
			// only the innermost loop that directly carries the sends counts
			if has && slice != nil {
				out = append(out, parkedLoop{f, loop, body, slice, isSend})
			}
			return true
		})
	}
	return out
}

// distributorFuncs: declared functions with a parked loop over one of their parameters.
func distributorFuncs(p *Prog) map[*types.Func]bool {
	out := map[*types.Func]bool{}
	for _, pl := range parkedLoops(p) {
		if pl.F.Obj == nil {
			continue
		}
		if id := rootIdent(pl.Slice); id != nil {
			if v, ok := objOf(info(pl.F), id).(*types.Var); ok && isParam(pl.F, v) {
				out[pl.F.Obj] = true
			}
		}
	}
	return out
}

// ruleR3reset: accumulating join state written in the request clause is
// re-initialised in the block that releases the parked tokens.
func ruleR3reset(c *Ctx) {
	p := c.P
	// release sites: calls of a function that ranges over parked reply channels
	// (distributeFlows) with a receiver field argument or a local copy of one,
	// and range loops over a receiver field of parked channels.
	distributors := distributorFuncs(p)
	loopOf := map[ast.Stmt]parkedLoop{}
	for _, pl := range parkedLoops(p) {
		loopOf[pl.Loop] = pl
	}
	for _, f := range p.Funcs {
		in := info(f)
		g := p.Graph(f)
		inspectNoLit(f.Body, func(m ast.Node) bool {
			var parked ast.Expr // expression denoting the parked slice at the release
			var at ast.Node
			switch x := m.(type) {
			case *ast.CallExpr:
				if fn := callee(in, x); fn != nil && distributors[fn] && len(x.Args) > 0 {
					parked, at = x.Args[0], x
				}
			case *ast.RangeStmt, *ast.ForStmt:
				if pl, ok := loopOf[x.(ast.Stmt)]; ok && !(f.Obj != nil && distributors[f.Obj]) {
					parked, at = pl.Slice, x
				}
			}
			if parked == nil {
				return true
			}
			// resolve to the receiver field: direct field, or local copy `tmp := recv.field`
			fld := fieldOf(in, parked)
			if fld == nil {
				if id, ok := unparen(parked).(*ast.Ident); ok {
					if lv, ok := objOf(in, id).(*types.Var); ok {
						inspectNoLit(f.Body, func(y ast.Node) bool {
							if as, ok := y.(*ast.AssignStmt); ok && len(as.Lhs) == 1 && len(as.Rhs) == 1 {
								if lid, ok := as.Lhs[0].(*ast.Ident); ok && objOf(in, lid) == types.Object(lv) {
									if fv := fieldOf(in, as.Rhs[0]); fv != nil {
										fld = fv
									}
								}
							}
							return true
						})
					}
				}
			}
			if fld == nil {
				return true
			}
			desc := "release of parked tokens held in " + fld.Name()
			apt, ok := g.PointOf(at)
			if !ok {
				return true
			}
			// the parked field must be re-initialised: an assignment `recv.fld = <fresh>`
			// that dominates the release (after a local copy) or lies on every path
			// from the release to the exit of the function / next loop iteration.
			isReset := func(n ast.Node) bool {
				as, ok := n.(*ast.AssignStmt)
				if !ok {
					return false
				}
				for i, l := range as.Lhs {
					if fieldOf(in, l) == fld && i < len(as.Rhs) {
						fresh := true
						inspectNoLit(as.Rhs[i], func(z ast.Node) bool {
							if fieldOf(in, exprOrNil(z)) == fld {
								fresh = false
							}
							return fresh
						})
						if fresh {
							return true
						}
					}
				}
				return false
			}
			okReset := false
			how := ""
			for _, pt := range g.AllPoints() {
				if isReset(pt.Node()) && g.Dominates(pt, apt) && sameInnermostBranch(p, pt.Node(), at) {
					okReset, how = true, "re-initialised at line "+fmt.Sprint(g.Lines([]Point{pt})[0])+" in the releasing branch before the release (local copy distributed)"
				}
			}
			if !okReset {
				// post: every path from release until leaving the enclosing clause/function passes a reset
				region := enclosingClauseRegion(p, at, f)
				found, w := g.Search(apt, false, func(pt Point, n ast.Node) Action {
					if n == nil {
						return Prune
					}
					if isReset(n) {
						return Prune
					}
					if !region.Contains(n) {
						return Found
					}
					if _, ok := n.(*ast.ReturnStmt); ok {
						return Found
					}
					return Continue
				})
				if !found {
					okReset, how = true, "re-initialised on every path after the release, before the handler finishes"
				} else {
					how = "parked channels are still stored after the release (next activation answers them again / blocks on them): " + witnessLines(g, [][]Point{w})
				}
			}
			if !okReset {
				if g2, why := resetOnNextActivation(p, f, g, apt, at, fld); g2 {
					okReset, how = true, why
				}
			}
			c.Check(okReset, f, at, desc, "after a join releases its parked tokens the list of parked reply channels is emptied (re-entry must not answer stale channels)", how)
			return true
		})
	}
}

func exprOrNil(n ast.Node) ast.Expr {
	e, _ := n.(ast.Expr)
	if e == nil {
		return &ast.BadExpr{}
	}
	return e
}

// resetOnNextActivation accepts the two-phase idiom: after the release a guard
// field G is set to nil on every path, and the branch `if recv.G == nil` (first
// arrival of the next activation) re-initialises the parked list.
func resetOnNextActivation(p *Prog, f *FuncInfo, g *Graph, apt Point, at ast.Node, fld *types.Var) (bool, string) {
	in := info(f)
	region := enclosingClauseRegion(p, at, f)
	// candidate guards: fields assigned nil after the release
	guards := map[*types.Var]bool{}
	for _, pt := range g.AllPoints() {
		as, ok := pt.Node().(*ast.AssignStmt)
		if !ok || !region.Contains(as) || len(as.Lhs) != 1 || len(as.Rhs) != 1 {
			continue
		}
		if id, ok := unparen(as.Rhs[0]).(*ast.Ident); !ok || id.Name != "nil" {
			continue
		}
		if gv := fieldOf(in, as.Lhs[0]); gv != nil && gv != fld {
			guards[gv] = true
		}
	}
	for gv := range guards {
		isNilAssign := func(n ast.Node) bool {
			as, ok := n.(*ast.AssignStmt)
			if !ok || len(as.Lhs) != 1 || len(as.Rhs) != 1 {
				return false
			}
			id, ok := unparen(as.Rhs[0]).(*ast.Ident)
			return ok && id.Name == "nil" && fieldOf(in, as.Lhs[0]) == gv
		}
		found, _ := g.SearchB(apt, false, func(pt Point, n ast.Node) Action {
			if n == nil || isNilAssign(n) {
				return Prune
			}
			if !region.Contains(n) {
				return Found
			}
			return Continue
		}, func(b *xcfg.Block) Action {
			if len(b.Nodes) == 0 && b.Kind != xcfg.KindSelectBlocked && !g.blockInRegion(b, region) {
				return Found
			}
			return Continue
		})
		if found {
			continue // some path leaves the handler without clearing the guard
		}
		// an `if recv.G == nil { ... recv.fld = fresh ... }` anywhere in the same function — or, when the release
		// was moved into a helper method, in another method of the same type
		ok := false
		line := 0
		var hosts []*FuncInfo
		hosts = append(hosts, f)
		if f.Root().Obj != nil && recvNamed(f.Root().Obj) != nil {
			for _, h := range p.Funcs {
				if h != f && h.Body != nil && h.Parent == nil && h.Obj != nil && recvNamed(h.Obj) == recvNamed(f.Root().Obj) {
					hosts = append(hosts, h)
				}
			}
		}
		for _, host := range hosts {
			in := info(host)
			inspectNoLit(host.Body, func(m ast.Node) bool {
				ifs, isIf := m.(*ast.IfStmt)
				if !isIf {
					return true
				}
				be, isBin := unparen(ifs.Cond).(*ast.BinaryExpr)
				if !isBin || be.Op != token.EQL {
					return true
				}
				var side ast.Expr
				if id, k := unparen(be.Y).(*ast.Ident); k && id.Name == "nil" {
					side = be.X
				} else if id, k := unparen(be.X).(*ast.Ident); k && id.Name == "nil" {
					side = be.Y
				}
				if side == nil || fieldOf(in, side) != gv {
					return true
				}
				for _, st := range ifs.Body.List {
					if as, k := st.(*ast.AssignStmt); k {
						for i, l := range as.Lhs {
							if fieldOf(in, l) == fld && i < len(as.Rhs) {
								fresh := true
								inspectNoLit(as.Rhs[i], func(z ast.Node) bool {
									if e, k := z.(ast.Expr); k && fieldOf(in, e) == fld {
										fresh = false
									}
									return fresh
								})
								if fresh {
									ok = true
									line = p.Fset.Position(as.Pos()).Line
								}
							}
						}
					}
				}
				return true
			})
		}
		if ok {
			return true, fmt.Sprintf("two-phase reset: guard %s is cleared on every path after the release, and the first-arrival branch `%s == nil` re-initialises %s (line %d)", gv.Name(), gv.Name(), fld.Name(), line)
		}
	}
	return false, ""
}

func isParam(f *FuncInfo, v *types.Var) bool {
	in := info(f)
	for _, fl := range f.Type().Params.List {
		for _, nm := range fl.Names {
			if in.Defs[nm] == types.Object(v) {
				return true
			}
		}
	}
	return false
}

// sameInnermostBranch: a and b are in the same innermost if/case body.
func sameInnermostBranch(p *Prog, a, b ast.Node) bool {
	return innermostBranch(p, a) == innermostBranch(p, b)
}

func innermostBranch(p *Prog, n ast.Node) ast.Node {
	for cur := p.Parent(n); cur != nil; cur = p.Parent(cur) {
		switch x := cur.(type) {
		case *ast.BlockStmt:
			switch p.Parent(x).(type) {
			case *ast.IfStmt, *ast.FuncDecl, *ast.FuncLit, *ast.ForStmt, *ast.RangeStmt:
				return x
			}
		case *ast.CaseClause, *ast.CommClause:
			return x
		}
	}
	return nil
}

// enclosingClauseRegion: the innermost case/comm clause body containing n, or
// the function body.
func enclosingClauseRegion(p *Prog, n ast.Node, f *FuncInfo) Region {
	// the handler: innermost enclosing clause of a *type* switch, else the
	// innermost select clause, else the function body
	var comm *ast.CommClause
	for cur := p.Parent(n); cur != nil; cur = p.Parent(cur) {
		switch x := cur.(type) {
		case *ast.CaseClause:
			if body, ok := p.Parent(x).(*ast.BlockStmt); ok {
				if _, isTS := p.Parent(body).(*ast.TypeSwitchStmt); isTS {
					return regionOfStmts(x.Body)
				}
			}
		case *ast.CommClause:
			if comm == nil {
				comm = x
			}
		case *ast.FuncDecl, *ast.FuncLit:
			if comm != nil {
				return regionOfStmts(comm.Body)
			}
			return regionOf(f.Body)
		}
	}
	return regionOf(f.Body)
}

// ---- R4 ----

func ruleR4(c *Ctx) {
	p := c.P
	ce := chanEngine(p)
	for _, m := range ce.Makes {
		if !isReplyChan(m.Type) {
			continue
		}
		desc := "make(" + typeString(m.Type) + ")"
		if _, isRet := p.Parent(m.Call).(*ast.ReturnStmt); isRet && m.Dest == nil {
			c.Ok(m.Func, m.Call, desc+" returned directly", "a channel that is created in the return statement is known to nobody but the receiver: it is never sent to (a never-ready placeholder)", "not stored anywhere, no sender can exist", false)
			continue
		}
		c.Check(m.Cap == ">=1", m.Func, m.Call, desc,
			"a reply channel must have capacity >= 1: its receiver is the token's select, which can leave through ctx.Done or its termination channel, so an unbuffered reply strands the replying node goroutine (and its sender handle) forever",
			"capacity class "+m.Cap)
	}
}

// ---- R5 ----

func ruleR5(c *Ctx) {
	p := c.P
	ce := chanEngine(p)
	// mailbox fields
	type mbox struct {
		fld     *types.Var
		name    string
		sent    map[string]ast.Node
		handled map[string]bool
		loopFn  *FuncInfo
	}
	boxes := map[*types.Var]*mbox{}
	get := func(v *types.Var, name string) *mbox {
		b := boxes[v]
		if b == nil {
			b = &mbox{fld: v, name: name, sent: map[string]ast.Node{}, handled: map[string]bool{}}
			boxes[v] = b
		}
		return b
	}
	for _, op := range ce.Ops {
		if op.Ref.Var == nil || !op.Ref.Var.IsField() || op.Ref.Elem || !isMailboxChan(op.Type) {
			continue
		}
		b := get(op.Ref.Var, op.Ref.Field)
		in := info(op.Func)
		switch op.Kind {
		case OpSend:
			val := op.Node.(*ast.SendStmt).Value
			t := in.TypeOf(val)
			// a helper that posts its parameter (declared with the interface type): what is posted is what the
			// callers pass; a value that is itself of the interface type came out of a mailbox and is re-queued
			if isIMessage(t) {
				resolved := false
				if id, ok := unparen(val).(*ast.Ident); ok {
					if pv, ok := objOf(in, id).(*types.Var); ok && isParam(op.Func.Root(), pv) && op.Func.Root().Obj != nil {
						idx := -1
						sig := op.Func.Root().Obj.Type().(*types.Signature)
						for i := 0; i < sig.Params().Len(); i++ {
							if sig.Params().At(i) == pv {
								idx = i
							}
						}
						if idx >= 0 {
							for _, h := range p.Funcs {
								hin := info(h)
								inspectNoLit(h.Body, func(m ast.Node) bool {
									if cl, ok := m.(*ast.CallExpr); ok && callee(hin, cl) == op.Func.Root().Obj && idx < len(cl.Args) {
										resolved = true
										if at := hin.TypeOf(cl.Args[idx]); !isIMessage(at) {
											b.sent[typeString(at)] = op.Node
										}
									}
									return true
								})
							}
						}
					}
				}
				if resolved {
					continue
				}
			}
			b.sent[typeString(t)] = op.Node
		case OpRecv:
			// find the type switch over the received value inside the clause
			if op.Clause == nil {
				continue
			}
			b.loopFn = op.Func
			for _, s := range op.Clause.Clause.Body {
				inspectNoLit(s, func(m ast.Node) bool {
					if ts, ok := m.(*ast.TypeSwitchStmt); ok && typeSwitchTagIs(in, ts, isIMessage) {
						for _, cs := range ts.Body.List {
							cc := cs.(*ast.CaseClause)
							if cc.List == nil {
								b.handled["default"] = true
							}
							for _, e := range cc.List {
								b.handled[typeString(in.TypeOf(e))] = true
							}
						}
					}
					// a helper that is handed the received message and dispatches over it
					if cl, ok := m.(*ast.CallExpr); ok {
						if cf := p.byObj[callee(in, cl)]; cf != nil && cf.Body != nil && cf.Pkg == op.Func.Pkg {
							passes := false
							for _, a := range cl.Args {
								if isIMessage(in.TypeOf(a)) {
									passes = true
								}
							}
							if passes {
								cin := info(cf)
								for _, arms := range typeDispatches(p, cf, isIMessage) {
									for _, a := range arms {
										if len(a.Types) == 0 {
											b.handled["default"] = true
										}
										for _, t := range a.Types {
											if t != nil {
												b.handled[typeString(t)] = true
											}
										}
									}
								}
								_ = cin
							}
						}
					}
					return true
				})
			}
		}
	}
	// type-assertion idioms in the owner's loop function count as handlers too
	for _, h := range msgHandlers(p, isIMessage) {
		if h.Switch != nil {
			continue
		}
		for _, b := range boxes {
			if b.loopFn == h.Func && len(h.Types) == 1 {
				b.handled[typeString(h.Types[0])] = true
			}
		}
	}
	var keys []*mbox
	for _, b := range boxes {
		keys = append(keys, b)
	}
	sort.Slice(keys, func(i, j int) bool { return keys[i].name < keys[j].name })
	for _, b := range keys {
		var names []string
		for t := range b.sent {
			names = append(names, t)
		}
		sort.Strings(names)
		if b.loopFn == nil {
			c.Bad(nil, nil, "mailbox "+b.name, "mailbox must have an owner loop that receives from it", "no receive from "+b.name+" in a select")
			continue
		}
		for _, t := range names {
			ok := b.handled[t] || b.handled["default"]
			c.Check(ok, p.EnclosingFunc(b.sent[t]), b.sent[t], "mailbox "+b.name+" carries "+t,
				"message type "+t+" posted into "+b.name+" must have a case in the owner's loop ("+b.loopFn.QName()+"), otherwise the message is swallowed silently",
				fmt.Sprintf("handled types: %v", sortedKeys(b.handled)))
		}
	}
}

func typeSwitchTagIs(in *types.Info, ts *ast.TypeSwitchStmt, pred func(types.Type) bool) bool {
	var x ast.Expr
	switch a := ts.Assign.(type) {
	case *ast.AssignStmt:
		if ta, ok := a.Rhs[0].(*ast.TypeAssertExpr); ok {
			x = ta.X
		}
	case *ast.ExprStmt:
		if ta, ok := a.X.(*ast.TypeAssertExpr); ok {
			x = ta.X
		}
	}
	return x != nil && pred(in.TypeOf(x))
}

func sortedKeys(m map[string]bool) []string {
	var out []string
	for k := range m {
		out = append(out, k)
	}
	sort.Strings(out)
	return out
}

// ---- R6 ----

func ruleR6(c *Ctx) {
	p := c.P
	pk := p.ByPath[pathBpmn]
	// sealed IAction implementors
	var actions []string
	scope := pk.Types.Scope()
	for _, name := range scope.Names() {
		if tn, ok := scope.Lookup(name).(*types.TypeName); ok {
			if n, ok := tn.Type().(*types.Named); ok && hasMethod(n, "action") {
				if _, isIface := n.Underlying().(*types.Interface); !isIface {
					actions = append(actions, typeString(n))
				}
			}
		}
	}
	sort.Strings(actions)
	seen := map[*ast.TypeSwitchStmt]bool{}
	for _, cl := range typeSwitches(p, isIAction) {
		if seen[cl.Switch] {
			continue
		}
		seen[cl.Switch] = true
		handled := map[string]bool{}
		for _, s := range cl.Switch.Body.List {
			cc := s.(*ast.CaseClause)
			if cc.List == nil {
				handled["default"] = true
			}
			for _, e := range cc.List {
				handled[typeString(info(cl.Func).TypeOf(e))] = true
			}
		}
		var missing []string
		for _, a := range actions {
			if !handled[a] && !handled["default"] {
				missing = append(missing, a)
			}
		}
		c.Check(len(missing) == 0, cl.Func, cl.Switch, "type switch over IAction",
			"the switch over IAction must have a case for every type with an action() method "+fmt.Sprint(actions)+" (an uninterpreted action leaves the token spinning or silent)",
			ifEmpty(strings.Join(missing, ","), "all handled")+" missing")
	}
	// enum switches: tag of a named integer/string type declared in a target package with >= 2 constants
	for _, f := range p.Funcs {
		in := info(f)
		inspectNoLit(f.Body, func(m ast.Node) bool {
			sw, ok := m.(*ast.SwitchStmt)
			if !ok || sw.Tag == nil {
				return true
			}
			n := namedOf(in.TypeOf(sw.Tag))
			if n == nil || n.Obj().Pkg() == nil || !isTargetPkg(p, n.Obj().Pkg().Path()) {
				return true
			}
			b, ok := n.Underlying().(*types.Basic)
			if !ok || b.Info()&(types.IsInteger|types.IsString) == 0 {
				return true
			}
			consts := enumConsts(n)
			if len(consts) < 2 {
				return true
			}
			handled := map[string]bool{}
			hasDefault := false
			for _, s := range sw.Body.List {
				cc := s.(*ast.CaseClause)
				if cc.List == nil {
					hasDefault = true
				}
				for _, e := range cc.List {
					if tv, ok := in.Types[e]; ok && tv.Value != nil {
						handled[tv.Value.ExactString()] = true
					}
				}
			}
			var missing []string
			for _, k := range consts {
				if !handled[k.Val().ExactString()] {
					missing = append(missing, k.Name())
				}
			}
			c.Check(len(missing) == 0 || hasDefault, f, sw, "switch over "+n.Obj().Name(),
				"switch over enum "+typeString(n)+" covers every declared constant or has a default",
				ifEmpty(strings.Join(missing, ","), "none")+" missing; default="+fmt.Sprint(hasDefault))
			return true
		})
		// the same dispatch written as `if x == A { } else if x == B { }` (two or more links)
		inspectNoLit(f.Body, func(m ast.Node) bool {
			head, ok := m.(*ast.IfStmt)
			if !ok {
				return true
			}
			linkConst := func(ifs *ast.IfStmt) (*types.Named, string) {
				be, ok := unparen(ifs.Cond).(*ast.BinaryExpr)
				if !ok || be.Op != token.EQL {
					return nil, ""
				}
				n := namedOf(in.TypeOf(be.X))
				if n == nil || n.Obj().Pkg() == nil || !isTargetPkg(p, n.Obj().Pkg().Path()) {
					return nil, ""
				}
				if b, ok := n.Underlying().(*types.Basic); !ok || b.Info()&(types.IsInteger|types.IsString) == 0 {
					return nil, ""
				}
				for _, e := range []ast.Expr{be.X, be.Y} {
					if tv, ok := in.Types[e]; ok && tv.Value != nil {
						return n, tv.Value.ExactString()
					}
				}
				return nil, ""
			}
			n, first := linkConst(head)
			if n == nil {
				return true
			}
			if par, ok := p.Parent(head).(*ast.IfStmt); ok && par.Else == ast.Stmt(head) {
				if pn, _ := linkConst(par); pn == n {
					return true
				}
			}
			consts := enumConsts(n)
			handled := map[string]bool{first: true}
			links, hasDefault := 1, false
			for cur := head; ; {
				switch e := cur.Else.(type) {
				case *ast.IfStmt:
					if en, v := linkConst(e); en == n {
						handled[v] = true
						links++
						cur = e
						continue
					}
					hasDefault = true // a different test: treated as the catch-all
				case *ast.BlockStmt:
					hasDefault = true
				}
				break
			}
			if links < 2 || len(consts) < 2 {
				return true
			}
			var missing []string
			for _, k := range consts {
				if !handled[k.Val().ExactString()] {
					missing = append(missing, k.Name())
				}
			}
			c.Check(len(missing) == 0 || hasDefault, f, head, "if-chain over "+n.Obj().Name(),
				"dispatch over enum "+typeString(n)+" covers every declared constant or has a final else",
				ifEmpty(strings.Join(missing, ","), "none")+" missing; final else="+fmt.Sprint(hasDefault))
			return true
		})
	}
}

func isTargetPkg(p *Prog, path string) bool {
	for _, pk := range p.Target {
		if pk.PkgPath == path {
			return true
		}
	}
	return false
}

func enumConsts(n *types.Named) []*types.Const {
	var out []*types.Const
	scope := n.Obj().Pkg().Scope()
	for _, name := range scope.Names() {
		if k, ok := scope.Lookup(name).(*types.Const); ok && types.Identical(k.Type(), n) {
			out = append(out, k)
		}
	}
	return out
}

// ---- R3e / R48 ----

func init() {
	register(&Rule{ID: "R3e", Title: "accumulator-reset: a slice field that a node's loop appends to is also re-initialised somewhere in that loop", Min: 4, Run: ruleR3e})
	register(&Rule{ID: "R48", Title: "sibling-agreement: trace-handler clauses that change the same tracked state raise the same notification flags", Min: 1, Run: ruleR48})
}

func ruleR3e(c *Ctx) {
	p := c.P
	ce := chanEngine(p)
	runOf := map[*types.Named]*FuncInfo{}
	for _, l := range ce.Launches() {
		if l.Root == nil || l.Root.Obj == nil || l.Root.Obj.Name() != "run" || l.Root.Pkg.PkgPath != pathBpmn {
			continue
		}
		if rn := recvNamed(l.Root.Obj); rn != nil {
			runOf[rn] = l.Root
		}
	}
	var ts []*types.Named
	for n := range runOf {
		ts = append(ts, n)
	}
	sort.Slice(ts, func(i, j int) bool { return ts[i].Obj().Name() < ts[j].Obj().Name() })
	for _, T := range ts {
		// methods of T (the run tree is a subset; constructors are not methods)
		type st struct {
			appendAt ast.Node
			appendF  *FuncInfo
			fresh    bool
		}
		fields := map[*types.Var]*st{}
		for _, f := range p.Funcs {
			r := f.Root()
			if r.Obj == nil || recvNamed(r.Obj) != T {
				continue
			}
			in := info(f)
			inspectNoLit(f.Body, func(m ast.Node) bool {
				as, ok := m.(*ast.AssignStmt)
				if !ok {
					return true
				}
				for i, l := range as.Lhs {
					fv := fieldOf(in, l)
					if fv == nil || i >= len(as.Rhs) {
						continue
					}
					if _, isSlice := fv.Type().Underlying().(*types.Slice); !isSlice {
						continue
					}
					s := fields[fv]
					if s == nil {
						s = &st{}
						fields[fv] = s
					}
					self := false
					inspectNoLit(as.Rhs[i], func(z ast.Node) bool {
						if e, ok := z.(ast.Expr); ok && fieldOf(in, e) == fv {
							self = true
						}
						return true
					})
					if call, ok := unparen(as.Rhs[i]).(*ast.CallExpr); ok && isBuiltin(in, call, "append") && self {
						s.appendAt, s.appendF = as, f
					} else if !self {
						s.fresh = true
					}
				}
				return true
			})
		}
		var fvs []*types.Var
		for fv := range fields {
			fvs = append(fvs, fv)
		}
		sort.Slice(fvs, func(i, j int) bool { return fvs[i].Name() < fvs[j].Name() })
		// the node's loop: run and the methods of T it calls
		loopFns := map[*FuncInfo]bool{}
		var addFn func(f *FuncInfo)
		addFn = func(f *FuncInfo) {
			if loopFns[f] {
				return
			}
			loopFns[f] = true
			in := info(f)
			inspectNoLit(f.Body, func(m ast.Node) bool {
				if call, ok := m.(*ast.CallExpr); ok {
					if fn := callee(in, call); fn != nil && recvNamed(fn) == T {
						if cf := p.byObj[fn]; cf != nil {
							addFn(cf)
						}
					}
				}
				return true
			})
		}
		addFn(runOf[T])
		for _, fv := range fvs {
			s := fields[fv]
			if s.appendAt == nil || !loopFns[s.appendF.Root()] {
				continue
			}
			c.Check(s.fresh, s.appendF, s.appendAt, "accumulator "+T.Obj().Name()+"."+fv.Name(), "a slice field that the node's loop appends to per arrival is re-initialised (assigned a value that does not mention itself) by some method of the node; otherwise what one activation accumulated is still there in the next", fmt.Sprintf("non-self assignment to %s in a method of %s: %v", fv.Name(), T.Obj().Name(), s.fresh))
		}
	}
}

// typeArm is one arm of a dispatch over the dynamic type of a value: a clause of a type switch, or one link of
// `if t, ok := x.(A); ok { } else if t, ok := x.(B); ok { }`.
type typeArm struct {
	Types []types.Type
	Node  ast.Node
	Body  []ast.Stmt
}

func typeDispatches(p *Prog, f *FuncInfo, tagPred func(types.Type) bool) [][]typeArm {
	in := info(f)
	var out [][]typeArm
	assertOf := func(ifs *ast.IfStmt) (types.Type, bool) {
		as, ok := ifs.Init.(*ast.AssignStmt)
		if !ok || len(as.Rhs) != 1 || len(as.Lhs) != 2 {
			return nil, false
		}
		ta, ok := unparen(as.Rhs[0]).(*ast.TypeAssertExpr)
		if !ok || ta.Type == nil || !tagPred(in.TypeOf(ta.X)) {
			return nil, false
		}
		okId, ok := as.Lhs[1].(*ast.Ident)
		cid, ok2 := unparen(ifs.Cond).(*ast.Ident)
		if !ok || !ok2 || objOf(in, okId) != objOf(in, cid) {
			return nil, false
		}
		return in.TypeOf(ta.Type), true
	}
	inspectNoLit(f.Body, func(m ast.Node) bool {
		switch x := m.(type) {
		case *ast.TypeSwitchStmt:
			if !typeSwitchTagIs(in, x, tagPred) {
				return true
			}
			var arms []typeArm
			for _, s := range x.Body.List {
				cc := s.(*ast.CaseClause)
				a := typeArm{Node: cc, Body: cc.Body}
				for _, e := range cc.List {
					a.Types = append(a.Types, in.TypeOf(e))
				}
				arms = append(arms, a)
			}
			out = append(out, arms)
		case *ast.IfStmt:
			if _, ok := assertOf(x); !ok {
				return true
			}
			if par, ok := p.Parent(x).(*ast.IfStmt); ok && par.Else == ast.Stmt(x) {
				if _, ok := assertOf(par); ok {
					return true
				}
			}
			var arms []typeArm
			for cur := x; cur != nil; {
				if t, ok := assertOf(cur); ok {
					arms = append(arms, typeArm{Types: []types.Type{t}, Node: cur.Body, Body: cur.Body.List})
				}
				next, _ := cur.Else.(*ast.IfStmt)
				cur = next
			}
			out = append(out, arms)
		}
		return true
	})
	return out
}

func ruleR48(c *Ctx) {
	p := c.P
	n := 0
	for _, f := range p.Funcs {
		if f.Body == nil || !isTargetPkg(p, f.Pkg.PkgPath) {
			continue
		}
		in := info(f)
		for _, arms := range typeDispatches(p, f, isITrace) {
			// arms of this dispatch: which receiver fields do they write, which bool locals do they set to true?
			type ci struct {
				arm    typeArm
				writes map[*types.Var]bool
				flags  map[types.Object]bool
			}
			var cis []ci
			for _, a := range arms {
				x := ci{a, map[*types.Var]bool{}, map[types.Object]bool{}}
				// writes made by a same-package helper the arm calls belong to the arm
				for _, st := range a.Body {
					for _, hc := range callsIn(st) {
						if cf := p.byObj[callee(in, hc)]; cf != nil && cf.Pkg == f.Pkg && cf.Body != nil && cf != f {
							cin := info(cf)
							inspectNoLit(cf.Body, func(m ast.Node) bool {
								switch y := m.(type) {
								case *ast.AssignStmt:
									for _, l := range y.Lhs {
										target := l
										if ix, ok := unparen(l).(*ast.IndexExpr); ok {
											target = ix.X
										}
										if fv := fieldOf(cin, target); fv != nil {
											x.writes[fv] = true
										}
									}
								case *ast.CallExpr:
									if isBuiltin(cin, y, "delete") && len(y.Args) > 0 {
										if fv := fieldOf(cin, y.Args[0]); fv != nil {
											x.writes[fv] = true
										}
									}
								}
								return true
							})
						}
					}
				}
				for _, st := range a.Body {
					inspectNoLit(st, func(m ast.Node) bool {
						switch y := m.(type) {
						case *ast.AssignStmt:
							for i, l := range y.Lhs {
								target := l
								if ix, ok := unparen(l).(*ast.IndexExpr); ok {
									target = ix.X
								}
								if fv := fieldOf(in, target); fv != nil {
									x.writes[fv] = true
								}
								if id, ok := unparen(l).(*ast.Ident); ok && i < len(y.Rhs) {
									if r, ok := unparen(y.Rhs[i]).(*ast.Ident); ok && r.Name == "true" {
										if o := objOf(in, id); o != nil {
											x.flags[o] = true
										}
									}
								}
							}
						case *ast.CallExpr:
							if isBuiltin(in, y, "delete") && len(y.Args) > 0 {
								if fv := fieldOf(in, y.Args[0]); fv != nil {
									x.writes[fv] = true
								}
							}
						}
						return true
					})
				}
				cis = append(cis, x)
			}
			byField := map[*types.Var][]ci{}
			for _, x := range cis {
				for fv := range x.writes {
					byField[fv] = append(byField[fv], x)
				}
			}
			for fv, group := range byField {
				if len(group) < 2 {
					continue
				}
				union := map[types.Object]bool{}
				for _, x := range group {
					for o := range x.flags {
						union[o] = true
					}
				}
				if len(union) == 0 {
					continue
				}
				n++
				for _, x := range group {
					var missing []string
					for o := range union {
						if !x.flags[o] {
							missing = append(missing, o.Name())
						}
					}
					sort.Strings(missing)
					var ts []string
					for _, t := range x.arm.Types {
						ts = append(ts, typeString(t))
					}
					c.Check(len(missing) == 0, f, x.arm.Node, "case "+strings.Join(ts, ",")+" changes "+fv.Name(), "case clauses of one trace handler that change the same tracked state ("+fv.Name()+") raise the same notification flags: a clause that changes the state without raising the flag its siblings raise leaves the consumer of that state unaware of the change", ifEmpty(strings.Join(missing, ","), "sets the same flags as its siblings")+ifNotEmpty(missing, " not set to true in this clause"))
				}
			}
		}
	}
	if n == 0 {
		c.Missing("trace handler with sibling clauses", "no trace handler has two clauses changing the same state and raising a flag (the inclusive join's tracker is expected)")
	}
}

// isCancellationReturn: n is a return that is taken only when a same-package helper reported false, and that helper
// returns false only from a select clause that received from a done-source (the wait loop was extracted into a
// function that tells its caller "cancelled").
func isCancellationReturn(p *Prog, f *FuncInfo, n ast.Node) bool {
	ret, ok := n.(*ast.ReturnStmt)
	if !ok {
		return false
	}
	in := info(f)
	return enclosingIfWhere(p, ret, f.Body, func(cond ast.Expr, inThen bool) bool {
		c := unparen(cond)
		neg := false
		if u, ok := c.(*ast.UnaryExpr); ok && u.Op == token.NOT {
			neg, c = true, unparen(u.X)
		}
		if neg != inThen {
			return false // the return must be on the "false" side
		}
		var call *ast.CallExpr
		switch x := c.(type) {
		case *ast.CallExpr:
			call = x
		case *ast.Ident:
			if o := objOf(in, x); o != nil {
				defs, _ := localDefs(in, f.Root().Body, o)
				if len(defs) == 1 {
					call, _ = unparen(defs[0]).(*ast.CallExpr)
				}
			}
		}
		if call == nil {
			return false
		}
		cf := p.byObj[callee(in, call)]
		if cf == nil || cf.Pkg != f.Pkg || cf.Body == nil {
			return false
		}
		falses, okAll := 0, true
		inspectNoLit(cf.Body, func(m ast.Node) bool {
			r, ok := m.(*ast.ReturnStmt)
			if !ok || len(r.Results) != 1 {
				return true
			}
			id, ok := unparen(r.Results[0]).(*ast.Ident)
			if !ok || id.Name != "false" {
				if !ok || id.Name != "true" {
					okAll = false // a computed result: undecided
				}
				return true
			}
			falses++
			inDone := false
			for cur := p.Parent(r); cur != nil && cur != ast.Node(cf.Body); cur = p.Parent(cur) {
				if cc, ok := cur.(*ast.CommClause); ok && cc.Comm != nil && isDoneComm(p, cf, cc.Comm) {
					inDone = true
				}
			}
			if !inDone {
				okAll = false
			}
			return true
		})
		return falses > 0 && okAll
	}) != nil
}
